"""Plain unit tests that replay every stored witness WITHOUT the explorer.

    cd /verif && /venv/bin/python -m pytest -q replays/test_replays.py

Each replays/<Cxx>-<signature>.json is re-executed through `./check <Cxx> --replay <file>` (a plain function call of the
property module's replay(case) + oracle).  A witness of a finding listed as `known` must still fail (exit 1);
a witness of a `fixed` finding must pass on the repaired tree (exit 0) - so a regression of a repaired defect shows up
here as well as in the check itself.
"""
import glob
import json
import os
import subprocess

import pytest

HERE = os.path.dirname(os.path.abspath(__file__))
VERIF = os.path.dirname(HERE)
KNOWN = {(e["property"], e["signature"]): e["status"] for e in json.load(open(os.path.join(VERIF, "known_findings.json")))}
FILES = sorted(glob.glob(os.path.join(HERE, "C*.json")))


@pytest.mark.parametrize("path", FILES, ids=[os.path.basename(p) for p in FILES])
def test_replay(path):
    rec = json.load(open(path))
    prop, sig = rec["property"], rec["signature"]
    status = KNOWN.get((prop, sig))
    p = subprocess.run([os.path.join(VERIF, "check"), prop, "--replay", path], cwd=VERIF, capture_output=True, text=True)
    assert p.returncode in (0, 1), p.stdout + p.stderr
    import re
    reported = set(re.findall(r"^REPLAY-FAILS property=\S+ signature=(\S+) ", p.stdout, flags=re.M))
    if status == "known":
        assert sig in reported, "listed known finding no longer reproduces: %s (replay reported %s)" % (sig, sorted(reported))
    else:
        assert sig not in reported, "witness of a repaired / unlisted finding fails again: %s\n%s" % (sig, p.stdout[-600:])
    # anything else the replay reports must be a listed known finding of the same property
    for other in reported - {sig}:
        assert KNOWN.get((prop, other)) == "known", "replay of %s also shows an unlisted violation %s" % (sig, other)
