"""Shared world / config / turn alphabets and the full-turn harness (DESIGN.md section 2).

Everything here runs the REAL engine (`clematis.engine.orchestrator.core.run_turn`) on small
deterministic worlds.  Nondeterminism owned here: process-global stage caches (reset), log and
snapshot directories (explicit, per execution, on tmpfs), logical clock (ctx.now / ctx.now_ms),
embedding (ctx.enc = TokenEncoder).
"""
from __future__ import annotations

import copy
import datetime as _dt
import hashlib
import json
import os
import shutil
import sys
import types
from typing import Any, Dict, Iterable, List, Optional, Tuple

import numpy as np

from mc.runner import HarnessError

from configs.validate import validate_config
import clematis.engine.orchestrator as orch_pkg
from clematis.engine.orchestrator import core as orch_core
from clematis.engine.stages import t1 as t1_mod
from clematis.engine.stages.t2 import cache as t2_cache_mod
from clematis.engine.types import Node, Edge
from clematis.graph.store import InMemoryGraphStore
from clematis.memory.index import InMemoryIndex

# ----------------------------------------------------------------------------- seams
for _mod, _names in ((t1_mod, ("_T1_CACHE", "_T1_CACHE_CFG", "_T1_CACHE_KIND")),
                     (t2_cache_mod, ("_T2_CACHE", "_T2_CACHE_CFG", "_T2_CACHE_KIND"))):
    for _n in _names:
        if not hasattr(_mod, _n):
            raise HarnessError("seam missing: %s.%s" % (_mod.__name__, _n))
for _n in ("run_turn", "_get_stage_callable", "t1_propagate", "t2_semantic", "t4_filter", "apply_changes"):
    if not hasattr(orch_core, _n):
        raise HarnessError("seam missing: orchestrator.core.%s" % _n)


def reset_globals() -> None:
    """Reset every process-global cache the stages keep (see DESIGN 5b 'lesson')."""
    t1_mod._T1_CACHE = None
    t1_mod._T1_CACHE_CFG = None
    t1_mod._T1_CACHE_KIND = None
    t2_cache_mod._T2_CACHE = None
    t2_cache_mod._T2_CACHE_CFG = None
    t2_cache_mod._T2_CACHE_KIND = None


# ----------------------------------------------------------------------------- config
class AttrDict(dict):
    """dict with attribute access (same shape run_smoke_turn builds)."""

    def __getattr__(self, name):
        try:
            return self[name]
        except KeyError as e:
            raise AttributeError(name) from e

    def __setattr__(self, name, value):
        self[name] = value

    def __deepcopy__(self, memo):
        return to_attr({k: copy.deepcopy(v, memo) for k, v in self.items()})


def to_attr(obj):
    if isinstance(obj, dict):
        return AttrDict({k: to_attr(v) for k, v in obj.items()})
    if isinstance(obj, list):
        return [to_attr(v) for v in obj]
    return obj


def deep_merge(a: dict, b: dict) -> dict:
    out = copy.deepcopy(a)
    for k, v in b.items():
        if isinstance(v, dict) and isinstance(out.get(k), dict):
            out[k] = deep_merge(out[k], v)
        else:
            out[k] = copy.deepcopy(v)
    return out


BASE_RAW: Dict[str, Any] = {
    "t1": {"decay": {"mode": "exp_floor", "rate": 0.6, "floor": 0.05}},
    "t2": {"k_retrieval": 4, "sim_threshold": 0.3, "exact_recent_days": 30,
           "ranking": {"alpha_sim": 0.75, "beta_recency": 0.2, "gamma_importance": 0.05}},
}


def make_cfg(over: Optional[dict] = None, snap_dir: Optional[str] = None, base: Optional[dict] = None,
             validate: bool = True):
    raw = deep_merge(BASE_RAW if base is None else base, over or {})
    if snap_dir is not None:
        raw.setdefault("t4", {})
        raw["t4"] = dict(raw["t4"])
        raw["t4"]["snapshot_dir"] = snap_dir
    norm = validate_config(raw) if validate else raw
    return to_attr(norm)


# Named config variants (one per gate ON); every one goes through validate_config.
CONFIG_MENU: Dict[str, dict] = {
    "base": {},
    "perf_metrics": {"perf": {"enabled": True, "metrics": {"report_memory": True},
                              "t1": {"cache": {"max_entries": 8, "max_bytes": 4096}},
                              "t2": {"cache": {"max_entries": 8, "max_bytes": 65536}}}},
    "perf_caps": {"perf": {"enabled": True, "t1": {"caps": {"frontier": 2, "visited": 2}, "dedupe_window": 2}}},
    "par_t1": {"perf": {"parallel": {"enabled": True, "t1": True, "max_workers": 3}}},
    "gel": {"graph": {"enabled": True, "coactivation_threshold": 0.0, "update": {"alpha": 0.5},
                      "decay": {"half_life_turns": 2, "floor": 0.01},
                      "merge": {"enabled": True, "min_size": 2, "min_avg_w": 0.0},
                      "split": {"enabled": True, "weak_edge_thresh": 0.0}, "promotion": {"enabled": True}}},
    "quality": {"perf": {"enabled": True, "metrics": {"report_memory": True}},
                "t2": {"quality": {"enabled": True, "fusion": {"enabled": True, "alpha_semantic": 0.5},
                                   "mmr": {"enabled": True, "lambda": 0.5, "k": 3}}}},
    "hybrid": {"t2": {"hybrid": {"enabled": True, "lambda_graph": 0.5, "anchor_top_m": 2}}},
    "reflection": {"t3": {"allow_reflection": True, "reflection": {"summary_tokens": 8}},
                   "scheduler": {"budgets": {"ops_reflection": 2}}},
    "scheduler": {"scheduler": {"enabled": True, "quantum_ms": 10 ** 9,
                                "budgets": {"wall_ms": 10 ** 9, "t1_iters": 50, "t2_k": 64, "t3_ops": 8}}},
    "owner_agent": {"t2": {"owner_scope": "agent"}},
    "kill_switch": {"t4": {"enabled": False}},
    "no_caches": {"t1": {"cache": {"enabled": False}}, "t2": {"cache": {"enabled": False}},
                  "t4": {"cache": {"enabled": False}}},
    "cadence3_nobust": {"t4": {"snapshot_every_n_turns": 3, "cache_bust_mode": "none"}},
}


# ----------------------------------------------------------------------------- encoder
KEYWORDS = ["apple", "pear", "fig", "plum"]


class TokenEncoder:
    """Deterministic 5-dim embedding: counts of the four keywords + 'other tokens' in the text.
    Small integer vectors => well separated cosines; exact ties only for identical count vectors."""

    dim = 5

    def encode(self, texts: List[str]):
        out = []
        for t in texts:
            toks = [x for x in "".join(c.lower() if c.isalnum() else " " for c in (t or "")).split() if x]
            v = np.zeros(5, dtype=np.float32)
            for tok in toks:
                if tok in KEYWORDS:
                    v[KEYWORDS.index(tok)] += 1.0
                else:
                    v[4] += 1.0
            out.append(v)
        return out


ENC = TokenEncoder()

# ----------------------------------------------------------------------------- worlds
NOW_ISO = "2025-06-01T00:00:00Z"
NOW_MS = 1748736000000  # 2025-06-01T00:00:00Z


def _ts(days_ago: float) -> str:
    t = _dt.datetime(2025, 6, 1, tzinfo=_dt.timezone.utc) - _dt.timedelta(days=days_ago)
    return t.isoformat().replace("+00:00", "Z")


def _ep(eid, owner, text, days_ago=1.0, cluster=None, importance=None, vec=None, ts="auto"):
    e: Dict[str, Any] = {"id": eid, "owner": owner, "text": text}
    if ts == "auto":
        e["ts"] = _ts(days_ago)
    elif ts is not None:
        e["ts"] = ts
    aux: Dict[str, Any] = {}
    if cluster:
        aux["cluster_id"] = cluster
    if importance is not None:
        aux["importance"] = importance
    if aux:
        e["aux"] = aux
    e["vec_full"] = np.asarray(vec if vec is not None else ENC.encode([text])[0], dtype=np.float32)
    return e


def _graph(store, gid, nodes, edges):
    store.upsert_nodes(gid, [Node(id=n[0], label=n[1], attrs=(n[2] if len(n) > 2 else {})) for n in nodes])
    if edges:
        store.upsert_edges(gid, [Edge(id=e[0], src=e[1], dst=e[2], weight=e[3], rel=e[4]) for e in edges])


def make_world(name: str) -> Dict[str, Any]:
    """Returns a fresh engine state dict: store, active_graphs, mem_index, version_etag."""
    store = InMemoryGraphStore()
    idx = InMemoryIndex()
    state: Dict[str, Any] = {"store": store, "active_graphs": [], "mem_index": idx, "version_etag": "0"}
    if name == "W0":
        return state
    if name == "W1":
        _graph(store, "g1",
               [("n1", "apple", {"tags": ["fruit"]}), ("n2", "pear"), ("n3", "fig")],
               [("e1", "n1", "n2", 0.8, "supports"), ("e2", "n2", "n3", 0.5, "associates")])
        state["active_graphs"] = ["g1"]
        for e in (_ep("ep1", "A", "apple pie with pear", 1, "c1", 0.9),
                  _ep("ep2", "B", "fig and apple jam", 2, "c1", 0.1),
                  _ep("ep3", "world", "pear cider", 40, "c2", 0.5),
                  _ep("ep4", "A", "apple apple fig", 3, None, None)):
            idx.add(e)
        return state
    if name in ("W2", "W3"):
        _graph(store, "g1",
               [("n1", "apple", {"tags": ["fruit"]}), ("n2", "pear"), ("n3", "fig")],
               [("e1", "n1", "n2", 0.75, "supports"), ("e2", "n2", "n3", 0.5, "associates"),
                ("e3", "n3", "n1", 0.5, "contradicts"), ("e4", "n1", "n1", 0.25, "supports"),
                ("e5", "n1", "n2", -0.5, "associates")])
        _graph(store, "g2",
               [("m1", "plum"), ("m2", "apple"), ("m3", "Fig")],
               [("f1", "m2", "m1", 1.0, "weird"), ("f2", "m1", "m3", 0.0, "supports"),
                ("f3", "m3", "m2", 0.5, "supports")])
        _graph(store, "g3", [("k1", "pear"), ("k2", "quince")], [("h1", "k1", "k2", 0.5, "supports")])
        state["active_graphs"] = ["g1", "g2", "g3"]
        for e in (_ep("ep1", "A", "apple pie with pear", 1, "c1", 0.9),
                  _ep("ep2", "B", "fig and apple jam", 2, "c1", 0.1),
                  _ep("ep3", "world", "pear cider", 40, "c2", 0.5),
                  _ep("ep4", "A", "apple apple fig", 3, "c2", 7.0),
                  _ep("ep5", "B", "apple pie with pear", 1, "c3", 0.0),  # bit-identical vector to ep1
                  _ep("ep6", "A", "", 5, "c3", 0.5, vec=[0, 0, 0, 0, 0]),  # zero vector
                  _ep("ep7", "world", "plum plum", 10, None, None)):
            idx.add(e)
        state["graph"] = {
            "nodes": {"ep1": {"id": "ep1"}, "ep2": {"id": "ep2"}, "ep4": {"id": "ep4"}},
            "edges": {
                "ep1→ep2": {"id": "ep1→ep2", "src": "ep1", "dst": "ep2", "rel": "coact", "weight": 0.5,
                            "updated_at": None, "attrs": {}},
                "ep1→ep4": {"id": "ep1→ep4", "src": "ep1", "dst": "ep4", "rel": "coact", "weight": 0.25,
                            "updated_at": None, "attrs": {}},
                "ep2→ep4": {"id": "ep2→ep4", "src": "ep2", "dst": "ep4", "rel": "coact", "weight": -0.25,
                            "updated_at": None, "attrs": {}},
            },
            "meta": {"schema": "v1.1", "merges": [], "splits": [], "promotions": [],
                     "concept_nodes_count": 0, "edges_count": 3},
        }
        if name == "W3":
            state["_agent_graphs"] = {"A": ["g1"], "B": ["g2"], "C": ["g3"], "D": ["g1", "g3"]}
        return state
    raise HarnessError("unknown world %s" % name)


TEXTS = ["apple", "pear fig", "zzz"]
AGENTS = ["A", "B"]


# ----------------------------------------------------------------------------- ctx
def make_ctx(cfg, agent: str, turn: int, shape: str = "both", now: Optional[str] = NOW_ISO,
             now_ms: Optional[int] = NOW_MS, **extra):
    ctx = types.SimpleNamespace(turn_id=turn, agent_id=agent, enc=ENC)
    if now is not None:
        ctx.now = now
    if now_ms is not None:
        ctx.now_ms = now_ms + 1000 * int(turn) if isinstance(turn, int) else now_ms
    if shape in ("both", "cfg"):
        ctx.cfg = cfg
    if shape in ("both", "config"):
        ctx.config = cfg
    for k, v in extra.items():
        setattr(ctx, k, v)
    return ctx


# ----------------------------------------------------------------------------- digests
def graph_digest(store) -> Any:
    out = {}
    for gid in sorted(getattr(store, "_graphs", {})):
        g = store._graphs[gid]
        out[gid] = {
            "etag": g.version_etag,
            "nodes": {nid: [n.label, json.dumps(n.attrs, sort_keys=True, default=repr)] for nid, n in sorted(g.nodes.items())},
            "edges": {eid: [e.src, e.dst, e.weight, e.rel] for eid, e in sorted(g.edges.items())},
        }
    return out


def index_digest(idx) -> Any:
    if idx is None:
        return None
    out = []
    for e in getattr(idx, "_eps", []):
        d = {k: (v.tolist() if hasattr(v, "tolist") else v) for k, v in e.items()}
        out.append(d)
    return {"ver": getattr(idx, "_ver", None), "eps": out}


def state_digest(state: Dict[str, Any]) -> Any:
    return {
        "version_etag": state.get("version_etag"),
        "store": graph_digest(state.get("store")) if state.get("store") is not None else None,
        "graph": state.get("graph"),
        "mem_index": index_digest(state.get("mem_index")),
        "memory_index": index_digest(state.get("memory_index")) if state.get("memory_index") is not None else None,
        "active_graphs": list(state.get("active_graphs", [])),
    }


def read_dir(d: str) -> Dict[str, bytes]:
    out: Dict[str, bytes] = {}
    if not os.path.isdir(d):
        return out
    for root, _dirs, files in os.walk(d):
        for fn in sorted(files):
            p = os.path.join(root, fn)
            with open(p, "rb") as f:
                out[os.path.relpath(p, d)] = f.read()
    return out


class Exec:
    """One execution environment: own log dir + snapshot dir under a scratch root."""

    _n = 0

    def __init__(self, scratch: str, tag: str = "x"):
        Exec._n += 1
        self.root = os.path.join(scratch, "ex-%07d-%07d-%s" % (os.getpid(), Exec._n, tag))  # fixed width: path length must not vary
        self.log_dir = os.path.join(self.root, "logs")
        self.snap_dir = os.path.join(self.root, "snaps")
        os.makedirs(self.log_dir, exist_ok=True)
        os.makedirs(self.snap_dir, exist_ok=True)
        self._old_env = os.environ.get("CLEMATIS_LOG_DIR")

    def activate(self):
        os.environ["CLEMATIS_LOG_DIR"] = self.log_dir
        os.environ["CLEMATIS_SNAPSHOT_DIR"] = self.snap_dir

    def logs(self, normalise: bool = True) -> Dict[str, bytes]:
        out = read_dir(self.log_dir)
        if normalise:
            out = {k: v.replace(self.root.encode(), b"<ROOT>") for k, v in out.items()}
        return out

    def snaps(self, normalise: bool = True) -> Dict[str, bytes]:
        out = read_dir(self.snap_dir)
        if normalise:
            out = {k: v.replace(self.root.encode(), b"<ROOT>") for k, v in out.items()}
        return out

    def close(self):
        shutil.rmtree(self.root, ignore_errors=True)


def run_turn(ctx, state, text):
    return orch_core.run_turn(ctx, state, text)


def run_sequence(scratch: str, world: str, cfg_over: Optional[dict], turns: Iterable[Tuple[str, str]],
                 shape: str = "both", reset: bool = True, cfg=None, state=None, tag: str = "x",
                 per_turn=None, keep: bool = False, start_turn: int = 1):
    """Runs turns [(agent, text), ...] on a fresh world; returns dict with lines, logs, snaps, state digest.
    per_turn(i, ctx, state, result) is called after every turn (for per-turn deep comparisons)."""
    if reset:
        reset_globals()
    ex = Exec(scratch, tag)
    ex.activate()
    try:
        if cfg is None:
            cfg = make_cfg(cfg_over, snap_dir=ex.snap_dir)
        if state is None:
            state = make_world(world)
        lines = []
        per = []
        for i, (agent, text) in enumerate(turns, start=start_turn):
            ctx = make_ctx(cfg, agent, i, shape=shape)
            res = run_turn(ctx, state, text)
            lines.append(res.line)
            if per_turn is not None:
                per.append(per_turn(i, ctx, state, res))
        out = {"lines": lines, "logs": ex.logs(), "snaps": ex.snaps(), "state": state_digest(state), "per": per,
               "state_obj": state if keep else None, "cfg": cfg if keep else None}
        return out
    finally:
        if not keep:
            ex.close()
        else:
            out_ex = ex  # caller closes
            try:
                out["exec"] = out_ex  # type: ignore[name-defined]
            except Exception:
                ex.close()


def jd(x) -> str:
    return json.dumps(x, sort_keys=True, default=repr, ensure_ascii=False)
