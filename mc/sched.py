"""E3b -- stateless, preemption-bounded schedule explorer for 2-3 real threads ("baton scheduler").

The threads are real ``threading.Thread`` objects executing the real code.  Exactly one of them
runs at any time: each thread owns a semaphore (its *baton*) and blocks on it at every *scheduling
point*; the thread that reaches a scheduling point decides -- from the recorded prefix or by the
default rule -- which thread runs next and hands the baton over.

Scheduling points
  * thread start and thread end,
  * every ``line`` event (``sys.settrace``) whose code object lives in one of the *traced files*
    (the point is taken *before* the line executes) -- this is what makes a missing lock visible,
  * every acquisition of an :class:`InstrumentedRLock` (before the acquire).  A thread that wants a
    lock owned by another thread is *not enabled*; the lock is granted atomically with the thread
    being scheduled, so no controlled thread ever blocks on anything but its own baton.

Exploration (``explore``): depth-first over schedule prefixes.  An execution replays its prefix
(checking at every step that the yielding thread, the set of enabled threads and the source location
are the recorded ones -- any divergence is a hard ``HarnessError``) and then follows the default rule
(keep running the current thread; if it is blocked or finished, run the enabled thread with the
smallest id).  Every other enabled thread at every step beyond the prefix spawns a child prefix as
long as the number of *preemptions* (switching away from a thread that could have continued) stays
within the bound.  Each schedule with at most ``bound`` preemptions is executed exactly once.
No enabled thread while some thread is unfinished = deadlock (reported to the caller, threads are
unwound with a BaseException).
"""
from __future__ import annotations

import os
import sys
import threading
from typing import Any, Callable, Dict, List, Optional, Sequence, Tuple

from mc.runner import HarnessError


class SchedAbort(BaseException):
    """Unwinds a controlled thread when the execution is aborted (deadlock / harness error)."""


class InstrumentedRLock:
    """Re-entrant lock whose acquisitions are scheduling points of an :class:`Execution`.

    Used from an uncontrolled thread (e.g. set-up code in the main thread) it degrades to plain
    bookkeeping.  API subset of ``threading.RLock``: acquire/release/context manager."""

    def __init__(self, ex: "Execution", name: str = "lock") -> None:
        self.ex = ex
        self.name = name
        self.owner: Any = None
        self.count = 0
        self.acquisitions = 0

    def acquire(self, blocking: bool = True, timeout: float = -1) -> bool:
        tid = self.ex.tid()
        if tid is None:
            tid = "main"
        if self.owner == tid:
            self.count += 1
            return True
        if tid == "main":
            if self.owner is not None:
                raise HarnessError("uncontrolled thread would block on %s" % self.name)
            self.owner, self.count = tid, 1
            return True
        if not blocking:
            if self.owner is not None:
                return False
            self.owner, self.count = tid, 1
            self.acquisitions += 1
            return True
        self.ex.point(tid, ("acquire", self.name), want=self)  # returns with the lock granted
        self.acquisitions += 1
        return True

    def release(self) -> None:
        tid = self.ex.tid()
        if tid is None:
            tid = "main"
        if self.owner != tid:
            if self.ex.aborting:
                return
            raise RuntimeError("cannot release un-acquired lock")
        self.count -= 1
        if self.count == 0:
            self.owner = None

    def __enter__(self):
        self.acquire()
        return self

    def __exit__(self, *exc):
        self.release()
        return False

    def _is_owned(self) -> bool:
        return self.owner == (self.ex.tid() or "main")


class _T:
    __slots__ = ("sem", "done", "want", "thread")

    def __init__(self) -> None:
        self.sem = threading.Semaphore(0)
        self.done = False
        self.want: Optional[InstrumentedRLock] = None
        self.thread: Optional[threading.Thread] = None


Step = Tuple[Any, Tuple[int, ...], int, Any]  # (yielding thread or None, enabled, chosen, location)


class Execution:
    """One controlled execution of ``n`` thread bodies under a schedule prefix."""

    def __init__(self, n: int, prefix: Sequence[Tuple[int, Any]], files: Sequence[str], *, strict: bool = True,
                 timeout: float = 600.0) -> None:
        self.n = n
        self.prefix = list(prefix)
        self.files = frozenset(os.path.abspath(f) for f in files)
        self._short = {f: os.path.basename(f) for f in self.files}
        self.strict = strict
        self.timeout = timeout
        self.threads = [_T() for _ in range(n)]
        self.trace: List[Step] = []
        self.points = 0
        self.aborting = False
        self.deadlock = False
        self.error: Optional[str] = None
        self.crash: Dict[int, BaseException] = {}
        self._finished = threading.Event()
        self._mutex = threading.Lock()
        self._ndone = 0
        self._tl = threading.local()

    # ------------------------------------------------------------------ helpers
    def tid(self) -> Optional[int]:
        return getattr(self._tl, "tid", None)

    def lock(self, name: str = "lock") -> InstrumentedRLock:
        return InstrumentedRLock(self, name)

    def _enabled(self) -> Tuple[int, ...]:
        out = []
        for i, t in enumerate(self.threads):
            if t.done:
                continue
            w = t.want
            if w is not None and w.owner is not None and w.owner != i:
                continue
            out.append(i)
        return tuple(out)

    def _pick(self, cur: Optional[int], loc: Any) -> Optional[int]:
        en = self._enabled()
        if not en:
            self.deadlock = True
            return None
        self.points += 1
        if len(en) == 1:
            return en[0]  # forced: not a choice, not recorded
        i = len(self.trace)
        default = cur if (cur is not None and cur in en) else en[0]
        if i < len(self.prefix):
            ch, fp = self.prefix[i]
            if fp is not None and tuple(fp) != (cur, en, loc):
                if self.strict:
                    self.error = "replay diverged at step %d: recorded %r, now %r" % (i, fp, (cur, en, loc))
                    return None
            if ch not in en:
                if self.strict:
                    self.error = "replay diverged at step %d: thread %r not enabled (%r)" % (i, ch, en)
                    return None
                ch = default
        else:
            ch = default
        self.trace.append((cur, en, ch, loc))
        return ch

    def _abort(self) -> None:
        self.aborting = True
        for t in self.threads:
            if not t.done:
                t.sem.release()

    # ------------------------------------------------------------------ scheduling points
    def point(self, tid: int, loc: Any, want: Optional[InstrumentedRLock] = None) -> None:
        t = self.threads[tid]
        if self.aborting:
            raise SchedAbort()
        t.want = want
        nxt = self._pick(tid, loc)
        if nxt is None:
            self._abort()
            raise SchedAbort()
        if nxt != tid:
            self.threads[nxt].sem.release()
            t.sem.acquire()
            if self.aborting:
                raise SchedAbort()
        if want is not None:
            if want.owner is not None and want.owner != tid:
                self.error = "scheduler granted a held lock"
                self._abort()
                raise SchedAbort()
            want.owner = tid
            want.count += 1
            t.want = None

    def _finish(self, tid: int) -> None:
        t = self.threads[tid]
        with self._mutex:
            t.done = True
            self._ndone += 1
            alldone = self._ndone == self.n
        if alldone:
            self._finished.set()
            return
        if self.aborting:
            return
        nxt = self._pick(None, ("end", tid))
        if nxt is None:
            self._abort()
            return
        self.threads[nxt].sem.release()

    def _tracer(self, tid: int):
        files = self.files
        short = self._short
        point = self.point

        def local(frame, event, arg):
            if event == "line":
                point(tid, (short[frame.f_code.co_filename], frame.f_lineno))
            return local

        def glob(frame, event, arg):
            if frame.f_code.co_filename in files:
                return local
            return None

        return glob

    def _body(self, tid: int, fn: Callable[[], None]) -> None:
        self._tl.tid = tid
        t = self.threads[tid]
        t.sem.acquire()
        try:
            if self.aborting:
                return
            sys.settrace(self._tracer(tid))
            try:
                fn()
            finally:
                sys.settrace(None)
        except SchedAbort:
            pass
        except BaseException as e:  # noqa  -- bodies are expected to catch the exceptions of their operations
            self.crash[tid] = e
        finally:
            self._finish(tid)

    def run(self, bodies: Sequence[Callable[[], None]]) -> None:
        if len(bodies) != self.n:
            raise HarnessError("need %d bodies" % self.n)
        for i, fn in enumerate(bodies):
            th = threading.Thread(target=self._body, args=(i, fn), name="mc-%d" % i, daemon=True)
            self.threads[i].thread = th
            th.start()
        nxt = self._pick(None, ("start",))
        if nxt is None:
            self._abort()
        else:
            self.threads[nxt].sem.release()
        if not self._finished.wait(self.timeout):
            self._abort()
            self._finished.wait(2.0)
            raise HarnessError("controlled scheduler timed out (a thread blocked outside the scheduler?)")
        for t in self.threads:
            t.thread.join(5.0)
        if self.crash:
            tid, e = sorted(self.crash.items())[0]
            raise HarnessError("thread body %d crashed outside an operation: %r" % (tid, e))

    # ------------------------------------------------------------------ results
    def preemptions(self) -> int:
        return sum(1 for cur, en, ch, _ in self.trace if cur is not None and cur in en and ch != cur)

    def choices(self) -> List[int]:
        return [ch for _, _, ch, _ in self.trace]


def explore(make: Callable[[Execution], Tuple[Sequence[Callable[[], None]], Any]], nthreads: int,
            files: Sequence[str], bound: int, on_exec: Callable[[Execution, Any], None], *,
            max_exec: Optional[int] = None, check_determinism: bool = True) -> Dict[str, Any]:
    """Run every schedule with at most ``bound`` preemptions.

    ``make(ex)`` builds fresh objects for one execution and returns (thread bodies, context);
    ``on_exec(ex, context)`` evaluates the oracle after the execution (threads finished or aborted).
    Returns {"executions", "by_preemptions", "deadlocks", "max_points", "capped"}.
    """
    stack: List[List[Tuple[int, Any]]] = [[]]
    n = 0
    by_pre: Dict[int, int] = {}
    deadlocks = 0
    max_points = 0
    capped = False
    first_trace = None
    while stack:
        if max_exec is not None and n >= max_exec:
            capped = True
            break
        prefix = stack.pop()
        ex = Execution(nthreads, prefix, files)
        bodies, ctx = make(ex)
        ex.run(bodies)
        if ex.error:
            raise HarnessError("schedule explorer: %s" % ex.error)
        if check_determinism and n == 0:
            ex2 = Execution(nthreads, prefix, files)
            b2, _ = make(ex2)
            ex2.run(b2)
            if ex2.trace != ex.trace or ex2.deadlock != ex.deadlock:
                raise HarnessError("schedule explorer: the default schedule is not reproducible")
            first_trace = ex.trace
        n += 1
        p = ex.preemptions()
        by_pre[p] = by_pre.get(p, 0) + 1
        if ex.deadlock:
            deadlocks += 1
        max_points = max(max_points, ex.points)
        on_exec(ex, ctx)
        stack.extend(children(ex.trace, len(prefix), bound))
    return {"executions": n, "by_preemptions": by_pre, "deadlocks": deadlocks, "max_points": max_points,
            "capped": capped}


def children(tr: Sequence[Step], plen: int, bound: int) -> List[List[Tuple[int, Any]]]:
    """the child prefixes of one finished execution: every alternative choice at a step beyond the replayed
    prefix whose preemption count stays within the bound (each schedule is generated exactly once)"""
    out: List[List[Tuple[int, Any]]] = []
    pcs = []
    pc = 0
    for cur, en, ch, _ in tr:
        pcs.append(pc)
        if cur is not None and cur in en and ch != cur:
            pc += 1
    for i in range(len(tr) - 1, plen - 1, -1):
        cur, en, ch, loc = tr[i]
        for alt in en:
            if alt == ch:
                continue
            cost = pcs[i] + (1 if (cur is not None and cur in en and alt != cur) else 0)
            if cost <= bound:
                child = [(c, (cu, e, l)) for (cu, e, c, l) in tr[:i]]
                child.append((alt, (cur, en, loc)))
                out.append(child)
    return out


def run_schedule(make, nthreads: int, files: Sequence[str], choices: Sequence[int]) -> Tuple[Execution, Any]:
    """Lenient replay of one stored schedule (list of chosen thread ids at the recorded choice points):
    choices that are not enabled any more fall back to the default rule.  Used by ``replay(case)``."""
    ex = Execution(nthreads, [(int(c), None) for c in choices], files, strict=False)
    bodies, ctx = make(ex)
    ex.run(bodies)
    return ex, ctx


# ---------------------------------------------------------------------- engine self-test
def selftest() -> Dict[str, int]:
    """The explorer must (a) find the lost update of an unsynchronised read-modify-write at bound 1,
    (b) find none when the same code runs under an InstrumentedRLock, (c) report the deadlock of two
    locks taken in opposite orders.  Raises HarnessError otherwise."""
    from mc import sched_selftest as subj

    files = [subj.__file__]
    res: Dict[str, int] = {}

    def scenario(kind):
        finals = []

        def make(ex):
            obj = subj.Subject(ex.lock("l1"), ex.lock("l2"))
            if kind == "racy":
                bodies = [obj.incr_racy, obj.incr_racy]
            elif kind == "locked":
                bodies = [obj.incr_locked, obj.incr_locked]
            else:
                bodies = [obj.ab, obj.ba]
            return bodies, obj

        def on_exec(ex, obj):
            finals.append(("deadlock" if ex.deadlock else obj.v))

        info = explore(make, 2, files, 2, on_exec)
        return finals, info

    f, info = scenario("racy")
    res["racy_executions"] = info["executions"]
    if 1 not in f or 2 not in f:
        raise HarnessError("sched selftest: lost update not found (finals %r)" % sorted(set(map(str, f))))
    f, info = scenario("locked")
    res["locked_executions"] = info["executions"]
    if set(f) != {2} or info["executions"] < 2:
        raise HarnessError("sched selftest: locked counter gave %r" % sorted(set(map(str, f))))
    f, info = scenario("deadlock")
    res["deadlock_executions"] = info["executions"]
    if "deadlock" not in f or all(x == "deadlock" for x in f):
        raise HarnessError("sched selftest: opposite lock order gave %r" % sorted(set(map(str, f))))
    return res
