"""E4 — I/O fault / crash enumerator (call-numbering proxies).

The engine shadows the names a *target module* uses for I/O — ``os``, ``tempfile``, ``time``, ``Path`` and the
builtin ``open`` — as **module globals of that module** (nothing is patched process-wide).  Every proxied call is a
*numbered call boundary*:

    index i, label ("replace", "write", "fsync", "Path.mkdir", ...), occurrence of that label, the function of
    the target module that made the call ("site"), the path argument.

An execution is driven by a *fault plan*: a list of faults, each addressed either by absolute call index
(``{"at": i}``), by label + occurrence (``{"name": "replace", "occ": 2}``) or by label + calling function + occurrence
within that function (``{"name": "fsync", "site": "atomic_write_bytes", "socc": 2}`` — stable when an earlier fault is
dropped from a plan) with a kind

    kill-before   the process dies before the call has any effect            (Crash raised, engine goes *dead*)
    kill-after    the call takes effect, then the process dies
    fail          the call has no effect and raises OSError(errno) / a bare PermissionError
    fail-drop     (fsync only) raises the errno and the file loses the second half of its content (Linux marks dirty pages
                  clean after a write-back error: a failed fsync means the data may be gone while the process lives on)
    short         (raw write only) only the first n bytes are written, n is returned — an environment answer
    partial-kill  (raw write only) the first n bytes are written, then the process dies

``Crash`` derives from ``BaseException``: ``except Exception`` cleanup handlers do not run, exactly as with a
killed process.  Once *dead*, every proxied call that would change the file system raises ``Crash`` again without
being performed (``finally`` blocks and ``except BaseException`` handlers of the target cannot repair anything);
``close`` calls are performed silently (descriptor hygiene, no file-system effect).  After the execution the real
directory on tmpfs *is* the post-crash state (process death, not power loss).

A *probe* callback is invoked at every call boundary (before each numbered call; the caller evaluates the final
state itself) with the engine in pass-through mode, so reader code may use the proxied module too.

Temp-file names are deterministic: ``tempfile.NamedTemporaryFile`` / ``mkstemp`` run the *real* stdlib code with
``tempfile._name_sequence`` replaced for the duration of the call by a counting sequence drawn from the stdlib
alphabet ([a-z0-9_]{8}); the profile ("alpha", "digits", "under") is an environment answer chosen by the caller.

Raw writes are intercepted below any buffering: a writable ``open`` builds the real ``io`` stack
(``TextIOWrapper`` / ``BufferedWriter``) on top of a ``FaultRaw`` that wraps the real ``FileIO``.  An implementation
that writes through a buffered handle therefore sees short raw writes the way the C buffered layer sees them.

Typical use::

    eng = FaultEngine()
    eng.install(clematis.io.atomic)                 # all five seams
    eng.install(clematis.io.log, names=("os",))     # extra boundaries in a caller
    eng.begin(plan=[{"at": 4, "kind": "fail", "errno": "EIO"}], probe=cb, root=dirpath)
    outcome, value = eng.run(fn, *args)            # ("return", v) | ("raise", exc) | ("killed", None)
    trace, fired = eng.trace, eng.fired
    eng.end()
    ...
    eng.uninstall()
"""
from __future__ import annotations

import builtins
import errno as _errno
import io
import os as _os
import pathlib
import sys
import tempfile as _tempfile
import time as _time
from typing import Any, Callable, Dict, List, Optional, Tuple

from mc.runner import HarnessError

KILL_BEFORE = "kill-before"
KILL_AFTER = "kill-after"
FAIL = "fail"
SHORT = "short"
PARTIAL_KILL = "partial-kill"
FAIL_DROP = "fail-drop"     # (fsync only) the call fails AND the kernel drops the not-yet-durable data of that file
KINDS = (KILL_BEFORE, KILL_AFTER, FAIL, SHORT, PARTIAL_KILL, FAIL_DROP)

SEAMS = ("os", "tempfile", "time", "Path", "open")


class Crash(BaseException):
    """The simulated process death.  Not an ``Exception`` on purpose."""


def make_exc(tag: str) -> BaseException:
    """errno alphabet: an errno name (OSError picks the subclass itself: EACCES/EPERM -> PermissionError) or the
    literal 'PermissionError' = a bare PermissionError without errno (what the repo's own retry test injects)."""
    if tag == "PermissionError":
        return PermissionError("injected sharing violation")
    code = getattr(_errno, tag)
    return OSError(code, _os.strerror(code))


def fault_tag(f: Dict[str, Any]) -> str:
    k = f["kind"]
    if k == FAIL:
        return "fail-%s" % f["errno"]
    if k == FAIL_DROP:
        return "fail-drop-%s" % f["errno"]
    return k


# ------------------------------------------------------------------ deterministic temp names
_B36 = "0123456789abcdefghijklmnopqrstuvwxyz"


def _b36(i: int, width: int) -> str:
    s = ""
    while i:
        s = _B36[i % 36] + s
        i //= 36
    return s.rjust(width, "0")


class _Names:
    """Replacement for tempfile._RandomNameSequence: counting names from the stdlib alphabet, 8 characters."""

    def __init__(self, profile: str) -> None:
        self.profile = profile
        self.i = 0

    def __iter__(self):
        return self

    def __next__(self) -> str:
        i = self.i
        self.i += 1
        if self.profile == "digits":
            return str(i).rjust(8, "0")
        if self.profile == "under":
            return "_" * 4 + _b36(i, 4)
        return "tmp" + _b36(i, 5)


# ------------------------------------------------------------------ raw file proxy
class FaultRaw(io.RawIOBase):
    """Wraps a real FileIO; ``write`` / ``flush`` / ``close`` are numbered boundaries of the engine."""

    def __init__(self, eng: "FaultEngine", raw: io.FileIO, path: Any) -> None:
        super().__init__()
        self._eng = eng
        self._raw = raw
        self._path = path
        self._closing = False
        self._abandoned = False
        self.name = getattr(raw, "name", None)
        self.mode = getattr(raw, "mode", "wb")

    # capabilities
    def readable(self) -> bool:
        return self._raw.readable()

    def writable(self) -> bool:
        return self._raw.writable()

    def seekable(self) -> bool:
        return self._raw.seekable()

    def fileno(self) -> int:
        return self._raw.fileno()

    def isatty(self) -> bool:
        return False

    def seek(self, pos, whence=0):
        return self._raw.seek(pos, whence)

    def tell(self):
        return self._raw.tell()

    def truncate(self, size=None):
        return self._eng.call("truncate", self._raw.truncate, (size,), path=self._path)

    def readinto(self, b):
        return self._raw.readinto(b)

    # numbered
    def write(self, b) -> Optional[int]:
        if self._abandoned:
            return len(b)
        data = bytes(b)
        return self._eng.call("write", self._raw.write, (data,), path=self._path, writer=True)

    def flush(self) -> None:
        if self._closing or self._abandoned or self._raw.closed:
            return
        # FileIO.flush is a no-op: a boundary (kill / probe), never a failing call
        self._eng.call("flush", self._raw.flush, (), path=self._path, failable=False)

    def close(self) -> None:
        if self.closed:
            return
        try:
            if not self._abandoned and not self._raw.closed:
                self._eng.call("close", self._raw.close, (), path=self._path, failable=False, closer=True)
        finally:
            self._closing = True
            try:
                super().close()
            finally:
                self._closing = False

    def _abandon(self) -> None:
        self._abandoned = True
        try:
            if not self._raw.closed:
                self._raw.close()
        except Exception:
            pass


class _TmpWrap:
    """What the tempfile proxy returns for NamedTemporaryFile: the real wrapper with numbered write/flush/close."""

    def __init__(self, eng: "FaultEngine", real: Any) -> None:
        self._eng = eng
        self._f = real
        self.name = real.name

    def __enter__(self):
        return self

    def __exit__(self, *exc) -> bool:
        self.close()
        return False

    def close(self) -> None:
        if getattr(self._f, "closed", False):
            return
        self._eng.call("tmpfile.close", self._f.close, (), path=self.name, failable=False, closer=True)

    def write(self, data):
        return self._eng.call("tmpfile.write", self._f.write, (data,), path=self.name)

    def flush(self):
        return self._eng.call("tmpfile.flush", self._f.flush, (), path=self.name)

    def __getattr__(self, n: str):
        return getattr(self._f, n)


# ------------------------------------------------------------------ module proxies
# label, failable, closer — for the functions of ``os`` that touch the file system
_OS_CALLS: Dict[str, Tuple[str, bool, bool]] = {
    "open": ("os.open", True, False),
    "close": ("os.close", False, True),
    "fsync": ("fsync", True, False),
    "fdatasync": ("fdatasync", True, False),
    "chmod": ("chmod", True, False),
    "fchmod": ("fchmod", True, False),
    "chown": ("chown", True, False),
    "replace": ("replace", True, False),
    "rename": ("rename", True, False),
    "unlink": ("unlink", True, False),
    "remove": ("remove", True, False),
    "mkdir": ("os.mkdir", True, False),
    "makedirs": ("makedirs", True, False),
    "rmdir": ("rmdir", True, False),
    "stat": ("os.stat", True, False),
    "lstat": ("os.lstat", True, False),
    "utime": ("utime", True, False),
    "link": ("link", True, False),
    "symlink": ("symlink", True, False),
    "truncate": ("os.truncate", True, False),
    "ftruncate": ("ftruncate", True, False),
}


def _path_of(args: tuple) -> Any:
    if args and isinstance(args[0], (str, bytes, _os.PathLike)):
        return args[0]
    return None


class _OsProxy:
    def __init__(self, eng: "FaultEngine") -> None:
        self.__dict__["_eng"] = eng
        self.__dict__["_cache"] = {}

    def __getattr__(self, n: str):
        c = self._cache.get(n)
        if c is not None:
            return c
        eng = self._eng
        real = getattr(_os, n)
        if n in _OS_CALLS:
            label, failable, closer = _OS_CALLS[n]

            def wrapper(*a, **k):
                return eng.call(label, real, a, k, path=_path_of(a), failable=failable, closer=closer)
        elif n == "write":
            def wrapper(fd, data):  # type: ignore[misc]
                return eng.call("os.write", lambda d: real(fd, d), (bytes(data),), writer=True)
        elif n == "fdopen":
            def wrapper(fd, *a, **k):  # type: ignore[misc]
                return eng._open(fd, *a, **k)
        else:
            return real
        wrapper.__name__ = n
        self._cache[n] = wrapper
        return wrapper

    def __setattr__(self, n, v):  # pragma: no cover - a target that assigns into os is not supported
        raise HarnessError("target assigns os.%s" % n)


class _TempfileProxy:
    def __init__(self, eng: "FaultEngine") -> None:
        self._eng = eng

    def NamedTemporaryFile(self, *a, **k):
        eng = self._eng
        real = eng.call("NamedTemporaryFile", eng._with_names(_tempfile.NamedTemporaryFile), a, k, path=k.get("dir"))
        if not eng.active or eng.in_probe:
            return real
        return _TmpWrap(eng, real)

    def mkstemp(self, *a, **k):
        eng = self._eng
        fd, name = eng.call("mkstemp", eng._with_names(_tempfile.mkstemp), a, k, path=k.get("dir"))
        eng._fds.add(fd)
        return fd, name

    def __getattr__(self, n: str):
        return getattr(_tempfile, n)


class _TimeProxy:
    def __init__(self, eng: "FaultEngine") -> None:
        self._eng = eng

    def sleep(self, d) -> None:
        self._eng.call("sleep", self._eng._advance, (d,), failable=False)

    def time(self) -> float:
        return self._eng.clock

    def monotonic(self) -> float:
        return self._eng.clock

    def perf_counter(self) -> float:
        return self._eng.clock

    def time_ns(self) -> int:
        return int(self._eng.clock * 1e9)

    def __getattr__(self, n: str):
        return getattr(_time, n)


def _make_path_class(eng: "FaultEngine"):
    Base = type(pathlib.Path())

    def num(label: str, method: str, failable: bool = True):
        realm = getattr(Base, method)

        def m(self, *a, **k):
            return eng.call(label, realm, (self,) + a, k, path=self, failable=failable)
        m.__name__ = method
        return m

    class FPath(Base):  # type: ignore[misc, valid-type]
        __slots__ = ()
        mkdir = num("Path.mkdir", "mkdir")
        exists = num("Path.exists", "exists")
        is_file = num("Path.is_file", "is_file")
        is_dir = num("Path.is_dir", "is_dir")
        stat = num("Path.stat", "stat")
        lstat = num("Path.lstat", "lstat")
        unlink = num("Path.unlink", "unlink")
        rmdir = num("Path.rmdir", "rmdir")
        rename = num("Path.rename", "rename")
        replace = num("Path.replace", "replace")
        chmod = num("Path.chmod", "chmod")
        touch = num("Path.touch", "touch")

        def open(self, mode="r", buffering=-1, encoding=None, errors=None, newline=None):
            return eng._open(self, mode, buffering, encoding, errors, newline)

    FPath.__name__ = "Path"
    FPath.__qualname__ = "Path"
    return FPath


# ------------------------------------------------------------------ the engine
class FaultEngine:
    def __init__(self) -> None:
        self.active = False
        self.in_probe = False
        self.dead = False
        self._depth = 0
        self.plan: List[Dict[str, Any]] = []
        self.trace: List[Dict[str, Any]] = []
        self.fired: List[Tuple[int, Dict[str, Any]]] = []
        self._durable: Dict[Tuple[int, int], int] = {}
        self.probe: Optional[Callable[["FaultEngine", Dict[str, Any]], None]] = None
        self.root: Optional[str] = None
        self.clock = 1_700_000_000.0
        self.names = _Names("alpha")
        self._occ: Dict[str, int] = {}
        self._socc: Dict[Tuple[str, str], int] = {}
        self._raws: List[FaultRaw] = []
        self._fds: set = set()
        self._installed: List[Tuple[Any, str, bool, Any]] = []
        self._targets: set = set()
        self.os = _OsProxy(self)
        self.tempfile = _TempfileProxy(self)
        self.time = _TimeProxy(self)
        self.Path = _make_path_class(self)

    # -- installation --------------------------------------------------------------------
    def install(self, module: Any, names: Tuple[str, ...] = SEAMS, require: bool = True) -> None:
        """Shadow ``names`` as globals of ``module``.  ``open`` is always creatable (builtin looked up by name);
        the other seams must already be module attributes (HarnessError otherwise when ``require``)."""
        proxies = {"os": self.os, "tempfile": self.tempfile, "time": self.time, "Path": self.Path, "open": self._open}
        for n in names:
            had = n in module.__dict__
            if n != "open" and not had:
                if require:
                    raise HarnessError("seam missing: %s.%s is not a module global" % (module.__name__, n))
                continue
            self._installed.append((module, n, had, module.__dict__.get(n)))
            module.__dict__[n] = proxies[n]
        self._targets.add(id(module.__dict__))

    def uninstall(self) -> None:
        for module, n, had, old in reversed(self._installed):
            if had:
                module.__dict__[n] = old
            else:
                module.__dict__.pop(n, None)
        self._installed = []
        self._targets = set()

    # -- one execution -------------------------------------------------------------------
    def begin(self, plan: List[Dict[str, Any]], probe=None, root: Optional[str] = None, names: str = "alpha") -> None:
        for f in plan:
            if f.get("kind") not in KINDS or not (("at" in f) or ("name" in f and ("occ" in f or "socc" in f))):
                raise HarnessError("malformed fault %r" % (f,))
        self.plan = list(plan)
        self.trace = []
        self.fired = []
        self._durable = {}
        self.probe = probe
        self.root = root
        self.clock = 1_700_000_000.0
        self.names = _Names(names)
        self._occ = {}
        self._socc = {}
        self.dead = False
        self.in_probe = False
        self._depth = 0
        self.active = True

    def run(self, fn: Callable, *a, **k) -> Tuple[str, Any]:
        try:
            v = fn(*a, **k)
        except Crash:
            return "killed", None
        except Exception as e:  # the failure the caller of the write sees
            if self.dead:
                return "killed", None
            return "raise", e
        if self.dead:  # somebody swallowed the Crash: the process is dead all the same
            return "killed", None
        return "return", v

    def end(self) -> None:
        self.active = False
        self.probe = None
        for r in self._raws:
            r._abandon()
        self._raws = []
        for fd in list(self._fds):
            try:
                _os.close(fd)
            except OSError:
                pass
        self._fds = set()

    def unfired(self) -> List[Dict[str, Any]]:
        got = [id(f) for _, f in self.fired]
        return [f for f in self.plan if id(f) not in got]

    # -- internals -----------------------------------------------------------------------
    def _advance(self, d) -> None:
        self.clock += max(0.0, float(d))

    def _with_names(self, fn: Callable) -> Callable:
        eng = self

        def g(*a, **k):
            if not hasattr(_tempfile, "_name_sequence"):
                raise HarnessError("tempfile._name_sequence seam missing in this Python")
            saved = _tempfile._name_sequence
            _tempfile._name_sequence = eng.names
            try:
                return fn(*a, **k)
            finally:
                _tempfile._name_sequence = saved
        return g

    def _site(self) -> str:
        f = sys._getframe(2)
        while f is not None:
            if id(f.f_globals) in self._targets:
                return f.f_code.co_name
            f = f.f_back
        return "?"

    def _rel(self, path: Any) -> Optional[str]:
        if path is None:
            return None
        try:
            p = _os.fspath(path)
        except TypeError:
            return None
        if isinstance(p, bytes):
            p = p.decode("utf-8", "replace")
        r = self.root
        if r:
            if p == r:
                return "."
            if p.startswith(r + "/"):
                return p[len(r) + 1:]
        return p

    def _lookup(self, idx: int, label: str, occ: int, site: str, socc: int) -> Optional[Dict[str, Any]]:
        for f in self.plan:
            if "at" in f:
                if f["at"] == idx:
                    return f
            elif f["name"] == label:
                if "socc" in f:
                    if f.get("site") == site and f["socc"] == socc:
                        return f
                elif f["occ"] == occ:
                    return f
        return None

    def _real(self, fn: Callable, a: tuple, k: Optional[dict]):
        self._depth += 1
        try:
            return fn(*a, **(k or {}))
        finally:
            self._depth -= 1

    def _die(self):
        self.dead = True
        raise Crash()

    def call(self, label: str, fn: Callable, a: tuple = (), k: Optional[dict] = None, *, path: Any = None,
             failable: bool = True, closer: bool = False, writer: bool = False):
        if not self.active or self.in_probe or self._depth:
            return fn(*a, **(k or {}))
        if self.dead:
            if closer:
                try:
                    return self._real(fn, a, k)
                except Exception:
                    return None
            raise Crash()
        idx = len(self.trace)
        occ = self._occ.get(label, 0) + 1
        self._occ[label] = occ
        site = self._site()
        socc = self._socc.get((site, label), 0) + 1
        self._socc[(site, label)] = socc
        ent: Dict[str, Any] = {"i": idx, "name": label, "occ": occ, "site": site, "socc": socc,
                               "path": self._rel(path), "failable": failable, "writer": writer}
        if writer:
            ent["len"] = len(a[0])
        self.trace.append(ent)
        if self.probe is not None:
            self.in_probe = True
            try:
                self.probe(self, ent)
            finally:
                self.in_probe = False
        f = self._lookup(idx, label, occ, site, socc)
        if f is None:
            r = self._real(fn, a, k)
            if label == "fsync":
                try:
                    st_ = _os.fstat(a[0])
                    self._durable[(st_.st_dev, st_.st_ino)] = st_.st_size
                except Exception:
                    pass
            return r
        self.fired.append((idx, f))
        kind = f["kind"]
        if kind == KILL_BEFORE:
            self._die()
        if kind == FAIL:
            if not failable:
                raise HarnessError("fault plan fails a non-failing call: %s #%d" % (label, idx))
            raise make_exc(f["errno"])
        if kind == FAIL_DROP:
            if label != "fsync":
                raise HarnessError("fail-drop is defined for fsync only, not %s #%d" % (label, idx))
            try:
                fd = a[0]
                st_ = _os.fstat(fd)
                import stat as _stat
                if _stat.S_ISREG(st_.st_mode):
                    # only data written since the last SUCCESSFUL fsync of this inode can be lost; of that, half goes.
                    # by path: the descriptor may be read-only (an fsync helper that re-opens the file)
                    durable = self._durable.get((st_.st_dev, st_.st_ino), 0)
                    if st_.st_size > durable:
                        _os.truncate(_os.readlink("/proc/self/fd/%d" % fd), durable + (st_.st_size - durable) // 2)
            except Exception:
                pass   # a directory handle / no procfs: nothing to drop
            raise make_exc(f["errno"])
        if kind in (SHORT, PARTIAL_KILL):
            if not writer:
                raise HarnessError("fault plan shortens a non-write call: %s #%d" % (label, idx))
            n = int(f["n"])
            data = a[0]
            if not (0 < n < len(data)):
                raise HarnessError("short length %d out of range for a write of %d bytes" % (n, len(data)))
            got = self._real(fn, (data[:n],), None)
            if kind == SHORT:
                return got
            self._die()
        # KILL_AFTER
        self._real(fn, a, k)
        self._die()

    # -- builtin open ----------------------------------------------------------------------
    def _open(self, file, mode="r", buffering=-1, encoding=None, errors=None, newline=None, closefd=True, opener=None):
        if not self.active or self.in_probe or self._depth:
            return builtins.open(file, mode, buffering, encoding, errors, newline, closefd, opener)
        path = None if isinstance(file, int) else file
        writing = any(c in mode for c in "wax+")
        if not writing:
            return self.call("open", builtins.open, (file, mode, buffering, encoding, errors, newline, closefd, opener),
                             path=path)
        binary = "b" in mode
        rawmode = mode.replace("b", "").replace("t", "")
        if buffering == 0 and not binary:
            raise ValueError("can't have unbuffered text I/O")
        eng = self

        def mk():
            raw = io.FileIO(file, rawmode, closefd=closefd, opener=opener)
            fr = FaultRaw(eng, raw, path)
            eng._raws.append(fr)
            return fr

        fr = self.call("open", mk, (), path=path)
        if isinstance(file, int):
            self._fds.discard(file)
        if buffering == 0:
            return fr
        bs = buffering if buffering > 1 else io.DEFAULT_BUFFER_SIZE
        buf = io.BufferedRandom(fr, bs) if "+" in rawmode else io.BufferedWriter(fr, bs)
        if binary:
            return buf
        return io.TextIOWrapper(buf, encoding, errors, newline, line_buffering=(buffering == 1))
