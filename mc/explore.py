"""E1 -- explicit-state history explorer (BFS over operation histories, to closure).

A *system* couples one real implementation object with a boring reference model and is driven
through a small operation alphabet.  The explorer enumerates every operation history from the
initial state, breadth first; two histories are merged when they reach the same *canonical state*
(canonicalised internal state of the real object + state of the reference model).  Because the
containers it is used for are capacity bounded, the reachable canonical state graph is finite and
is explored to a fixpoint: every reachable state, every operation of the alphabet in every state.

A state is represented by the shortest history that reaches it (parent pointer + operation); to
expand a state the history is re-executed on *fresh real objects* (``system.fresh()``), or -- when
the system declares ``clone_ok`` -- the rebuilt world is deep-copied once per operation.  Every
rebuild re-computes the canonical state and compares it with the stored one: a mismatch means the
harness (or the implementation) is nondeterministic and is a hard ``HarnessError``.

System interface (duck typed)::

    name                      short stable name, prefix of the violation signatures
    describe() -> dict        JSON-able description from which the system can be re-created (replay)
    fresh() -> world          new real object(s) + new reference model
    ops(world) -> list        the operations enabled in this state (JSON-able, usually a constant list)
    step(world, op, check) -> (violations, outcome)
                              apply ``op`` to implementation and model; when ``check`` is true compare
                              return values / observers / invariants and return a list of
                              ``(signature, what)`` plus a small hashable outcome class (anti-vacuity)
    canon(world) -> hashable  canonical state (JSON-able)
    clone_ok                  optional bool: ``copy.deepcopy(world)`` is a faithful clone
"""
from __future__ import annotations

import copy
from typing import Any, Callable, Dict, List, Optional, Tuple

from mc.runner import HarnessError, h64


def rebuild(system, history, check: bool = False):
    """Re-execute ``history`` on fresh real objects.  Returns (world, violations_of_all_steps)."""
    w = system.fresh()
    viol: List[Tuple[str, str]] = []
    for op in history:
        v, _ = system.step(w, op, check)
        if v:
            viol.extend(v)
    return w, viol


def history_of(nodes, idx: int) -> list:
    out = []
    while idx > 0:
        parent, op = nodes[idx]
        out.append(op)
        idx = parent
    out.reverse()
    return out


def fails_with(system, history, sig: str) -> bool:
    """True iff replaying ``history`` step by step (with checks) reports signature ``sig``."""
    w = system.fresh()
    for op in history:
        try:
            v, _ = system.step(w, op, True)
        except HarnessError:
            raise
        if any(s == sig for s, _ in v):
            return True
        if v:
            return False  # some other divergence first: implementation and model are out of step
    return False


def minimise(system, history: list, sig: str, budget: int = 400) -> list:
    """Greedy delta-minimiser: drop operations while the history still fails with ``sig``."""
    h = list(history)
    changed = True
    while changed and budget > 0:
        changed = False
        i = 0
        while i < len(h) - 1 and budget > 0:  # never drop the failing (last) operation
            cand = h[:i] + h[i + 1:]
            budget -= 1
            if fails_with(system, cand, sig):
                h = cand
                changed = True
            else:
                i += 1
    return h


def closure(system, st, *, max_states: Optional[int] = None, max_depth: Optional[int] = None,
            sample_every: int = 0) -> Dict[str, Any]:
    """BFS from the initial state until no new canonical state appears (or a cap is hit).

    Reports through ``st`` (mc.runner.Stats): transitions, validated, states, outcomes, nontrivial,
    violations (case = {"kind": "history", "system": describe(), "history": [...]}).
    Returns {"states", "transitions", "depth", "closed", "violating_transitions"}.
    """
    name = system.name
    desc = system.describe()
    use_clone = bool(getattr(system, "clone_ok", False))

    w0 = system.fresh()
    c0 = h64(system.canon(w0))
    # nondeterminism guard on the very first state as well
    if h64(system.canon(system.fresh())) != c0:
        raise HarnessError("%s: two fresh worlds have different canonical states" % name)
    seen: Dict[int, int] = {c0: 0}
    nodes: List[Tuple[int, Any]] = [(-1, None)]  # idx -> (parent idx, op)
    depth_of: List[int] = [0]
    st.distinct("states", (name, desc, c0))
    frontier = [0]
    transitions = 0
    bad = 0
    depth = 0
    closed = True
    seen_sigs = set()
    while frontier:
        if max_depth is not None and depth >= max_depth:
            closed = False
            break
        nxt: List[int] = []
        for idx in frontier:
            hist = history_of(nodes, idx)
            base, _ = rebuild(system, hist, False)
            cb = h64(system.canon(base))
            if seen.get(cb) != idx:
                raise HarnessError("%s: rebuilding history %r gave a different canonical state "
                                   "(harness or implementation nondeterministic)" % (name, hist))
            ops = list(system.ops(base))
            for k, op in enumerate(ops):
                if use_clone:
                    w = copy.deepcopy(base) if k < len(ops) - 1 else base
                else:
                    w = base if k == 0 else rebuild(system, hist, False)[0]
                viol, outcome = system.step(w, op, True)
                transitions += 1
                st.add("transitions")
                st.add("validated")
                st.distinct("outcomes", (name.split("(")[0], outcome))
                if viol:
                    bad += 1
                    for sig, what in viol:
                        h = hist + [op]
                        if sig not in seen_sigs:
                            seen_sigs.add(sig)
                            try:
                                h = minimise(system, h, sig)
                            except HarnessError:
                                raise
                            except Exception:
                                h = hist + [op]
                        st.violation(sig, "%s after history %r" % (what, h),
                                     {"kind": "history", "system": desc, "history": h, "signature": sig})
                    continue  # implementation and model disagree: do not explore beyond
                c = h64(system.canon(w))
                if c != cb:
                    st.add("nontrivial")
                j = seen.get(c)
                if j is None:
                    if max_states is not None and len(nodes) >= max_states:
                        closed = False
                        continue
                    j = len(nodes)
                    seen[c] = j
                    nodes.append((idx, op))
                    depth_of.append(depth + 1)
                    nxt.append(j)
                    st.distinct("states", (name, desc, c))
                    if sample_every and j % sample_every == 1:
                        st.sample({"kind": "history", "system": desc, "history": hist + [op]})
        frontier = nxt
        if nxt:
            depth += 1
    return {"states": len(nodes), "transitions": transitions, "depth": depth, "closed": closed,
            "violating_transitions": bad}


def replay_history(system, history) -> List[Tuple[str, str]]:
    """Plain re-execution of one stored history with all checks (no explorer)."""
    w = system.fresh()
    out: List[Tuple[str, str]] = []
    for i, op in enumerate(history):
        v, _ = system.step(w, op, True)
        for sig, what in v:
            out.append((sig, "%s (step %d of %r)" % (what, i, history)))
        if v:
            break
    return out
