"""E4 extension — file-system calls that by-pass the module-global proxies of ``mc.faults``.

``mc.faults`` numbers the I/O calls a target module makes through *its own* globals (``os``, ``tempfile``, ``time``,
``Path``, ``open``).  A target that reaches the file system through any other door (``shutil``, ``io.open``,
``pathlib`` imported under another name, a helper module of its own, ...) would be invisible: no boundary, no reader
probe, no fault.  ``EscapeWatch`` closes that hole without knowing the door:

  detection   a process-wide audit hook (PEP 578) sees every ``open`` / ``os.rename`` / ``os.remove`` / ``os.mkdir`` /
              ``os.truncate`` / ``os.chmod`` / ... of the interpreter with its arguments.  An event whose path lies
              under the execution's root directory while the engine is active, not inside a proxied call (those are
              numbered already) and not inside a probe is an *escaped call*.
  numbering   the escaped call becomes a numbered boundary of the engine like any other (label ``esc:<event>``,
              ``esc:open-r`` for a read-only open): the reader probe runs before it, and the plan may kill before
              it, fail it with an errno (the hook raises: the audited operation is aborted and the exception surfaces
              at the call, i.e. "no effect, raises") or kill after it (the process dies once the audited call has
              returned: at the next C-call return, the next boundary, or the end of the execution — whichever comes
              first; nothing that changes the file system lies in between).
  fine steps  an escaped open *for writing* hands the target a handle whose later use (write / sendfile /
              copy_file_range / truncate on it) raises no audit event.  From such an open to the end of the execution
              a profile function (``sys.setprofile``) receives every C call made from Python code; whenever, with no
              numbered boundary in between, the observable file-system state (supplied by the caller as ``sig_fn``)
              differs from the state seen at the previous event, the event becomes a numbered boundary
              ``esc:after-<c function>`` (reader probe + kill point).  Returns that leave the state unchanged are
              equivalent kill points and are not numbered.
  after death once the engine is dead every escaped call that would change the file system raises ``Crash`` again.

The profile function costs time on every call event of the interpreter (and ``sys.setprofile`` does not deliver the
return of a call that is already in flight), so it is installed only where it is needed: ``begin(on_at=...)`` names
the boundaries (-1 = the start of the execution) at whose probe it is installed; if no escaped writable open
follows, it is removed again at the next proxied boundary.  An escaped writable open that arrives while the profile
function is off raises ``NeedFine(at)`` (``at`` = index of the last boundary before it); the caller throws the
execution away and repeats it with ``at`` added to ``on_at`` (``ALL`` = on from start to end, the fall-back).  The
numbering of a completed execution therefore never depends on ``on_at``, and an aborted attempt agrees with it up to
the point of the abort, so plans addressed by absolute indices stay valid across attempts.  ``on_at`` of a completed
execution is a hint that lets plans derived from its trace run without repetition.

Limits: a write through an escaped handle is one step (no short / partial write inside a single C call); calls made
from C code into C code produce neither profile events nor (for plain writes) audit events; their effect is attributed
to the next return into Python code.  Un-audited effects performed *after* death by ``finally`` blocks on handles
opened through an escaped door (e.g. the implicit flush of a buffered handle) are not suppressed.
"""
from __future__ import annotations

import os as _os
import sys
from typing import Any, Callable, Dict, List, Optional, Tuple

from mc.faults import Crash, FaultEngine, KILL_AFTER

PREFIX = "esc:"
ALL = "all"

# audit event -> indices of the path arguments
_EVENTS: Dict[str, Tuple[int, ...]] = {
    "open": (0,),
    "os.rename": (0, 1),        # os.rename and os.replace
    "os.remove": (0,),          # os.remove and os.unlink
    "os.rmdir": (0,),
    "os.mkdir": (0,),
    "os.truncate": (0,),        # os.truncate(path) and os.ftruncate(fd)
    "os.chmod": (0,),           # + fchmod(fd)
    "os.chown": (0,),
    "os.link": (0, 1),
    "os.symlink": (1,),
    "os.utime": (0,),
}
_WRITE_FLAGS = _os.O_WRONLY | _os.O_RDWR | _os.O_CREAT | _os.O_TRUNC | _os.O_APPEND
_OWN = (__name__, "mc.faults")


class NeedFine(BaseException):
    """Raised at an escaped writable open that meets the profile function switched off: repeat the execution with
    the profile function installed at boundary ``at``."""

    def __init__(self, at: int) -> None:
        super().__init__(at)
        self.at = at


def _noop() -> None:
    return None


class EscapeWatch:
    def __init__(self, eng: FaultEngine) -> None:
        self.eng = eng
        self.armed = False
        self.on_at: Any = frozenset()
        self.prof_on = False
        self.busy = False
        self.region = False         # an escaped writable handle exists: fine steps until the end of the execution
        self.pending_die = False
        self.need_at: Optional[int] = None
        self.root: Optional[str] = None
        self.sig_fn: Optional[Callable[[], Any]] = None
        self.last_sig: Any = None
        self.last_len = -1
        self.escapes = 0
        self.doors: List[str] = []
        self._hooked = False

    # -- life cycle ----------------------------------------------------------------------
    def install(self) -> None:
        if not self._hooked:
            sys.addaudithook(self._audit)   # cannot be removed again; inert unless armed
            self._hooked = True

    def begin(self, root: str, sig_fn: Callable[[], Any], on_at: Any = ()) -> None:
        """Call right after ``eng.begin``.  ``on_at``: boundary indices (-1 = start) or ``ALL``."""
        self.install()
        self.root = root
        self.sig_fn = sig_fn
        self.on_at = ALL if on_at == ALL else frozenset(on_at or ())
        self.busy = False
        self.region = False
        self.pending_die = False
        self.need_at = None
        self.last_sig = None
        self.last_len = -1
        self.escapes = 0
        self.doors = []
        self.armed = True
        self._switch(self.on_at == ALL or -1 in self.on_at)

    def end(self) -> None:
        """Call right after ``eng.run`` returned (before ``eng.end``)."""
        self._switch(False)
        self.armed = False
        self.region = False
        self.sig_fn = None

    def boundary(self, ent: Dict[str, Any]) -> None:
        """To be called from the engine's probe callback (every numbered boundary): a pending kill-after of an
        escaped call is due at the latest here; a proxied boundary (re)positions the profile function."""
        if self.pending_die:
            self._die()
        if not self.region:
            if self.on_at == ALL or ent["i"] in self.on_at:
                self._switch(True)
            elif not ent["name"].startswith(PREFIX):
                self._switch(False)

    # -- internals -----------------------------------------------------------------------
    def _switch(self, on: bool) -> None:
        if on != self.prof_on:
            sys.setprofile(self._prof if on else None)
            self.prof_on = on

    def _die(self) -> None:
        self.pending_die = False
        self.eng.dead = True
        raise Crash()

    def _under(self, p: Any) -> Optional[str]:
        if isinstance(p, int):
            try:
                p = _os.readlink("/proc/self/fd/%d" % p)
            except OSError:
                return None
        try:
            p = _os.fspath(p)
        except TypeError:
            return None
        if isinstance(p, bytes):
            p = p.decode("utf-8", "surrogateescape")
        if not p.startswith("/"):
            p = _os.path.abspath(p)
        r = self.root
        if r and (p == r or p.startswith(r + "/")):
            return p
        return None

    def _door(self) -> str:
        """module.function of the innermost Python frame outside the machinery that made the call."""
        f = sys._getframe(2)
        while f is not None:
            mod = f.f_globals.get("__name__", "?")
            if mod not in _OWN:
                return "%s.%s" % (mod, f.f_code.co_name)
            f = f.f_back
        return "?"

    def _sig(self) -> Any:
        self.busy = True
        try:
            return self.sig_fn() if self.sig_fn is not None else None
        finally:
            self.busy = False

    def _audit(self, event: str, args: tuple) -> None:
        idxs = _EVENTS.get(event)
        if idxs is None or not self.armed or self.busy:
            return
        eng = self.eng
        if not eng.active or eng.in_probe or eng._depth:
            return
        path = None
        for i in idxs:
            if i < len(args):
                path = self._under(args[i])
                if path is not None:
                    break
        if path is None:
            return
        if sys._getframe(1).f_globals.get("__name__") in _OWN:
            return                          # an environment action of the engine itself (e.g. fail-drop's truncate)
        mutating = True
        wopen = False
        label = PREFIX + event
        if event == "open":
            if isinstance(args[0], int):
                return                      # wraps an existing descriptor: no file-system operation
            flags = args[2] if len(args) > 2 and isinstance(args[2], int) else 0
            mutating = wopen = bool(flags & _WRITE_FLAGS)
            if not mutating:
                label += "-r"
        self.escapes += 1
        if len(self.doors) < 8:
            d = self._door()
            if d not in self.doors:
                self.doors.append(d)
        if eng.dead:
            if mutating:
                raise Crash()
            return
        if wopen and not self.prof_on:
            self.need_at = len(eng.trace) - 1
            raise NeedFine(self.need_at)
        if self.pending_die:
            self._die()
        pre = self._sig() if (wopen or self.region) else None
        idx = len(eng.trace)
        try:
            eng.call(label, _noop, (), None, path=path, failable=True)
        except Crash:
            if eng.fired and eng.fired[-1][0] == idx and eng.fired[-1][1]["kind"] == KILL_AFTER:
                # the audited call must take effect first: die when it has returned (see pending_die)
                eng.dead = False
                self.pending_die = True
                if wopen:
                    self.region = True
                return
            raise
        if wopen:
            self.region = True
        if self.region:
            self.last_sig = pre
            self.last_len = len(eng.trace)

    def _prof(self, frame, event: str, arg: Any) -> None:
        if event[:2] != "c_" or not (self.region or self.pending_die):     # c_call, c_return, c_exception
            return
        if frame.f_globals.get("__name__") in _OWN:
            return                          # the machinery's own C calls are no steps of the target
        eng = self.eng
        if self.busy or not eng.active or eng.in_probe or eng._depth or eng.dead:
            return
        if self.pending_die:
            if event == "c_call":
                return
            self._die()
        if not self.region:
            return
        sig = self._sig()
        if len(eng.trace) != self.last_len:
            # a numbered boundary lies between the previous event and this one: the change (if any) is its effect
            self.last_sig = sig
            self.last_len = len(eng.trace)
            return
        if sig == self.last_sig:
            return
        self.last_sig = sig
        name = getattr(arg, "__name__", None) or "call"
        try:
            # (a change first seen when the *next* C call starts was made by code that raises no profile event)
            eng.call("%s%s-%s" % (PREFIX, "before" if event == "c_call" else "after", name), _noop, (), None,
                     path=None, failable=False)
        finally:
            self.last_len = len(eng.trace)
