"""Runner shared by every property check.

    ./check <Cxx> <quick|thorough>
    ./check <Cxx> --replay <file>

A property module ``props.<cxx>`` exposes

    run(run: Run) -> None            # the exhaustive exploration; reports through ``run``
    replay(case: dict) -> list[(signature, what)]   # re-executes one stored case without the explorer

Verdict protocol (see DESIGN.md section 1):
  exit 0  the oracle held on everything explored (KNOWN-FINDING lines allowed)
  exit 1  at least one violation whose signature is not listed as ``known`` in known_findings.json;
          one line ``VIOLATION property=<id> replay=<path>`` per such signature
  exit 2  HARNESS-ERROR (seam missing, nondeterministic replay, crash of the machinery itself)
"""
from __future__ import annotations

import atexit
import hashlib
import importlib
import json
import multiprocessing as mp
import os
import re
import shutil
import sys
import tempfile
import time
import traceback
from typing import Any, Callable, Dict, Iterable, List, Optional, Tuple

VERIF = os.path.dirname(os.path.dirname(os.path.abspath(__file__)))
REPO = os.environ.get("VERIF_REPO", "/repo")
NCPU = max(1, min(16, os.cpu_count() or 1))


class HarnessError(Exception):
    pass


def h64(obj: Any) -> int:
    """Stable 64-bit digest of a JSON-able / repr-able object (independent of PYTHONHASHSEED)."""
    if not isinstance(obj, (bytes, bytearray)):
        try:
            obj = json.dumps(obj, sort_keys=True, default=repr, ensure_ascii=False).encode("utf-8", "surrogatepass")
        except Exception:
            obj = repr(obj).encode("utf-8", "surrogatepass")
    return int.from_bytes(hashlib.blake2b(obj, digest_size=8).digest(), "big")


class Stats:
    """Mergeable coverage record; workers fill one each, the parent merges them."""

    MAX_SAMPLES = 6

    def __init__(self) -> None:
        self.n: Dict[str, int] = {}
        self.sets: Dict[str, set] = {}
        self.viol: Dict[str, Tuple[str, Any]] = {}
        self.samples: List[Any] = []
        self.notes: Dict[str, Any] = {}

    def add(self, key: str, k: int = 1) -> None:
        self.n[key] = self.n.get(key, 0) + k

    def distinct(self, key: str, obj: Any) -> bool:
        s = self.sets.setdefault(key, set())
        d = obj if isinstance(obj, int) else h64(obj)
        if d in s:
            return False
        s.add(d)
        return True

    def sample(self, case: Any) -> None:
        if len(self.samples) < self.MAX_SAMPLES:
            self.samples.append(case)

    def violation(self, sig: str, what: str, case: Any) -> None:
        old = self.viol.get(sig)
        if old is not None:
            try:
                if len(json.dumps(old[1], default=repr)) <= len(json.dumps(case, default=repr)):
                    return
            except Exception:
                return
        self.viol[sig] = (what, case)

    def merge(self, other: "Stats") -> None:
        for k, v in other.n.items():
            self.n[k] = self.n.get(k, 0) + v
        for k, v in other.sets.items():
            self.sets.setdefault(k, set()).update(v)
        for sig, (what, case) in other.viol.items():
            self.violation(sig, what, case)
        for s in other.samples:
            self.sample(s)
        for k, v in other.notes.items():
            if isinstance(v, (int, float)) and isinstance(self.notes.get(k), (int, float)):
                self.notes[k] = max(self.notes[k], v)
            else:
                self.notes.setdefault(k, v)


def _worker_entry(args):
    fn, chunk, extra = args
    st = Stats()
    try:
        fn(chunk, st, *extra)
    except HarnessError:
        raise
    except BaseException as e:  # noqa
        raise HarnessError("worker crashed: %s\n%s" % (e, traceback.format_exc()))
    return st


class Run(Stats):
    def __init__(self, prop: str, tier: str, seed: int) -> None:
        super().__init__()
        self.prop = prop
        self.tier = tier
        self.seed = seed
        self.thorough = tier == "thorough"
        self.t0 = time.time()
        self.assumptions: List[str] = []
        self.exhaustive = True
        self.caps: List[str] = []
        self.rule = ""
        base = "/dev/shm" if os.path.isdir("/dev/shm") and os.access("/dev/shm", os.W_OK) else None
        self.scratch = tempfile.mkdtemp(prefix="verif-%s-" % prop, dir=base)
        atexit.register(shutil.rmtree, self.scratch, True)

    # -- parallel map over chunks of an enumeration (fork: children inherit imported modules
    #    but every execution resets the process-global caches it depends on) ---------------
    def pmap(self, fn: Callable, items: Iterable[Any], extra: tuple = (), chunks: Optional[int] = None,
             procs: Optional[int] = None) -> None:
        items = list(items)
        procs = procs or (NCPU if (self.thorough or len(items) > 64) else min(NCPU, 8))
        if not items:
            return
        nchunks = chunks or min(len(items), procs * 8)
        parts = [items[i::nchunks] for i in range(nchunks)]
        parts = [p for p in parts if p]
        if procs <= 1 or len(parts) == 1:
            for p in parts:
                self.merge(_worker_entry((fn, p, extra)))
            return
        ctx = mp.get_context("fork")
        with ctx.Pool(procs) as pool:
            for st in pool.imap_unordered(_worker_entry, [(fn, p, extra) for p in parts]):
                self.merge(st)

    def cap(self, text: str) -> None:
        self.exhaustive = False
        self.caps.append(text)

    def assume(self, text: str) -> None:
        if text not in self.assumptions:
            self.assumptions.append(text)


def _slug(s: str) -> str:
    return re.sub(r"[^A-Za-z0-9_.=-]+", "_", s)[:120]


def load_known() -> List[dict]:
    p = os.path.join(VERIF, "known_findings.json")
    if not os.path.exists(p):
        return []
    with open(p, "r", encoding="utf-8") as f:
        return list(json.load(f))


def _jsonable(x: Any) -> Any:
    return json.loads(json.dumps(x, default=repr, ensure_ascii=False))


def finish(run: Run) -> int:
    known = {e["signature"]: e for e in load_known() if e.get("property") == run.prop and e.get("status") == "known"}
    new: List[str] = []
    # mutant / seeded-change runs redirect their artefacts so /verif/replays and /verif/evidence keep
    # describing the unchanged tree (tools/run_mutants.py sets these)
    rep_dir = os.environ.get("VERIF_REPLAY_DIR") or os.path.join(VERIF, "replays")
    ev_dir = os.environ.get("VERIF_EVIDENCE_DIR") or os.path.join(VERIF, "evidence")
    os.makedirs(rep_dir, exist_ok=True)
    n_known = 0
    for sig in sorted(run.viol):
        what, case = run.viol[sig]
        path = os.path.join(rep_dir, "%s-%s.json" % (run.prop, _slug(sig)))
        with open(path, "w", encoding="utf-8") as f:
            json.dump({"property": run.prop, "signature": sig, "what": what, "case": _jsonable(case)}, f,
                      indent=1, sort_keys=True, ensure_ascii=False)
            f.write("\n")
        if sig in known:
            n_known += 1
            print("KNOWN-FINDING: property=%s %s [%s]" % (run.prop, known[sig].get("what", what), sig))
        else:
            new.append(sig)
            print("VIOLATION property=%s replay=%s" % (run.prop, path))
            print("  signature: %s" % sig)
            print("  what: %s" % what)
    for sig in sorted(set(known) - set(run.viol)):
        # a listed finding that no longer reproduces is worth a (non-fatal) remark
        print("note: known finding not reproduced in this run: %s [%s]" % (known[sig].get("what", ""), sig))

    cov: Dict[str, Any] = {}
    cov["states"] = int(run.n.get("states", 0) or len(run.sets.get("states", ())))
    if "states" in run.sets:
        cov["states"] = len(run.sets["states"])
    cov["transitions"] = int(run.n.get("transitions", 0))
    cov["traces_validated_against_impl"] = int(run.n.get("validated", 0))
    cov["evaluations"] = int(run.n.get("evaluations", cov["transitions"]))
    cov["distinct_nontrivial"] = len(run.sets.get("nontrivial", ())) if "nontrivial" in run.sets else int(run.n.get("nontrivial", 0))
    cov["distinct_outcomes"] = len(run.sets.get("outcomes", ()))
    cov["rule"] = run.rule
    cov["samples"] = _jsonable(run.samples[: Stats.MAX_SAMPLES]) or ["<none>"]
    cov["exhaustive"] = bool(run.exhaustive)
    cov["caps_hit"] = run.caps
    for k, v in sorted(run.n.items()):
        if k not in ("states", "transitions", "validated", "evaluations", "nontrivial"):
            cov["n_" + k] = v
    for k, v in sorted(run.sets.items()):
        if k not in ("states", "nontrivial", "outcomes"):
            cov["distinct_" + k] = len(v)
    for k, v in sorted(run.notes.items()):
        cov[k] = _jsonable(v)
    cov["known_findings_reproduced"] = n_known
    cov["violation_signatures"] = sorted(run.viol)
    ev = {
        "property_id": run.prop,
        "tier": run.tier,
        "seed": run.seed,
        "level": "model_checking",
        "coverage": cov,
        "assumptions": run.assumptions,
        "wall_s": round(time.time() - run.t0, 3),
        "violations": len(new),
    }
    os.makedirs(ev_dir, exist_ok=True)
    tmp = os.path.join(ev_dir, ".%s.json.tmp" % run.prop)
    with open(tmp, "w", encoding="utf-8") as f:
        json.dump(ev, f, indent=1, sort_keys=True, ensure_ascii=False)
        f.write("\n")
    os.replace(tmp, os.path.join(ev_dir, "%s.json" % run.prop))
    print("%s %s: states=%d transitions=%d validated=%d outcomes=%d known=%d new=%d exhaustive=%s wall=%.1fs" % (
        run.prop, run.tier, cov["states"], cov["transitions"], cov["traces_validated_against_impl"],
        cov["distinct_outcomes"], n_known, len(new), cov["exhaustive"], ev["wall_s"]))
    return 1 if new else 0


def module_for(prop: str):
    import pkgutil
    import props
    for m in pkgutil.iter_modules(props.__path__):
        if m.name.lower().startswith(prop.lower()):
            return importlib.import_module("props." + m.name)
    raise HarnessError("no module for %s" % prop)


def main(argv: List[str]) -> int:
    if len(argv) < 2:
        print(__doc__)
        return 2
    prop = argv[0].upper()
    try:
        mod = module_for(prop)
        if argv[1] == "--replay":
            with open(argv[2], "r", encoding="utf-8") as f:
                rec = json.load(f)
            res = mod.replay(rec["case"])
            if res:
                for sig, what in res:
                    print("REPLAY-FAILS property=%s signature=%s what=%s" % (prop, sig, what))
                return 1
            print("REPLAY-OK property=%s" % prop)
            return 0
        tier = argv[1]
        if tier not in ("quick", "thorough"):
            raise HarnessError("tier must be quick|thorough")
        os.environ["VERIF_TIER"] = tier
        seed = int(os.environ.get("VERIF_SEED", "0") or 0)
        run = Run(prop, tier, seed)
        os.environ["CLEMATIS_LOG_DIR"] = os.path.join(run.scratch, "logs-default")
        os.environ["CLEMATIS_SNAPSHOT_DIR"] = os.path.join(run.scratch, "snaps-default")
        mod.run(run)
        return finish(run)
    except HarnessError as e:
        print("HARNESS-ERROR property=%s %s" % (prop, e))
        return 2
    except Exception as e:  # noqa
        print("HARNESS-ERROR property=%s unexpected %s: %s" % (prop, type(e).__name__, e))
        traceback.print_exc()
        return 2


if __name__ == "__main__":
    sys.exit(main(sys.argv[1:]))
