"""E3b on a thread pool that the code under test creates itself.

``clematis.engine.util.parallel.run_parallel`` builds a ``ThreadPoolExecutor``, submits one thunk per task and
collects the futures.  :class:`PoolExplorer` replaces the executor class *in that module* by a stand-in whose
workers are the controlled threads of a :class:`mc.sched.Execution`: the submitted thunks become the thread
bodies, every ``line`` event inside one of the traced files is a scheduling point, and exactly one worker
runs at any time.  ``explore(call, on_exec)`` runs ``call()`` (the real stage function, on the calling thread)
once per schedule with at most ``bound`` preemptions; the stage must create the pool exactly once per call.

Lines of files that are NOT traced execute atomically (no scheduling point inside), so a real lock taken and
released inside such a file (the result caches) can never be held across a hand-off.
"""
from __future__ import annotations

from typing import Any, Callable, Dict, List, Optional, Sequence

from mc import sched
from mc.runner import HarnessError


class PoolAbort(BaseException):
    """machinery failure inside the controlled pool; a BaseException so that the code under test (which
    collects task failures with ``except Exception``) cannot swallow it"""


class _Fut:
    def __init__(self, pool: "_Pool") -> None:
        self._pool = pool
        self._res: Any = None

    def result(self, timeout: Optional[float] = None) -> Any:
        self._pool._run()
        if self._res is None:
            ex = self._pool.owner._ex
            raise PoolAbort("controlled pool: task did not finish (%s)" % (
                (ex.error if ex is not None and ex.error else "deadlock" if ex is not None and ex.deadlock else "aborted")))
        kind, val = self._res
        if kind == "exc":
            raise val
        return val

    def done(self) -> bool:
        return self._res is not None

    def cancel(self) -> bool:
        return False

    def cancelled(self) -> bool:
        return False

    def exception(self, timeout: Optional[float] = None):
        self._pool._run()
        return self._res[1] if self._res and self._res[0] == "exc" else None


class _Pool:
    def __init__(self, owner: "PoolExplorer", max_workers: Optional[int]) -> None:
        self.owner = owner
        self.max_workers = max_workers
        self.fns: List[Callable[[], Any]] = []
        self.futs: List[_Fut] = []
        self.ran = False

    def submit(self, fn, *a, **kw) -> _Fut:
        if self.ran:
            raise PoolAbort("controlled pool: submit after the workers ran")
        f = _Fut(self)
        self.fns.append(lambda: fn(*a, **kw))
        self.futs.append(f)
        return f

    def _run(self) -> None:
        if self.ran:
            return
        self.ran = True
        n = len(self.fns)
        if n == 0:
            return
        if self.max_workers is not None and n > int(self.max_workers):
            raise PoolAbort("controlled pool: %d tasks on %r workers (the driver must keep tasks <= workers)" % (n, self.max_workers))
        ex = sched.Execution(n, self.owner._prefix, self.owner.files, strict=self.owner._strict)

        def mk(i):
            def body():
                try:
                    self.futs[i]._res = ("ok", self.fns[i]())
                except Exception as e:  # noqa: BLE001 -- delivered through Future.result(), like a real pool
                    self.futs[i]._res = ("exc", e)
            return body

        self.owner._ex = ex
        ex.run([mk(i) for i in range(n)])

    def shutdown(self, wait: bool = True, **kw) -> None:
        self._run()

    def __enter__(self):
        return self

    def __exit__(self, *exc):
        self._run()
        return False


class PoolExplorer:
    def __init__(self, par_module, files: Sequence[str], bound: int, max_exec: Optional[int] = None) -> None:
        self.par_module = par_module
        self.files = list(files)
        self.bound = bound
        self.max_exec = max_exec
        self._prefix: List[Any] = []
        self._strict = True
        self._ex: Optional[sched.Execution] = None
        self._pools = 0

    def _factory(self, max_workers=None, thread_name_prefix="", **kw):
        self._pools += 1
        if self._pools > 1:
            raise PoolAbort("controlled pool: the call created more than one pool")
        return _Pool(self, max_workers)

    def run_one(self, call: Callable[[], Any], prefix, strict: bool = True):
        """one execution of ``call`` under ``prefix``; returns (execution or None when no pool was used, value)"""
        self._prefix, self._strict, self._ex, self._pools = list(prefix), strict, None, 0
        old = self.par_module.ThreadPoolExecutor
        self.par_module.ThreadPoolExecutor = self._factory
        try:
            val = call()
        except PoolAbort as e:
            ex = self._ex
            if ex is not None and ex.deadlock and not ex.error:
                return ex, None  # a deadlock of the workers is an observation, reported by the caller
            raise HarnessError(str(e))
        finally:
            self.par_module.ThreadPoolExecutor = old
        ex = self._ex
        if ex is not None and ex.error:
            raise HarnessError("schedule explorer: %s" % ex.error)
        return ex, val

    def explore(self, call: Callable[[], Any], on_exec: Callable[[sched.Execution, Any], None]) -> Dict[str, Any]:
        stack: List[List[Any]] = [[]]
        n = 0
        by_pre: Dict[int, int] = {}
        deadlocks = 0
        max_points = 0
        capped = False
        while stack:
            if self.max_exec is not None and n >= self.max_exec:
                capped = True
                break
            prefix = stack.pop()
            ex, val = self.run_one(call, prefix)
            if ex is None:
                if n == 0:
                    return {"executions": 0, "by_preemptions": {}, "deadlocks": 0, "max_points": 0, "capped": False, "no_pool": True}
                raise HarnessError("controlled pool: a replayed execution did not create the pool")
            if n == 0:
                ex2, _ = self.run_one(call, prefix)
                if ex2 is None or ex2.trace != ex.trace:
                    raise HarnessError("schedule explorer: the default schedule is not reproducible")
            n += 1
            p = ex.preemptions()
            by_pre[p] = by_pre.get(p, 0) + 1
            if ex.deadlock:
                deadlocks += 1
            max_points = max(max_points, ex.points)
            on_exec(ex, val)
            stack.extend(sched.children(ex.trace, len(prefix), self.bound))
        return {"executions": n, "by_preemptions": by_pre, "deadlocks": deadlocks, "max_points": max_points,
                "capped": capped}
