"""E3a -- completion-order controller for a real ``ThreadPoolExecutor`` fan-out.

The code under test submits n thunks to a pool of w threads (``clematis.engine.util.parallel.run_parallel``)
or runs them inline (w <= 1).  Every thunk is replaced by a *gated* thunk: it announces its arrival,
blocks until the release rule lets it go, runs the real body and announces its return.  The release rule
(a predicate over shared state under one condition variable -- the "controller") lets one task go at a
time, in a prescribed *completion order*, and never before the previous one has returned AND (when the
pool is observed) its ``Future`` is done.  So

  * the bodies execute serially, in the completion order,
  * the futures become done in the completion order,
  * the pool itself (thread creation, FIFO work queue, ``with``-shutdown) is the real one.

Feasible orders.  A pool of w threads picks work items in submit order, so at any time the running
tasks are the first ``min(w, #unfinished)`` unfinished tasks (by submit index).  ``feasible_orders``
enumerates by DFS over "which running task finishes next" exactly the completion orders such a pool can
produce (n=5, w=3 -> 54; w >= n -> n!; w <= 1 -> 1).  The controller *checks* the model against the
real pool at every step: it waits until every task the model says is running has really arrived at its
gate (a task the model expects that never shows up -> ``HarnessError`` after a timeout, never a hang,
never a verdict); ``probe_pool_model`` additionally confirms on the real pool that a task outside the
model's running set does NOT start early.  Tasks that arrive although the model does not expect them
yet (an implementation that uses more threads) are tolerated: every enumerated order stays feasible.

Everything is deterministic: no sleeps decide anything, all waits are condition waits with a deadline.
"""
from __future__ import annotations

import threading
import time
from concurrent.futures import ThreadPoolExecutor as _RealPool
from typing import Any, Callable, Dict, Iterator, List, Optional, Sequence, Tuple

from mc.runner import HarnessError

DEFAULT_TIMEOUT = 60.0


# ------------------------------------------------------------------------------------------ orders
def running_set(n: int, w: int, finished: Sequence[int]) -> List[int]:
    """Tasks a FIFO pool of w threads is executing once ``finished`` have completed."""
    eff = max(1, min(int(w), n)) if n else 0
    fin = set(finished)
    out = []
    for i in range(n):
        if i not in fin:
            out.append(i)
            if len(out) >= eff:
                break
    return out


def feasible_orders(n: int, w: int) -> Iterator[Tuple[int, ...]]:
    """DFS over 'which running task finishes next' (deterministic, lexicographic by choice index)."""
    if n == 0:
        yield ()
        return
    prefix: List[int] = []

    def rec() -> Iterator[Tuple[int, ...]]:
        if len(prefix) == n:
            yield tuple(prefix)
            return
        for i in running_set(n, w, prefix):
            prefix.append(i)
            yield from rec()
            prefix.pop()

    yield from rec()


def count_orders(n: int, w: int) -> int:
    eff = max(1, min(int(w), n)) if n else 0
    c = 1
    for remaining in range(n, 0, -1):
        c *= min(eff, remaining)
    return c


def is_feasible(n: int, w: int, order: Sequence[int]) -> bool:
    if sorted(order) != list(range(n)):
        return False
    done: List[int] = []
    for i in order:
        if i not in running_set(n, w, done):
            return False
        done.append(i)
    return True


# ------------------------------------------------------------------------------------------ controller
_CURRENT: Optional["OrderController"] = None


class ObservedPool(_RealPool):
    """The real ThreadPoolExecutor; only records which Future belongs to which gated thunk."""

    def __init__(self, *a, **kw):
        super().__init__(*a, **kw)
        ctl = _CURRENT
        if ctl is not None:
            with ctl.cv:
                ctl.pool_used = True
                ctl.pool_max_workers = getattr(self, "_max_workers", None)

    def submit(self, fn, *a, **kw):  # type: ignore[override]
        ctl = getattr(fn, "_gate_ctl", None)
        idx = getattr(fn, "_gate_index", None)
        if ctl is not None:
            with ctl.cv:
                ctl.submitted.append(idx)
        fut = super().submit(fn, *a, **kw)
        if ctl is not None:
            ctl._register_future(idx, fut)
        return fut


class OrderController:
    """One controlled execution of ``call()`` whose n thunks were wrapped with ``wrap``.

    There is no separate controller thread: the release rule is a predicate over the shared state,
    evaluated under one condition variable by the gated thunks themselves whenever the state changes
    (arrival, return, future done).  Task i may run iff it is the next one in the prescribed order, every
    earlier one is *done* (body returned and, when the pool is observed, its Future is done) and every
    task the FIFO model says is running has really arrived at its gate."""

    def __init__(self, n: int, w: int, order: Sequence[int], timeout: float = DEFAULT_TIMEOUT):
        self.n = int(n)
        self.w = int(w)
        self.order = tuple(order)
        if not is_feasible(self.n, self.w, self.order):
            raise HarnessError("pool_orders: order %r is infeasible for n=%d w=%d" % (self.order, self.n, self.w))
        self.timeout = float(timeout)
        self.cv = threading.Condition()
        self.arrived: List[int] = []          # arrival order at the gates
        self.released: List[int] = []
        self.returned: List[int] = []         # order in which the bodies returned
        self.future_done: List[int] = []      # order in which the futures became done
        self.done: List[int] = []             # completion order as far as established
        self.futures: Dict[int, Any] = {}
        self.submitted: List[int] = []
        self.executions: Dict[int, int] = {}  # how often each body ran
        self.early: List[int] = []            # tasks that arrived before the model expected them
        self.pool_used = False
        self.pool_max_workers: Optional[int] = None
        self.error: Optional[str] = None
        self.abort = False
        self.hold = False                     # probe only

    # ---- all of the following run with cv held
    def _advance(self) -> None:
        while len(self.done) < len(self.order):
            nxt = self.order[len(self.done)]
            if nxt in self.returned and (not self.pool_used or nxt in self.future_done):
                self.done.append(nxt)
            else:
                break

    def _can_run(self, idx: int) -> bool:
        if self.hold or len(self.done) >= len(self.order) or self.order[len(self.done)] != idx:
            return False
        if any(r not in self.done for r in self.released):
            return False  # the previously released task is not done yet
        return all(i in self.arrived for i in running_set(self.n, self.w, self.done))

    def _fail(self, msg: str) -> None:
        if self.error is None:
            self.error = msg
        self.abort = True
        self.cv.notify_all()

    # ---- called from worker threads / the submitting thread
    def wrap(self, idx: int, thunk: Callable[[], Any]) -> Callable[[], Any]:
        ctl = self

        def gated():
            with ctl.cv:
                ctl.arrived.append(idx)
                ctl.cv.notify_all()
                deadline = time.monotonic() + ctl.timeout
                while not ctl.abort and not ctl._can_run(idx):
                    left = deadline - time.monotonic()
                    if left <= 0:
                        ctl._fail("task %d was never released (order %r, arrived %r, returned %r, done %r)" % (
                            idx, ctl.order, ctl.arrived, ctl.returned, ctl.done))
                        break
                    ctl.cv.wait(left)
                if not ctl.abort:
                    running = running_set(ctl.n, ctl.w, ctl.done)
                    for i in ctl.arrived:
                        if i not in running and i not in ctl.done and i not in ctl.early:
                            ctl.early.append(i)
                ctl.released.append(idx)
                ctl.executions[idx] = ctl.executions.get(idx, 0) + 1
            try:
                return thunk()
            finally:
                with ctl.cv:
                    ctl.returned.append(idx)
                    ctl._advance()
                    ctl.cv.notify_all()

        gated._gate_ctl = ctl  # type: ignore[attr-defined]
        gated._gate_index = idx  # type: ignore[attr-defined]
        return gated

    def _register_future(self, idx: int, fut) -> None:
        with self.cv:
            self.futures[idx] = fut

        def _cb(_f, idx=idx):
            with self.cv:
                self.future_done.append(idx)
                self._advance()
                self.cv.notify_all()

        fut.add_done_callback(_cb)

    def run(self, call: Callable[[], Any]) -> Tuple[str, Any]:
        """Runs call() under control.  Returns ('ok', value) or ('exc', exception)."""
        global _CURRENT
        if _CURRENT is not None:
            raise HarnessError("pool_orders: nested controlled executions")
        _CURRENT = self
        try:
            try:
                out: Tuple[str, Any] = ("ok", call())
            except HarnessError:
                raise
            except Exception as e:  # noqa: BLE001 - outcome of the code under test
                out = ("exc", e)
        finally:
            _CURRENT = None
            with self.cv:
                self.abort = True  # anything still parked at a gate is let go
                self.cv.notify_all()
        if self.error:
            raise HarnessError("pool_orders: " + self.error)
        return out


class observe_pool:
    """Context manager: ``module.ThreadPoolExecutor`` -> ObservedPool (same class, futures recorded)."""

    def __init__(self, module, name: str = "ThreadPoolExecutor", required: bool = True):
        self.module, self.name, self.required = module, name, required
        self.old = None

    def __enter__(self):
        if not hasattr(self.module, self.name):
            if self.required:
                raise HarnessError("seam missing: %s.%s" % (self.module.__name__, self.name))
            return self
        self.old = getattr(self.module, self.name)
        if not (isinstance(self.old, type) and issubclass(self.old, _RealPool)):
            raise HarnessError("seam changed: %s.%s is not concurrent.futures.ThreadPoolExecutor" % (
                self.module.__name__, self.name))
        setattr(self.module, self.name, ObservedPool)
        return self

    def __exit__(self, *exc):
        if self.old is not None:
            setattr(self.module, self.name, self.old)
        return False


def probe_pool_model(run_parallel: Callable, n: int = 3, w: int = 2, grace: float = 0.15) -> Dict[str, Any]:
    """Confirms on the real pool that with w threads task index w does not start before one of the first
    w tasks finished (so orders outside ``feasible_orders`` are really infeasible) and that it does start
    afterwards.  The only place in this module where a sleep is used; it decides nothing about a property."""
    order = next(iter(feasible_orders(n, w)))
    ctl = OrderController(n, w, order)
    ctl.hold = True
    seen: Dict[str, Any] = {}

    def prober():
        with ctl.cv:
            deadline = time.monotonic() + ctl.timeout
            while not all(i in ctl.arrived for i in range(min(w, n))) and time.monotonic() < deadline:
                ctl.cv.wait(0.5)
        time.sleep(grace)
        with ctl.cv:
            seen["arrived_before_first_release"] = sorted(ctl.arrived)
            ctl.hold = False
            ctl.cv.notify_all()

    th = threading.Thread(target=prober, name="verif-pool-probe", daemon=True)
    th.start()
    tasks = [(i, ctl.wrap(i, (lambda i=i: i))) for i in range(n)]
    kind, val = ctl.run(lambda: run_parallel(tasks, max_workers=w, merge_fn=lambda p: list(p), order_key=lambda k: k))
    th.join(ctl.timeout)
    seen["outcome"] = kind
    seen["returned"] = list(ctl.returned)
    seen["model_holds"] = seen.get("arrived_before_first_release") == list(range(min(w, n)))
    return seen
