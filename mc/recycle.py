"""Environment answer "the allocator hands a new object the memory block of a released one" (CPython / pymalloc).

`id()` of an object is unique only among objects alive at the same time.  A process that ends one session object and
creates the next one routinely gets the dead object's address back; anything that remembers objects by `id()` across
that moment (a process-global cache key, a registry) then confuses the two.  Whether this happens in a given run
depends on the allocator's free lists - an environment answer, like a clock value or a hash seed.  This helper owns
that answer: `rebirth()` releases a set of objects and constructs their successors so that each successor is placed
in the block of its predecessor, deterministically, using only the documented behaviour of pymalloc and the dict
free list:

  * a block that is freed in a pool that was FULL makes that pool the first one the size class allocates from, and
    the freed block the first one handed out;
  * a dict that is freed while the dict free list has room is the next dict `{}` returns.

So every free block of the size class is taken first (inert `bytes` probes of the same block size, count read from
`sys._debugmallocstats()`, kept alive until the caller drops them - as a server keeps its other sessions), the dead
objects are emptied beforehand (their contents must not free blocks of the class afterwards), and each dead object
is released immediately before its successor is constructed.  Where the interpreter is not CPython with pymalloc the
successors are simply constructed; the result says per object whether the address was in fact re-used, and callers
count it.  Nothing here touches the engine.
"""
from __future__ import annotations

import os
import re
import sys
import tempfile
import weakref

_GC_HEAD = 16      # PyGC_Head in front of a GC-tracked object
_PRE_HEAD = 16     # managed dict + weakref pointers in front of an instance of a plain Python class (CPython >= 3.11)
_DICT_FREELIST = 80
_SLACK = 64


def block_of(obj):
    """(address, size) of the allocator block holding a dict or an instance of a plain (slot-less) Python class"""
    if type(obj) is dict:
        return id(obj) - _GC_HEAD, 48 + _GC_HEAD
    return id(obj) - _GC_HEAD - _PRE_HEAD, type(obj).__basicsize__ + _GC_HEAD + _PRE_HEAD


def avail_blocks():
    """{block size: free blocks in the pools pymalloc currently allocates from}, or None where that cannot be read"""
    fn = getattr(sys, "_debugmallocstats", None)
    if fn is None:
        return None
    try:
        sys.stderr.flush()
        saved = os.dup(2)
        try:
            with tempfile.TemporaryFile(dir="/dev/shm" if os.path.isdir("/dev/shm") else None) as f:
                os.dup2(f.fileno(), 2)
                try:
                    fn()
                finally:
                    os.dup2(saved, 2)
                f.seek(0)
                txt = f.read().decode("ascii", "replace")
        finally:
            os.close(saved)
    except Exception:
        return None
    out = {}
    for m in re.finditer(r"^\s*(\d+)\s+(\d+)\s+(\d+)\s+(\d+)\s+(\d+)\s*$", txt, re.M):
        out[int(m.group(2))] = int(m.group(5))
    return out or None


def _fill(size, n):
    """n live blocks of the given block size (bytes objects: one allocation each, 33 + len bytes)"""
    hold = [None] * n
    nb = size - 33
    for i in range(n):
        hold[i] = bytes(nb)
    return hold


def rebirth(box):
    """box = [dead_dict or None, [(name, object, factory), ...]] (instances of plain classes); the box is emptied here and the
    CALLER must hold no other reference to its contents (build the box, delete the own variables, call).
    Empties the dead objects, releases them and returns (new_dict, {name: new object}, report) where
    report[name] = {"same_address": bool, "dead_still_referenced": bool} ('dict' for the dict)."""
    dead_dict, dead_objs = box
    box.clear()
    del box
    report = {}
    shells = []
    for name, obj, factory in dead_objs:
        shells.append([name, obj, factory, id(obj), weakref.ref(obj)])
    dead_objs.clear()
    del dead_objs, obj
    d_id = id(dead_dict) if dead_dict is not None else None
    if dead_dict is not None:
        dead_dict.clear()                      # the dead state's other contents go now
    for sh in shells:
        try:
            vars(sh[1]).clear()                # ... and so does everything the dead objects own
        except TypeError:
            pass
    hold = [{} for _ in range(_DICT_FREELIST)]  # the dict free list is empty now
    av = avail_blocks()
    if av is not None:
        for size in sorted({block_of(sh[1])[1] for sh in shells}):
            hold.append(_fill(size, int(av.get(size, 0)) + _SLACK))
    new_dict = None
    if d_id is not None:
        del dead_dict
        new_dict = {}
        report["dict"] = {"same_address": id(new_dict) == d_id, "dead_still_referenced": False}
    out = {}
    for sh in shells:
        name, factory, old_id, wr = sh[0], sh[2], sh[3], sh[4]
        sh[1] = None                           # last reference of ours: the dead object is released here ...
        new = factory()                        # ... and its successor constructed at once
        out[name] = new
        report[name] = {"same_address": id(new) == old_id, "dead_still_referenced": wr() is not None}
    del hold
    return new_dict, out, report
