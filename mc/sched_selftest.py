"""Subjects of mc.sched.selftest() -- this file is the *traced file* of the self-test, so every line
below is a scheduling point.  Keep the read and the write of the counter on separate lines."""


class Subject:
    def __init__(self, l1, l2):
        self.l1 = l1
        self.l2 = l2
        self.v = 0

    def incr_racy(self):
        x = self.v
        x = x + 1
        self.v = x

    def incr_locked(self):
        with self.l1:
            x = self.v
            x = x + 1
            self.v = x

    def ab(self):
        with self.l1:
            with self.l2:
                self.v += 1

    def ba(self):
        with self.l2:
            with self.l1:
                self.v += 1
