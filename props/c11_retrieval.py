"""C11 — retrieval honours owner scope, similarity threshold, tier rules, k cap and the documented
ranking with id tie-break; rerank layers only permute; residual nudges stay inside the used hits and caps.

Engine E2 (small-scope enumeration + boring reference model) on the REAL `t2_semantic`
(clematis/engine/stages/t2/core.py) with the real `InMemoryIndex`, quality layers and hybrid reranker.

Enumerated
  memories   every multiset of <=N episodes over 14 prototypes (owner {A,B,world}; age {1d, 30d (window
             boundary), 30d6h (a quarter of a day past the boundary: the window is a set of INSTANTS, not of
             whole days), 31d, no timestamp}; cluster {c1,c2,none}; importance {absent,0,.5,1,7};
             vector {e1, e2, e1+e2, 0, -e1}; duplicates of one prototype = bit-identical vectors), ids
             handed out in REVERSE insertion order (so an id tie-break differs from insertion order);
  degenerate every such memory of <=N-1 episodes plus ONE episode whose stored vector has a non-finite
  vectors    component (NaN, +inf, -inf: 3 more prototypes) - the similarity of such an episode is undefined,
             like the zero vector it is a value a float32 store can hold;
  queries    "apple" (-> e1) and "apple pear" (-> e1+e2) through the injected TokenEncoder (ctx.enc);
  settings   every assignment with <=D deviations from the default over the dimensions in DIMS (k, threshold,
             tier list = every ordered non-empty subset, recency window, clusters_top_m, ranking weights,
             owner scope x agent, residual cap, slice cap, hybrid rerank x GEL edge set, fusion / MMR).
  quick:    N=3 with D<=1 and N=2 with D<=2;   thorough: N=3 with D<=2 and N=4 with D<=1.
            degenerate-vector leg: quick 2+1 episodes with D<=1 (degenerate episode inserted first);
            thorough 2+1 with D<=1 and 1+1 with D<=2 (degenerate episode inserted first and last).

Oracle (from the property statement and the documented behaviour: docs/m9 "tier-ordered walk / stable
sort (-score,id) / de-duplicate / clamp k once", the ranking law alpha*cos' + beta*recency +
gamma*importance with (-score,id), "use-only" slice clamp):
  * envelope: no exception; ids distinct, members of the memory, <= k; every hit visible under the scope;
    cosine >= threshold (an undefined cosine meets no threshold; tolerated only where the vector with NaN -> 0
    and +-inf -> the limit direction would meet it); every hit admitted by at least one configured tier (exact: timestamped episodes
    inside the inclusive window; cluster: member of a cluster that can be among the top m; archive: any);
  * reference model of the tier walk (per tier rank by (-cos,id), take k, de-duplicate, stop at k) gives the
    id SET; where the statement is silent the model yields several acceptable sets (episode without
    timestamp inside / outside the window; exact_recent_days=0 = "window off" / "today only"; ties between
    cluster centroids at the top-m cut) and any of them is accepted;
  * order (no rerank layer on): pairwise, never a strictly higher combined score behind a lower one, and on
    an exact tie (identical weighted terms) the smaller id first;
  * rerank layers: id multiset after hybrid / fusion / MMR == id multiset of the same setting with that
    layer off;
  * residual: every nudge refers to a node of the store whose lowercase label occurs in the text of a hit
    that was USED (the first slice-cap hits of the returned list), count <= residual cap, k_used <= slice cap.
"""
from __future__ import annotations

import itertools
import math
import types
import warnings
import datetime as _dt

import numpy as np

from mc.runner import Run, Stats, HarnessError
from mc import world as W

import clematis.memory.index as index_mod
import clematis.engine.stages.t2.core as t2core
import clematis.engine.stages.t2.helpers as t2helpers
from clematis.memory.index import InMemoryIndex
from clematis.graph.store import InMemoryGraphStore
from clematis.engine.types import Node

TOL = 1e-9
NOW = _dt.datetime(2025, 6, 1, tzinfo=_dt.timezone.utc)
NOW_ISO = "2025-06-01T00:00:00Z"
ARROW = "→"

# ------------------------------------------------------------------ seams / owned nondeterminism
for _m, _n in ((index_mod, "dt"), (index_mod, "_parse_iso"), (t2core, "t2_semantic"), (t2helpers, "dt")):
    if not hasattr(_m, _n):
        raise HarnessError("seam missing: %s.%s" % (_m.__name__, _n))


class _FixedDateTime(_dt.datetime):
    """datetime whose now()/utcnow() is the logical now (the index falls back to the wall clock for
    unparsable / missing timestamps; results must not depend on the day the check runs)."""

    @classmethod
    def now(cls, tz=None):
        return NOW.astimezone(tz) if tz is not None else NOW.replace(tzinfo=None)

    @classmethod
    def utcnow(cls):
        return NOW.replace(tzinfo=None)


_DT_PROXY = types.SimpleNamespace(datetime=_FixedDateTime, timedelta=_dt.timedelta, timezone=_dt.timezone,
                                  date=_dt.date, time=_dt.time)


def _quiet_numpy():
    """numpy announces every NaN it produces from a degenerate stored vector (RuntimeWarning on stderr, once per
    forked worker); the warning is not part of the observation"""
    warnings.filterwarnings("ignore", message="invalid value encountered", category=RuntimeWarning)
    warnings.filterwarnings("ignore", message="overflow encountered", category=RuntimeWarning)


def _pin_clock():
    index_mod.dt = _DT_PROXY
    t2helpers.dt = _DT_PROXY
    if hasattr(t2core, "dt"):
        t2core.dt = _DT_PROXY


# ------------------------------------------------------------------ alphabets
E1 = (1, 0, 0, 0, 0)
E2 = (0, 1, 0, 0, 0)
E12 = (1, 1, 0, 0, 0)
Z = (0, 0, 0, 0, 0)
NE1 = (-1, 0, 0, 0, 0)
# degenerate stored vectors: components written as strings so that every case stays plain JSON
VNAN = ("nan", 0, 0, 0, 0)
VINF = ("inf", 0, 0, 0, 0)
VMINF = (0, "-inf", 0, 0, 0)

# owner, age in days (None = no timestamp), cluster, importance (None = absent), vector, text
PROTOS = [
    ("A", 1, "c1", None, E1, "apple"),
    ("A", 1, "c1", 0.0, E12, "apple pear"),
    ("A", 30, "c2", 1.0, E2, "Pear tart"),
    ("A", 30.25, None, 7.0, E1, "apple fig"),
    ("A", None, "c1", 0.5, E12, "fig and pear"),
    ("B", 1, "c1", 1.0, E1, "apple"),
    ("B", 31, "c2", 0.0, E2, "pear"),
    ("B", None, None, 0.5, NE1, "no apple"),
    ("world", 1, "c2", 0.5, E1, "apple plum"),
    ("world", 30.25, "c1", 1.0, E12, "apple pear"),
    ("A", 1, "c2", 0.5, Z, ""),
    ("A", 31, "c2", 0.0, NE1, "zzz"),
    ("world", None, None, 0.0, E2, "pear"),
    ("B", 30, "c1", 7.0, E12, "apple pear fig"),
]
# prototypes of the degenerate-vector leg (at most one of them per memory)
PROTOS_X = [
    ("A", 1, "c1", 0.5, VNAN, "apple"),
    ("A", 30, None, None, VINF, "pear fig"),
    ("world", None, "c2", 1.0, VMINF, "apple plum"),
]
ALL_PROTOS = PROTOS + PROTOS_X
X_INDEX = list(range(len(PROTOS), len(ALL_PROTOS)))
QUERIES = ["apple", "apple pear"]
QVEC = {"apple": E1, "apple pear": E12}

# graph the residual nudges may refer to (label -> lowercase match in hit text); "quince" matches nothing
NODES = [("n1", "apple"), ("n2", "Pear"), ("n3", "fig"), ("n4", "plum"), ("n5", "quince")]

TIER_NAMES = ["exact_semantic", "cluster_semantic", "archive"]
_T = {"E": "exact_semantic", "C": "cluster_semantic", "A": "archive"}
ALL_TIER_LISTS = []
for _r in (1, 2, 3):
    for _p in itertools.permutations("ECA", _r):
        ALL_TIER_LISTS.append("".join(_p))
DEFAULT_TIERS = "ECA"

GEL_SETS = {
    "H1": [("e1", "e2", 0.9)],
    "H2": [("e1", "e3", 0.9)],
    "H3": [("e2", "e3", 0.9), ("e1", "e2", -0.9)],
    "H4": [("e1", "e2", 0.5), ("e2", "e3", 0.5)],
}
QUALITY = {
    # name -> (alpha_semantic, mmr or None as (lambda, k))
    "F5": (0.5, None),
    "F0": (0.0, None),
    "M1": (0.5, (0.5, 1)),
    "MN": (0.5, (1.0, None)),
}

# dimension -> values, first = default
DIMS = [
    ("k", [64, 1, 2]),
    ("thr", [0.3, -1.0, 0.0, 0.99]),
    ("tiers", [DEFAULT_TIERS] + [t for t in ALL_TIER_LISTS if t != DEFAULT_TIERS]),
    ("rd", [30, 1, 0]),
    ("tm", [3, 1, 2]),
    ("rank", [(0.75, 0.2, 0.05), (1.0, 0.0, 0.0), (0.0, 1.0, 0.0), (0.0, 0.0, 1.0)]),
    ("scope", [("any", "A"), ("agent", "A"), ("agent", "B"), ("world", "A"), ("agent", "C")]),
    ("rescap", [32, 0, 1]),
    ("slice", [None, 0, 1]),
    ("hybrid", [None, "H1", "H2", "H3", "H4"]),
    ("quality", [None, "F5", "F0", "M1", "MN"]),
]
DIM_NAMES = [d for d, _ in DIMS]
BASE = {d: v[0] for d, v in DIMS}


def settings(maxdev: int):
    """every assignment with <= maxdev deviations from BASE (deterministic order)"""
    yield dict(BASE)
    singles = [(d, v) for d, vals in DIMS for v in vals[1:]]
    if maxdev >= 1:
        for d, v in singles:
            s = dict(BASE)
            s[d] = v
            yield s
    if maxdev >= 2:
        for (d1, v1), (d2, v2) in itertools.combinations(singles, 2):
            if d1 == d2:
                continue
            s = dict(BASE)
            s[d1] = v1
            s[d2] = v2
            yield s
    if maxdev >= 3:
        raise HarnessError("maxdev > 2 not supported")


def skey(s: dict):
    return tuple((tuple(s[d]) if isinstance(s[d], (list, tuple)) else s[d]) for d in DIM_NAMES)


def s_json(s: dict):
    """only the deviating dimensions (missing = default), so that fewer deviations = smaller case"""
    out = {}
    for d in DIM_NAMES:
        v = s[d]
        if v != BASE[d]:
            out[d] = list(v) if isinstance(v, tuple) else v
    return out


def s_from_json(j: dict):
    s = dict(BASE)
    for d in DIM_NAMES:
        if d in j:
            v = j[d]
            s[d] = tuple(v) if isinstance(v, list) else v
    return s


def n_dev(s: dict) -> int:
    return sum(1 for d in DIM_NAMES if s[d] != BASE[d])


# ------------------------------------------------------------------ config objects (validated once, before fork)
_CFG = {}


def _cfg_key(s):
    return (s["k"], s["thr"], s["tiers"], s["rd"], s["tm"], tuple(s["rank"]), s["scope"][0], s["rescap"],
            s["hybrid"] is not None, s["quality"])


def cfg_for(s, variant=None):
    key = _cfg_key(s) + (variant,)
    c = _CFG.get(key)
    if c is None:
        t2 = {
            "cache": {"enabled": variant == "warm-cache"},
            "k_retrieval": s["k"], "sim_threshold": s["thr"],
            "tiers": [_T[c_] for c_ in s["tiers"]],
            "exact_recent_days": s["rd"], "clusters_top_m": s["tm"],
            "ranking": {"alpha_sim": s["rank"][0], "beta_recency": s["rank"][1], "gamma_importance": s["rank"][2]},
            "owner_scope": s["scope"][0], "residual_cap_per_turn": s["rescap"],
        }
        if s["hybrid"] is not None:
            t2["hybrid"] = {"enabled": True, "lambda_graph": 1.0}
        if s["quality"] is not None:
            alpha, mmr = QUALITY[s["quality"]]
            q = {"enabled": True, "fusion": {"enabled": True, "alpha_semantic": alpha}}
            if mmr is not None:
                q["mmr"] = {"enabled": True, "lambda": mmr[0]}
                if mmr[1] is not None:
                    q["mmr"]["k"] = mmr[1]
            t2["quality"] = q
        over = {"t2": t2}
        if variant == "parallel":
            over["perf"] = {"parallel": {"enabled": True, "t2": True, "max_workers": 2}}
        c = W.make_cfg(over)
        got = c["t2"]
        if got["k_retrieval"] != s["k"] or got["cache"]["enabled"] is not (variant == "warm-cache") or list(got["tiers"]) != t2["tiers"]:
            raise HarnessError("validated config lost a setting: %r" % (got,))
        _CFG[key] = c
    return c


# ------------------------------------------------------------------ memory
_VEC = {v: np.asarray(v, dtype=np.float32) for v in (E1, E2, E12, Z, NE1)}


def episodes_of(mem, idkind="str"):
    """mem = tuple of prototype indices (insertion order); ids in reverse insertion order.
    idkind "str": the id is stored as the string "e<n>"; idkind "int": the id is STORED as the integer n (a counter /
    row id) - a hit is identified by str(id) everywhere in the observation, so the model names it "<n>"."""
    n = len(mem)
    out = []
    for pos, pi in enumerate(mem):
        owner, age, cluster, imp, vec, text = ALL_PROTOS[pi]
        e = {"id": ("e%d" if idkind == "str" else "%d") % (n - pos), "owner": owner, "age": age, "cluster": cluster,
             "imp": imp, "vec": list(vec), "text": text}
        if idkind != "str":
            e["idtype"] = idkind
        out.append(e)
    return out


def _stored_id(e):
    return int(e["id"]) if e.get("idtype") == "int" else e["id"]


def _vecf(v):
    return [float(x) for x in v]


def _iso(age):
    """the same instant, written in a zone that depends on the age class: timestamps are ISO 8601 with an offset, and the
    recency window is defined on instants (30 d = window boundary is written in -05:00, 1 d and the sub-day ages in
    +09:00 - there the local calendar day differs from the UTC one -, the rest in Z)"""
    t = NOW - _dt.timedelta(days=age)
    if age == 30:
        return t.astimezone(_dt.timezone(_dt.timedelta(hours=-5))).isoformat()
    if age == 1 or age != int(age):
        return t.astimezone(_dt.timezone(_dt.timedelta(hours=9))).isoformat()
    return t.isoformat().replace("+00:00", "Z")


def build_state(eps, hybrid):
    store = InMemoryGraphStore()
    store.upsert_nodes("g1", [Node(id=i, label=l, attrs={}) for i, l in NODES])
    idx = InMemoryIndex()
    int_ids = any(e.get("idtype") == "int" for e in eps)
    for e in eps:
        d = {"id": _stored_id(e), "owner": e["owner"], "text": e["text"],
             "vec_full": np.array(_vecf(e["vec"]), dtype=np.float32)}
        if e["age"] is not None:
            d["ts"] = _iso(e["age"])
        aux = {}
        if e["cluster"]:
            aux["cluster_id"] = e["cluster"]
        if e["imp"] is not None:
            aux["importance"] = e["imp"]
        if aux:
            d["aux"] = aux
        idx.add(d)
    state = {"store": store, "active_graphs": ["g1"], "mem_index": idx, "version_etag": "0"}
    if hybrid is not None:
        edges = {}
        nodes = {}
        for a, b, w in GEL_SETS[hybrid]:
            if int_ids:
                a, b = a[1:], b[1:]  # the GEL names an episode by str(id)
            a, b = (a, b) if a <= b else (b, a)
            key = "%s%s%s" % (a, ARROW, b)
            edges[key] = {"id": key, "src": a, "dst": b, "rel": "coact", "weight": w, "updated_at": None, "attrs": {}}
            nodes[a] = {"id": a}
            nodes[b] = {"id": b}
        state["graph"] = {"nodes": nodes, "edges": edges,
                          "meta": {"schema": "v1.1", "merges": [], "splits": [], "promotions": [],
                                   "concept_nodes_count": 0, "edges_count": len(edges)}}
    return state


class _T1:
    graph_deltas: list = []


def execute(eps, q, s, variant=None):
    """one execution of the real stage; returns a JSON-able observation.
    variant "parallel": the shard fan-out path (2 workers); variant "warm-cache": stage cache ON and the same query was
    asked just before by another agent on the same state (nothing reset in between)."""
    W.reset_globals()
    _pin_clock()
    state = build_state(eps, s["hybrid"])
    cfg = cfg_for(s, variant)
    ctx = types.SimpleNamespace(turn_id=1, agent_id=s["scope"][1], enc=W.ENC, now=NOW_ISO, now_ms=W.NOW_MS,
                                cfg=cfg, config=cfg)
    if s["slice"] is not None:
        ctx.slice_budgets = {"t2_k": s["slice"]}
    try:
        if variant == "warm-cache":
            other = "B" if s["scope"][1] != "B" else "A"
            ctx0 = types.SimpleNamespace(turn_id=1, agent_id=other, enc=W.ENC, now=NOW_ISO, now_ms=W.NOW_MS, cfg=cfg, config=cfg)
            if s["slice"] is not None:
                ctx0.slice_budgets = {"t2_k": s["slice"]}
            t2core.t2_semantic(ctx0, state, q, _T1())
        r = t2core.t2_semantic(ctx, state, q, _T1())
    except Exception as e:  # the stage must be total on this domain
        return {"exc": "%s: %s" % (type(e).__name__, e)}
    ids = [str(getattr(x, "id", None)) for x in r.retrieved]
    res = []
    for d in r.graph_deltas_residual:
        res.append((d.get("op"), d.get("id")) if isinstance(d, dict) else (None, repr(d)))
    m = r.metrics if isinstance(r.metrics, dict) else {}
    return {"ids": ids, "res": res, "k_used": m.get("k_used")}


# ------------------------------------------------------------------ reference model
def cosine(a, b):
    na = math.sqrt(sum(x * x for x in a))
    nb = math.sqrt(sum(x * x for x in b))
    if na == 0.0 or nb == 0.0:
        return 0.0  # convention of the index: a zero vector has similarity 0 with everything
    return sum(x * y for x, y in zip(a, b)) / (na * nb)


def undefined_vec(v):
    """the similarity of a stored vector with a NaN / infinite component is not defined"""
    return any(not math.isfinite(float(x)) for x in v)


def sanitised(v):
    """the most benevolent reading of a degenerate vector: NaN -> 0; with an infinite component the limit direction"""
    f = _vecf(v)
    if any(math.isinf(x) for x in f):
        return [(1.0 if x > 0 else -1.0) if math.isinf(x) else 0.0 for x in f]
    return [0.0 if math.isnan(x) else x for x in f]


def scope_owner(s):
    sc, agent = s["scope"]
    if sc == "agent":
        return agent
    if sc == "world":
        return "world"
    return None


def _clamp01(x):
    return max(0.0, min(1.0, x))


def score_terms(e, cos, rank):
    a, b, g = rank
    cn = (cos + 1.0) / 2.0
    rec = 0.0 if e["age"] is None else _clamp01(1.0 - e["age"] / 365.0)  # unknown age counts as old
    imp = _clamp01(0.5 if e["imp"] is None else float(e["imp"]))
    return (a * cn, b * rec, g * imp)


def _cluster_key(e):
    return e["cluster"] if e["cluster"] else ("single", e["id"])


def cluster_choices(vis, qv, m, undef=frozenset()):
    """returns (list of acceptable chosen-cluster sets, set of clusters that can be chosen at all)"""
    by = {}
    for e in vis:
        by.setdefault(_cluster_key(e), []).append(e)
    if any(e["id"] in undef for e in vis):
        # a visible episode without a defined similarity: the centroid of its cluster is undefined as well, and the
        # statement does not say where such a cluster ranks (nor whether it takes one of the m places) -> any choice
        # of at most m clusters is accepted
        if m <= 0:
            return [frozenset()], set()
        top = min(m, len(by))
        outs = [frozenset(c) for r in range(0, top + 1) for c in itertools.combinations(sorted(by, key=str), r)]
        return outs, set(by)
    sc = {}
    for c, items in by.items():
        n = len(items)
        cen = [sum(it["vec"][i] for it in items) / n for i in range(len(qv))]
        sc[c] = cosine(qv, cen)
    cl = sorted(by, key=lambda c: (-sc[c], str(c)))
    if m <= 0:
        return [frozenset()], set()
    if len(cl) <= m:
        return [frozenset(cl)], set(cl)
    bound = sc[cl[m - 1]]
    sure = [c for c in cl if sc[c] > bound + 1e-6]
    maybe = [c for c in cl if abs(sc[c] - bound) <= 1e-6]
    need = m - len(sure)
    outs = [frozenset(sure) | frozenset(cmb) for cmb in itertools.combinations(maybe, need)]
    return outs, set(sure) | set(maybe)


def in_window(e, rd, nots_in, rd0_off):
    if rd == 0 and rd0_off:
        return True
    if e["age"] is None:
        return nots_in
    return e["age"] <= rd


def walk(vis, cos, s, nots_in, rd0_off, chosen, hyp=None, undef=frozenset(), undef_in=False):
    k, thr = s["k"], s["thr"]
    out, seen = [], set()
    if undef and not undef_in:
        vis = [e for e in vis if e["id"] not in undef]
    rd = s["rd"] - 1 if (hyp == "window-exclusive" and s["rd"] > 0) else s["rd"]
    for t in s["tiers"]:
        if t == "E":
            pool = [e for e in vis if in_window(e, rd, nots_in, rd0_off)]
        elif t == "C":
            pool = [e for e in vis if _cluster_key(e) in chosen]
        else:
            pool = list(vis)
        if hyp == "threshold-strict":
            cand = [e for e in pool if cos[e["id"]] > thr + TOL]
        else:
            cand = [e for e in pool if cos[e["id"]] >= thr - TOL]
        cand.sort(key=lambda e: (-round(cos[e["id"]], 9), e["id"]))
        for e in cand[:k]:
            if e["id"] in seen:
                continue
            out.append(e["id"])
            seen.add(e["id"])
            if len(out) >= k:
                return out
    return out


def reference(eps, q, s, hyp=None):
    """hyp=None: the reference model.  hyp in {"threshold-strict", "window-exclusive"}: the model with one
    hypothesised boundary slip, used only to give a mismatch a telling signature."""
    qv = QVEC[q]
    owner = scope_owner(s)
    vis = [e for e in eps if owner is None or e["owner"] == owner]
    undef = frozenset(e["id"] for e in eps if undefined_vec(e["vec"]))
    # for an episode in `undef` this is the cosine of the sanitised vector (used only to bound what is tolerated)
    cos = {e["id"]: cosine(qv, sanitised(e["vec"]) if e["id"] in undef else e["vec"]) for e in eps}
    und_opts = [False, True] if any(e["id"] in undef for e in vis) else [False]
    has_e, has_c = "E" in s["tiers"], "C" in s["tiers"]
    nots_opts = [True, False] if (has_e and any(e["age"] is None for e in vis)) else [True]
    rd0_opts = [True, False] if (has_e and s["rd"] == 0) else [True]
    if has_c:
        combos, can = cluster_choices(vis, qv, s["tm"], undef)
    else:
        combos, can = [frozenset()], set()
    sets = []
    for ni in nots_opts:
        for r0 in rd0_opts:
            for ch in combos:
                for ui in und_opts:
                    ids = frozenset(walk(vis, cos, s, ni, r0, ch, hyp, undef, ui))
                    if ids not in sets:
                        sets.append(ids)
    return {"vis": vis, "cos": cos, "sets": sets, "cluster_can": can, "undef": undef}


# ------------------------------------------------------------------ oracle
def _fmt_eps(eps):
    return "[" + "; ".join("%s:%s age=%s cl=%s imp=%s v=%s %r" % (e["id"], e["owner"], e["age"], e["cluster"], e["imp"],
                                                                   "".join(str(x) for x in e["vec"][:2]), e["text"])
                           for e in eps) + "]"


def _fmt_s(s):
    return ",".join("%s=%s" % (d, s[d]) for d in DIM_NAMES if s[d] != BASE[d]) or "default"


def rerank_chain(s):
    """settings with the rerank layers peeled off one at a time: [(layer, with, without)]"""
    out = []
    cur = dict(s)
    if cur["quality"] is not None and QUALITY[cur["quality"]][1] is not None:
        alpha = QUALITY[cur["quality"]][0]
        fus = [n for n, (a, m) in QUALITY.items() if m is None and a == alpha][0]
        nxt = dict(cur)
        nxt["quality"] = fus
        out.append(("mmr", cur, nxt))
        cur = nxt
    if cur["quality"] is not None:
        nxt = dict(cur)
        nxt["quality"] = None
        out.append(("fusion", cur, nxt))
        cur = nxt
    if cur["hybrid"] is not None:
        nxt = dict(cur)
        nxt["hybrid"] = None
        out.append(("hybrid", cur, nxt))
    return out


def check(eps, q, s, getres, info=None):
    """returns list of (sig, what); getres(setting) -> observation of the real stage.
    info (optional dict) receives clause-coverage facts."""
    out = []
    where = "mem=%s q=%r setting{%s}" % (_fmt_eps(eps), q, _fmt_s(s))
    obs = getres(s)
    if "exc" in obs:
        return [("raises:" + obs["exc"].split(":")[0], "t2_semantic raised %s; %s" % (obs["exc"], where))]
    ids = obs["ids"]
    ref = reference(eps, q, s)
    by_id = {e["id"]: e for e in eps}
    cos = ref["cos"]
    undef = ref["undef"]
    owner = scope_owner(s)
    k, thr = s["k"], s["thr"]
    rerank_on = s["hybrid"] is not None or s["quality"] is not None

    # ---- envelope
    if len(set(ids)) != len(ids):
        out.append(("distinct:duplicate-id", "retrieved ids %s contain a duplicate; %s" % (ids, where)))
    unknown = [i for i in ids if i not in by_id]
    if unknown:
        out.append(("member:unknown-id", "retrieved ids %s not in memory; %s" % (unknown, where)))
        return out
    if len(ids) > k:
        out.append(("cap:more-than-k", "%d hits returned with k=%d: %s; %s" % (len(ids), k, ids, where)))
    foreign = [i for i in ids if owner is not None and by_id[i]["owner"] != owner]
    if foreign:
        out.append(("scope:%s:foreign-owner" % s["scope"][0],
                    "hits %s belong to %s but scope=%s agent=%s admits only owner %r; %s" % (
                        foreign, [by_id[i]["owner"] for i in foreign], s["scope"][0], s["scope"][1], owner, where)))
    below = [i for i in ids if i not in undef and not (cos[i] >= thr - 1e-6)]
    if below:
        out.append(("threshold:below", "hits %s have cosine %s < sim_threshold %s; %s" % (
            below, [round(cos[i], 6) for i in below], thr, where)))
    no_sim = [i for i in ids if i in undef and not (cos[i] >= thr - 1e-6)]
    if no_sim:
        out.append(("threshold:undefined-similarity",
                    "hits %s have stored vectors %s with a non-finite component: their cosine with the query is undefined "
                    "and meets no threshold (even with NaN read as 0 / inf as the limit direction it would be %s < "
                    "sim_threshold %s); %s" % (no_sim, [by_id[i]["vec"] for i in no_sim],
                                               [round(cos[i], 6) for i in no_sim], thr, where)))
    # tier admission (window clause asserted for timestamped episodes only)
    not_adm = []
    for i in ids:
        e = by_id[i]
        ok = False
        for t in s["tiers"]:
            if t == "A":
                ok = True
            elif t == "E":
                ok = ok or e["age"] is None or s["rd"] == 0 or e["age"] <= s["rd"]
            elif t == "C":
                ok = ok or _cluster_key(e) in ref["cluster_can"]
        if not ok:
            not_adm.append(i)
    if not_adm:
        kinds = "+".join(t for t in "EC" if t in s["tiers"])
        out.append(("tier:not-admitted:%s" % kinds,
                    "hits %s are admitted by none of the tiers %s (ages %s, exact_recent_days=%s, clusters_top_m=%s); %s" % (
                        not_adm, s["tiers"], [by_id[i]["age"] for i in not_adm], s["rd"], s["tm"], where)))

    # ---- reference set (with a rerank layer on, the multiset is compared with the layer-off run below, and
    #      the layer-off setting is itself an enumerated input compared with the model)
    got = frozenset(ids)
    if not out and not rerank_on and got not in ref["sets"]:
        prim = ref["sets"][0]
        missing = sorted(prim - got)
        extra = sorted(got - prim)
        if got in reference(eps, q, s, "threshold-strict")["sets"]:
            sig = "threshold:boundary-excluded"
        elif "E" in s["tiers"] and got in reference(eps, q, s, "window-exclusive")["sets"]:
            sig = "window:boundary-excluded"
        elif missing:
            sig = "select:missing" + ("" if owner is None else ":scope=%s" % s["scope"][0])
        else:
            sig = "select:extra"
        out.append((sig, "retrieved id set %s, reference model admits %s (missing %s, extra %s; cos %s); %s" % (
            sorted(got), [sorted(x) for x in ref["sets"]], missing, extra,
            {i: round(cos[i], 4) for i in sorted(by_id)}, where)))

    # ---- order (only without rerank layers)
    near = 0
    tie_seen = False
    if not rerank_on:
        terms = {i: score_terms(by_id[i], cos[i], s["rank"]) for i in ids}
        tot = {i: sum(terms[i]) for i in ids}
        for a in range(len(ids)):
            for b in range(a + 1, len(ids)):
                ia, ib = ids[a], ids[b]
                if ia in undef or ib in undef:
                    continue  # no defined score, no defined place
                if tot[ib] > tot[ia] + TOL:
                    out.append(("order:score", "%s (score %.6f) is ranked before %s (score %.6f); %s" % (
                        ia, tot[ia], ib, tot[ib], where)))
                elif abs(tot[ia] - tot[ib]) <= TOL:
                    if all(abs(x - y) == 0.0 for x, y in zip(terms[ia], terms[ib])):
                        tie_seen = True
                        if ib < ia:
                            out.append(("order:id-tie-break", "%s and %s have identical scores %.6f but %s comes first; %s" % (
                                ia, ib, tot[ia], ia, where)))
                    else:
                        near += 1
    # ---- rerank layers only permute
    reordered = False
    for layer, s_on, s_off in rerank_chain(s):
        o_on, o_off = getres(s_on), getres(s_off)
        if "exc" in o_on or "exc" in o_off:
            continue  # reported where it is the enumerated setting
        if sorted(o_on["ids"]) != sorted(o_off["ids"]):
            out.append(("rerank:%s:ids-changed" % layer,
                        "ids with %s on %s vs off %s; %s" % (layer, o_on["ids"], o_off["ids"], where)))
        elif o_on["ids"] != o_off["ids"]:
            reordered = True

    # ---- residual
    cap = s["slice"]
    used = ids if cap is None else ids[:max(0, cap)]
    if cap is not None and obs.get("k_used") is not None and obs["k_used"] > max(0, cap):
        out.append(("slice:used-over-cap", "k_used=%s with slice cap t2_k=%s; %s" % (obs["k_used"], cap, where)))
    node_label = {i: l for i, l in NODES}
    texts = [(by_id[i]["text"] or "").lower() for i in used if i in by_id]
    res_ids = [rid for _, rid in obs["res"]]
    bad_unknown = [r for r in res_ids if r not in node_label]
    bad_label = [r for r in res_ids if r in node_label and not any(node_label[r].lower() in t for t in texts)]
    if bad_unknown:
        out.append(("residual:unknown-node", "residual nudges %s refer to no node of the store; %s" % (bad_unknown, where)))
    if bad_label:
        all_texts = [(by_id[i]["text"] or "").lower() for i in ids if i in by_id]
        in_unused = [r for r in bad_label if any(node_label[r].lower() in t for t in all_texts)]
        sig = "residual:label-from-unused-hit" if len(in_unused) == len(bad_label) else "residual:label-not-in-hits"
        out.append((sig, "residual nudges %s (labels %s) do not occur in the used hits %s (texts %s; retrieved %s, slice cap %s); %s" % (
            bad_label, [node_label[r] for r in bad_label], used, texts, ids, cap, where)))
    if len(res_ids) > s["rescap"]:
        out.append(("residual:over-cap:cap=%s" % ("0" if s["rescap"] == 0 else "n"),
                    "%d residual nudges %s with residual_cap_per_turn=%d; %s" % (len(res_ids), res_ids, s["rescap"], where)))
    if len(set(res_ids)) != len(res_ids):
        out.append(("residual:duplicate", "residual nudges %s repeat a node; %s" % (res_ids, where)))

    if info is not None:
        vis_ids = {e["id"] for e in ref["vis"]}
        info["n_ret"] = len(ids)
        info["n_res"] = len(res_ids)
        info["scope_excl"] = len(eps) - len(vis_ids)
        info["thr_excl"] = sum(1 for e in ref["vis"] if cos[e["id"]] < thr - TOL)
        info["k_cut"] = len(ids) == k and len([e for e in ref["vis"] if cos[e["id"]] >= thr - TOL]) > k
        info["tier_excl"] = sum(1 for e in ref["vis"] if cos[e["id"]] >= thr - TOL and e["id"] not in got) > 0 and not info["k_cut"]
        info["tie"] = tie_seen
        info["near"] = near
        info["ambiguous"] = len(ref["sets"]) > 1
        info["reordered"] = reordered
        info["slice_cut"] = cap is not None and len(ids) > len(used)
        info["res_cut"] = len(res_ids) >= s["rescap"] and len(res_ids) > 0
        info["thr_boundary"] = any(abs(cos[i] - thr) <= TOL for i in ids)
        info["win_boundary"] = "E" in s["tiers"] and any(by_id[i]["age"] == s["rd"] for i in ids)
        info["win_subday"] = ("E" in s["tiers"] and s["rd"] > 0 and
                              any(e["age"] is not None and s["rd"] < e["age"] < s["rd"] + 1 and e["id"] not in got
                                  and e["id"] not in undef and cos[e["id"]] >= thr - TOL for e in ref["vis"]))
        info["undef_excl"] = any(e["id"] in undef and e["id"] not in got for e in ref["vis"])
        info["undef_in"] = any(i in undef for i in ids)
    return out


# ------------------------------------------------------------------ enumeration
def memories(max_n):
    out = []
    for n in range(0, max_n + 1):
        out.extend(itertools.combinations_with_replacement(range(len(PROTOS)), n))
    return out


ALL_VARIANTS = ("parallel", "warm-cache")
# the settings a shard receives from the fan-out (the rest is applied after the merge)
SHARD_DIMS = ("k", "thr", "tiers", "rd", "tm", "scope")


def _pair_on_shard_path(s, thorough):
    """2-deviation settings tried on the shard path: thorough all, quick those whose deviations are both shard inputs"""
    return thorough or all(s[d] == BASE[d] for d in DIM_NAMES if d not in SHARD_DIMS)


def _worker(chunk, st: Stats, plan, xvariants):
    """chunk: list of (mem tuple, maxdev, idkind); xvariants: the other execution paths tried for memories of the
    degenerate-vector leg (ordinary memories: all of ALL_VARIANTS)"""
    _quiet_numpy()
    setts = {d: list(settings(d)) for d in sorted({d for _, d, _k in chunk})}
    for mem, maxdev, idkind in chunk:
        eps = episodes_of(mem, idkind)
        variants = xvariants if any(pi in X_INDEX for pi in mem) else ALL_VARIANTS
        for q in QUERIES:
            memo = {}

            def getres(s, _eps=eps, _q=q, _memo=memo):
                key = skey(s)
                r = _memo.get(key)
                if r is None:
                    r = execute(_eps, _q, s)
                    _memo[key] = r
                    st.add("transitions")
                return r

            for s in setts[maxdev]:
                st.add("states")
                info = {}
                res = check(eps, q, s, getres, info)
                st.add("validated")
                case = {"episodes": eps, "query": q, "setting": s_json(s)}
                if not res and len(eps) >= 1 and variants and (n_dev(s) <= 1 or (len(eps) == 2 and _pair_on_shard_path(s, plan[0][1] == 2))):
                    # the same input through the other execution paths of the stage must give the same answer
                    # (<=1 deviation: every path; 2 deviations: the shard path on the 2-episode memories - a setting
                    # that reaches a shard only together with a second one, e.g. the window with the tier list)
                    plain = getres(s)
                    tried = []
                    for variant in variants:
                        if variant == "parallel" and len(eps) < 2:
                            continue
                        if n_dev(s) > 1 and variant != "parallel":
                            continue
                        tried.append(variant)
                        got = execute(eps, q, s, variant)
                        st.add("transitions")
                        st.add("variant_executions")
                        if got != plain:
                            res.append(("variant:%s:differs-from-plain:scope=%s" % (variant, s["scope"][0]),
                                        "t2_semantic via %s path returned %s, plain sequential cache-off path %s; mem=%s q=%r setting{%s}" % (
                                            variant, W.jd(got), W.jd(plain), _fmt_eps(eps), q, _fmt_s(s))))
                    case["variants"] = tried
                for sig, what in res:
                    st.violation(sig, what, case)
                if res:
                    st.add("failing_inputs")
                    st.distinct("outcomes", ("fail", res[0][0]))
                else:
                    st.distinct("outcomes", ("ok", info.get("n_ret"), info.get("n_res"), info.get("scope_excl", 0) > 0,
                                             info.get("thr_excl", 0) > 0, bool(info.get("k_cut")), bool(info.get("tie")),
                                             bool(info.get("reordered")), bool(info.get("slice_cut"))))
                if info:
                    if (info["n_ret"] >= 2) or (len(eps) > info["n_ret"] and len(eps) > 0):
                        st.add("nontrivial")
                    for kname in ("k_cut", "tier_excl", "tie", "ambiguous", "reordered", "slice_cut", "res_cut",
                                  "thr_boundary", "win_boundary", "win_subday", "undef_excl", "undef_in"):
                        if info.get(kname):
                            st.add("clause_" + kname)
                    if info.get("scope_excl"):
                        st.add("clause_scope_excl")
                    if info.get("thr_excl"):
                        st.add("clause_thr_excl")
                    if info.get("near"):
                        st.add("near_ties_order_not_asserted", info["near"])
                    if info["n_ret"] >= 2 and len(st.samples) < 2 and n_dev(s) == 2:
                        st.sample({"episodes": eps, "query": q, "setting": s_json(s),
                                   "retrieved": getres(s).get("ids"), "residual": [r for _, r in getres(s).get("res", [])]})
            if len(memo) > len(setts[maxdev]):
                raise HarnessError("rerank baseline outside the enumerated settings (%d > %d)" % (len(memo), len(setts[maxdev])))


def run(run: Run) -> None:
    _pin_clock()
    if run.thorough:
        plan = [(3, 2), (4, 1)]
    else:
        plan = [(3, 1), (2, 2)]
    # validate every config once in the parent (workers inherit them by fork)
    maxdev_all = max(d for _, d in plan)
    all_s = list(settings(maxdev_all))
    for s in all_s:
        cfg_for(s)
        cfg_for(s, "parallel")
        if n_dev(s) <= 1:
            cfg_for(s, "warm-cache")
    cfg_digest0 = W.jd({repr(k): v for k, v in _CFG.items()})
    # harness determinism: the same execution twice must give the same observation
    probe_eps = episodes_of((0, 1, 5))
    for s in all_s[:60]:
        a = execute(probe_eps, "apple pear", s)
        b = execute(probe_eps, "apple pear", s)
        if a != b:
            raise HarnessError("harness nondeterministic for setting %s: %r vs %r" % (_fmt_s(s), a, b))
    items = []
    seen = set()
    # larger deviation budgets first on the smaller memories; a memory appears once with its largest budget
    budget = {}
    for n, d in plan:
        for mem in memories(n):
            budget[mem] = max(budget.get(mem, 0), d)
    # degenerate-vector leg: one episode with a non-finite vector + every ordinary memory of the given size
    if run.thorough:
        xplan = [(2, 1, ("first", "last")), (1, 2, ("first", "last"))]
    else:
        xplan = [(2, 1, ("first",))]
    n_x = 0
    for n, d, places in xplan:
        for base in memories(n):
            for x in X_INDEX:
                for place in places:
                    mem = ((x,) + base) if place == "first" else (base + (x,))
                    if budget.get(mem, 0) < d:
                        n_x += mem not in budget
                        budget[mem] = d
    for mem in sorted(budget, key=lambda m: (len(m), m)):
        items.append((mem, budget[mem], "str"))
    # id-type leg: the same memories with the ids STORED as integers (a hit is named by str(id) throughout)
    iplan = (3, 1) if run.thorough else (2, 1)
    n_i = 0
    for mem in memories(iplan[0]):
        if len(mem) >= 1:
            items.append((mem, iplan[1], "int"))
            n_i += 1
    run.notes["memories_with_integer_ids"] = n_i
    run.notes["iplan"] = "memories<=%d (ids stored as int) x deviations<=%d" % iplan
    # heavy items first for balance
    items.sort(key=lambda it: (-it[1], -len(it[0]), it[0]))
    run.notes["memories"] = len(items)
    run.notes["memories_with_degenerate_vector"] = n_x
    run.notes["xplan"] = ["%d ordinary + 1 degenerate (%s) x deviations<=%d" % (n, "/".join(pl), d) for n, d, pl in xplan]
    run.notes["settings_le1"] = len(list(settings(1)))
    run.notes["settings_le2"] = len(list(settings(2)))
    run.notes["plan"] = ["memories<=%d x deviations<=%d" % (n, d) for n, d in plan]
    xvariants = ("parallel",) if run.thorough else ()
    run.notes["xplan_variants"] = list(xvariants)
    run.pmap(_worker, items, extra=(plan, xvariants), chunks=min(len(items), 16 * 12))
    if W.jd({repr(k): v for k, v in _CFG.items()}) != cfg_digest0:
        raise HarnessError("a shared config object was mutated during the run")
    run.rule = ("every multiset of <=N episodes over %d prototypes (ages 1 d, 30 d = window boundary, 30 d 6 h = sub-day "
                "past the boundary, 31 d, none) x 2 queries x every setting with <=D deviations over "
                "%d dimensions (%s); plan %s; plus the degenerate-vector leg: one of %d episodes whose stored vector has a "
                "NaN / +inf / -inf component together with every ordinary memory, plan %s; plus the id-type leg: the "
                "ordinary memories with the episode ids stored as integers instead of strings, plan %s; states = (memory, query, "
                "setting) inputs, transitions = executions of the "
                "real t2_semantic, validated = outcomes compared with the reference model + envelope; non-trivial = "
                ">=2 hits returned or >=1 stored episode not returned"
                % (len(PROTOS), len(DIMS), ", ".join("%s:%d" % (d, len(v)) for d, v in DIMS), run.notes["plan"],
                   len(PROTOS_X), run.notes["xplan"], run.notes["iplan"]))
    run.assume("the reference model is compared on the sequential, cache-off path; for every input with <=1 deviation the "
               "parallel shard path (2 workers) and the cache-on path after the same query by another agent must return the "
               "same observation as that path, and so must the parallel shard path for every input with 2 deviations on a "
               "2-episode memory (%s) (full exploration of those paths is C09's and C05's; memories of the "
               "degenerate-vector leg: %s); embed-store reader and LanceDB backend are outside this check"
               % ("all pairs" if run.thorough else "quick: pairs over the settings handed to a shard - " + ", ".join(SHARD_DIMS),
                  "parallel path only" if xvariants else "sequential path only in this tier"))
    run.assume("a zero vector has cosine 0 with every query (the index's convention); cosines of the alphabet are "
               "exactly -1, -0.7071, 0, 0.7071 or 1, thresholds hit only the exact values -1 and 0")
    run.assume("episode without timestamp: inside or outside the exact-tier window are both accepted (the statement is "
               "silent, the tree answers with the wall clock - C01); datetime.now inside clematis.memory.index is pinned "
               "to the logical now; in the ranking law its recency term is 0 ('unknown = old')")
    run.assume("the logical now is a UTC midnight, so the rolling window (now - N days, docs/m3) and a window counted in UTC "
               "calendar days coincide; episode ages inside one day past the boundary (30 d 6 h) must be outside either way")
    run.assume("a stored vector with a NaN / infinite component has no defined cosine: the episode meets no threshold and "
               "is expected to be left out; returning it is tolerated only where the vector read with NaN = 0 / +-inf = "
               "limit direction meets the threshold; it takes part in no order assertion, and with such an episode "
               "visible any choice of <= m clusters is accepted for the cluster tier (its centroid is undefined); finite "
               "vectors that overflow float32 when normalised are outside the alphabet")
    run.assume("exact_recent_days=0 is accepted as 'window off' or as 'age<=0 only'; ties between cluster centroids at "
               "the top-m cut may be resolved either way; the tie-break among clusters is not part of the statement")
    run.assume("episode ids are strings, or (id-type leg) integers 1..N that the stage names by str(id); the same clauses "
               "and the same reference model apply to both; other id types (UUID objects, ...) are outside the alphabet")
    run.assume("T1 produced no deltas (query text = user text); agent_id is always present on the context")
    run.assume("order clause is asserted on settings without rerank layers (the layers are free to permute); with a layer "
               "on, the id multiset is compared with the same setting with that layer off")


def replay(case):
    _pin_clock()
    _quiet_numpy()
    eps = case["episodes"]
    s = s_from_json(case["setting"])
    memo = {}

    def getres(x):
        key = skey(x)
        if key not in memo:
            memo[key] = execute(eps, case["query"], x)
        return memo[key]

    res = check(eps, case["query"], s, getres)
    if not res and case.get("variants"):
        plain = getres(s)
        for variant in (ALL_VARIANTS if case["variants"] is True else tuple(case["variants"])):
            if variant == "parallel" and len(eps) < 2:
                continue
            got = execute(eps, case["query"], s, variant)
            if got != plain:
                res.append(("variant:%s:differs-from-plain:scope=%s" % (variant, s["scope"][0]), "variant %s: %s vs plain %s" % (variant, W.jd(got), W.jd(plain))))
    return res
