"""C20 -- optional subsystems fail soft: a turn always completes.

Engine E4 (fault enumerator) on the full-turn harness (mc/world.py).

Enumerated: every *declared* fail-soft site (a try/except around the call in the engine, or a docstring /
comment that says "never raises / best effort / must never break the turn") x exception type, singly and
in pairs (one exception type per pair), on the worlds W1 / W2 (fresh process: boot hook runs) / W2b (W2 that
has already booted, GEL graph retained, plus a weakly linked GEL component so that split candidates exist)
x 2-turn sequences, with the gate of every faulted subsystem ON.  A fault is installed by replacing the
attribute the engine really calls at that site (table SITES below) with a callable that raises; snapshot-boot
garbage is installed as real files in the snapshot directory before the first turn.  Two kinds of files: whole-file
garbage (GARBAGE: nothing in it parses) and partially corrupt snapshots (`_partial_sites`: a snapshot-shaped object in
which one section the loader consumes - store.weights, gel.edges - is valid up to its k-th entry and corrupt there,
k = 0..n, bare or embedded in a complete snapshot body; for gel.edges also a well-formed record in which ONE field other than the
weight - attrs, updated_at, src, rel, id - holds a JSON value of the wrong kind, baseline in addition: that field at its default; and a
snapshot whose scalar header field version_etag - copied unparsed by the loader and parsed later by the apply stage - holds a value that is
not integer text: text classes around the decimal-integer grammar incl. characters that are digits but not decimal digits, or a JSON value of
the wrong kind; baselines in addition: the field absent / at a valid value).  The fresh-boot world W2 starts with live store weights, W1
with an empty weight map, so a load that fails half way and has already touched the live world is visible in apply.jsonl.

Exception alphabet = class x INSTANCE SHAPE (text argument / no arguments at all, i.e. a bare `raise X` / one non-text
argument / two arguments): a guard that inspects the exception it caught must survive every shape (tokens "X", "X()",
"X(7)", "X(m,d)").

Data-induced failures (sites live:gel.edges@...): besides raising at the call boundary an optional layer can fail on what
it READS.  The hybrid rerank reads the live GEL graph; with GEL maintenance off no mandatory stage reads it.  The corrupt
entries of the snapshot alphabet (weight not a number, record not a mapping, section not a mapping) are placed directly in
state['graph'] of a booted world, one edge at a time, with t2.hybrid on and graph.enabled off.  Judged only if the same
world completes with the layer switched off (precondition); baselines: layer off / rerank identity / corrupt entries absent /
corrupt weight read as 0.0 / empty section.

Failure POSITION inside a declared region (a region is more than its call): besides raising at the call boundary, the callable
of every typed site also fails by handing back an unusable result (result tokens "=None" / "=object": the exception then arises
where the engine consumes the result - int(), len(), iteration, unpacking, attribute access), and the region fails while reading
its own inputs: sites cfg:<subsystem>@<parameter>=<kind> put an unusable JSON value (null / text / list for numbers, null / number
for lists) into a numeric or list parameter of the optional subsystem's configuration AFTER validation (a context built without
configs.validate), in the fault run and its baselines alike.  Judged only if the run with that subsystem's gate closed under the
same configuration completes; baselines: gate closed / subsystem idle / parameter at its validated value / parameter absent.

Oracle (per execution):
  (1) every run_turn call returns a TurnResult (nothing escapes);
  (2) the bytes of t1.jsonl / t2.jsonl / t4.jsonl / apply.jsonl / turn.jsonl equal those of AT LEAST ONE
      admissible baseline run of the same world / sequence in which the faulted subsystem is switched off (config
      gate closed, or the optional callable absent) or idle (the callable replaced by a do-nothing stub).  For a
      pair the admissible baselines are the products of the two sites' baselines.  The list of admissible baselines
      per site is the table `modes` of that site; it deliberately contains every reasonable reading of
      "off or idle" so that no correct implementation is rejected (e.g. for store apply errors the baseline is a
      store that applies nothing, for a telemetry-only failure the baseline is the undisturbed run; for a partially
      corrupt snapshot the failing unit is idle at file, section or entry granularity: empty directory / loader off /
      the same file without the corrupt section / the same file without the corrupt entries).

`gel_observe` / `gel_tick`, the main snapshot write, the stage functions and the log writers are NOT declared
fail-soft and are never injected.
"""
from __future__ import annotations

import contextlib
import errno
import io
import itertools
import json
import logging
import os
import shutil
import sys
import tempfile
import traceback
from typing import Any, Callable, Dict, List, Optional, Sequence, Tuple

from mc.runner import HarnessError, Run, Stats
from mc import world as W

import clematis.engine.orchestrator as orch_pkg
from clematis.engine.orchestrator import core as orch_core
from clematis.engine.orchestrator import logging as orch_logging
from clematis.engine.orchestrator import reflection as orch_reflection
from clematis.engine.orchestrator.types import TurnResult
from clematis.engine import snapshot as snap_mod
from clematis.engine import cache as cache_mod
from clematis.engine.stages.t2 import quality as quality_mod
from clematis.engine.stages.t2 import quality_ops as quality_ops_mod
from clematis.engine.stages.t2 import quality_trace as quality_trace_mod
from clematis.engine.stages import t3 as t3_pkg
from clematis.engine.types import Plan, ProposedDelta
from clematis.graph.store import InMemoryGraphStore

import clematis.engine.stages.t3.reflect  # noqa: F401  (make sure the *module* is in sys.modules)

reflect_mod = sys.modules["clematis.engine.stages.t3.reflect"]  # the package attribute `reflect` is the function

CANON = ("t1.jsonl", "t2.jsonl", "t4.jsonl", "apply.jsonl", "turn.jsonl")
_MISSING = object()


# ----------------------------------------------------------------------------- seam assertions
def _assert_seams() -> None:
    need = [
        (orch_core, ["load_latest_snapshot", "gel_merge_candidates", "gel_apply_merge", "gel_split_candidates",
                     "gel_apply_split", "gel_promote_clusters", "gel_apply_promotion", "_run_reflection_if_enabled",
                     "log_t3_reflection", "build_llm_adapter", "emit_trace", "reflect", "run_turn"]),
        (orch_logging, ["append_jsonl", "log_t3_reflection"]),
        (orch_reflection, ["write_reflection_entries"]),
        (snap_mod, ["atomic_write_text", "_write_sidecar_meta", "_deterministic_created_at", "load_latest_snapshot",
                    "_pick_latest_snapshot_path"]),
        (cache_mod.CacheManager, ["invalidate_namespace"]),
        (quality_mod, ["rerank_with_gel", "_emit_quality_trace", "_quality_cfg_snapshot", "apply_quality"]),
        (quality_ops_mod, ["fuse", "maybe_apply_mmr"]),
        (quality_trace_mod, ["_derive_trace_dir", "emit_trace"]),
        (reflect_mod, ["reflect", "ReflectionResult"]),
    ]
    for obj, names in need:
        for n in names:
            if not hasattr(obj, n):
                raise HarnessError("seam missing: %s.%s" % (getattr(obj, "__name__", obj), n))
    if getattr(orch_pkg, "reflect", None) is not orch_core.reflect:
        raise HarnessError("seam changed: orchestrator package overrides `reflect`")
    if quality_mod._emit_quality_trace is None:
        raise HarnessError("seam missing: quality shadow tracer not importable")


_assert_seams()


# ----------------------------------------------------------------------------- exception alphabet
class C20Fault(Exception):
    """custom Exception subclass (not related to any builtin family)"""


# Exception INSTANCE shapes.  "For all exception types raised there" is a statement about raise sites the engine does not
# control: a subsystem may `raise NotImplementedError` (no arguments at all), `raise KeyError(7)` (what d[7] produces: one
# argument that is not text) or `raise Err("msg", {...})` (several arguments).  A guard that looks INTO the exception it
# caught (exc.args[0], a slice / concatenation of it, tuple unpacking of exc.args) is only fail-soft if it survives all of
# them.  A token of the exception alphabet is  Name + shape suffix:
#   "Name"        one text argument (for OSError-family the usual (errno, text))
#   "Name()"      constructed without arguments (a bare `raise Name`)
#   "Name(7)"     one argument that is not text
#   "Name(m,d)"   two arguments: text and a dict
# UnicodeDecodeError / JSONDecodeError have fixed constructor signatures and exist in the first shape only.
SHAPES = ("", "()", "(7)", "(m,d)")
_FIXED_SIGNATURE = ("UnicodeDecodeError", "JSONDecodeError")


def _exc_class(name: str):
    import builtins
    if name == "C20Fault":
        return C20Fault
    if name == "SnapshotError":
        from clematis.errors import SnapshotError
        return SnapshotError
    if name == "LLMAdapterError":
        from clematis.adapters.llm import LLMAdapterError
        return LLMAdapterError
    if name in EXC_BASE or name in EXC_EXTRA:
        cls = getattr(builtins, name, None)
        if isinstance(cls, type) and issubclass(cls, Exception):
            return cls
    raise HarnessError("unknown exception name %s" % name)


def _split_token(token: str) -> Tuple[str, str]:
    if token in RET_TOKENS:
        raise HarnessError("%s is a result token, not an exception token" % token)
    i = token.find("(")
    name, shape = (token, "") if i < 0 else (token[:i], token[i:])
    if shape not in SHAPES:
        raise HarnessError("unknown exception shape %s" % token)
    return name, shape


def _mk_exc(token: str, site: str) -> BaseException:
    name, shape = _split_token(token)
    msg = "c20 injected at %s" % site
    if name in _FIXED_SIGNATURE:
        if shape:
            raise HarnessError("%s has a fixed constructor signature" % name)
        return UnicodeDecodeError("utf-8", b"\xff", 0, 1, msg) if name == "UnicodeDecodeError" else json.JSONDecodeError(msg, "", 0)
    cls = _exc_class(name)
    if shape == "()":
        return cls()
    if shape == "(7)":
        return cls(7)
    if shape == "(m,d)":
        return cls(msg, {"site": site})
    if name == "OSError":
        return cls(errno.EIO, msg)
    if name == "PermissionError":
        return cls(errno.EACCES, msg)
    return cls(msg)


# Failure POSITION inside a declared fail-soft region.  An exception token makes the optional callable raise AT ITS CALL
# BOUNDARY.  A declared region ("try: n += int(cm.invalidate_namespace(ns)) except Exception: pass  # never fail apply", "try:
# items, meta = rerank_with_gel(..) except ..") is more than the call: it also CONSUMES what the callable hands back.  A subsystem
# can fail without raising - it completes and yields nothing usable (a duck-typed / proxy / half-migrated implementation that
# returns None where a count, a list, a pair or a result object is documented).  The exception then arises at whichever statement
# of the engine first touches the result (int(), len(), iteration, unpacking, attribute access, serialisation).  A result token
# replaces the callable of a typed site by one that does nothing and returns
#   "=None"     no result at all
#   "=object"   an opaque object that supports no protocol (not a number, not iterable, not a mapping, no attributes)
# i.e. exactly the two values on which EVERY consuming operation fails (a value that can be consumed - a wrong count, a wrong
# list - would be a lie of the subsystem, not a failure, and is not enumerated).  Oracle unchanged: the turn completes and the
# canonical records equal an off / idle baseline of that site (where the engine does not look at the result at all the callable
# simply was idle).
class _Unusable:
    """opaque result: supports nothing beyond identity / truth / repr (repr is stable: no address)"""
    __slots__ = ()

    def __repr__(self) -> str:
        return "<c20 unusable result>"


RET_TOKENS = ("=None", "=object")


def _fail(token: str, site: str) -> Any:
    """the failure of an optional callable: raise the exception `token` names, or (result tokens) hand back an unusable result"""
    if token == "=None":
        return None
    if token == "=object":
        return _Unusable()
    raise _mk_exc(token, site)


EXC_BASE = ["ValueError", "KeyError", "RuntimeError", "OSError", "TypeError", "ZeroDivisionError", "C20Fault"]
# thorough-only extras (all are Exception subclasses; BaseException-only types are not "failures inside")
EXC_EXTRA = ["AttributeError", "IndexError", "AssertionError", "StopIteration", "MemoryError", "RecursionError",
             "NotImplementedError", "UnicodeDecodeError", "JSONDecodeError", "PermissionError", "SnapshotError",
             "LLMAdapterError"]


def exc_tokens(thorough: bool, shaped: bool = True) -> List[str]:
    """singles alphabet.  quick: every base type as text-carrying and as argument-less instance + one non-text and one
    two-argument instance; thorough: every type x every shape it can be constructed in (shaped=False: first shape only)."""
    if not thorough:
        return EXC_BASE + ([t + "()" for t in EXC_BASE] + ["KeyError(7)", "C20Fault(m,d)"] if shaped else []) + list(RET_TOKENS)
    out = []
    for sh in (SHAPES if shaped else SHAPES[:1]):  # shape-major: the text-carrying tokens come first
        for t in EXC_BASE + EXC_EXTRA:
            if sh and t in _FIXED_SIGNATURE:
                continue
            out.append(t + sh)
    return out + list(RET_TOKENS)  # result tokens: on every sequence (they carry no "(" and are not an instance shape)


# ----------------------------------------------------------------------------- execution environment
class Env:
    """One execution: scratch dirs, reversible patches, fault-fired counters, hooks."""

    def __init__(self, scratch: str, tag: str):
        self.ex = W.Exec(scratch, tag)
        self.undo: List[Tuple[Any, str, Any]] = []
        self.fired: Dict[str, int] = {}
        self.state_hooks: List[Callable[[dict], None]] = []
        self.cfg_posts: List[Callable[[Any], None]] = []
        self.turn_calls: Dict[str, int] = {}

    def patch(self, obj: Any, name: str, val: Any) -> None:
        old = obj.__dict__.get(name, _MISSING)
        self.undo.append((obj, name, old))
        setattr(obj, name, val)

    def remove(self, obj: Any, name: str) -> None:
        old = obj.__dict__.get(name, _MISSING)
        self.undo.append((obj, name, old))
        if old is not _MISSING:
            delattr(obj, name)

    def restore(self) -> None:
        for obj, name, old in reversed(self.undo):
            if old is _MISSING:
                if name in obj.__dict__:
                    delattr(obj, name)
            else:
                setattr(obj, name, old)
        self.undo = []

    def fire(self, site: str) -> None:
        self.fired[site] = self.fired.get(site, 0) + 1

    def begin_turn(self) -> None:
        self.turn_calls = {}

    def raiser(self, site: str, exc: str) -> Callable:
        def _raise(*_a, **_k):
            self.fire(site)
            return _fail(exc, site)
        _raise.__name__ = "c20_raiser"
        return _raise


# ----------------------------------------------------------------------------- world preparation
class WStore(InMemoryGraphStore):
    """The in-memory graph store + an additive weight map that understands ProposedDelta (the engine's own
    InMemoryGraphStore.apply_deltas only understands dict edits and raises AttributeError on ProposedDelta, i.e.
    it would be a *permanently* failing store).  Snapshots export `.w` (engine fallback path)."""

    def apply_deltas(self, gid: str, deltas):  # type: ignore[override]
        edits = clamps = 0
        for d in deltas:
            key = (str(d.target_kind), str(d.target_id), str(d.attr))
            v = float(self.w.get(key, 0.0)) + float(d.delta)
            if v > 1.0:
                v, clamps = 1.0, clamps + 1
            elif v < -1.0:
                v, clamps = -1.0, clamps + 1
            self.w[key] = v
            edits += 1
        return {"edits": edits, "clamps": clamps}


WORLDS = ["W1", "W2", "W2b"]


def prep_state(world: str) -> Dict[str, Any]:
    base = "W2" if world == "W2b" else world
    state = W.make_world(base)
    st = state["store"]
    st.__class__ = WStore
    st.w = {} if base == "W1" else dict(LIVE_W)  # live weights a failed boot load must leave untouched
    state["memory_index"] = state["mem_index"]  # reflection writes land in the index T2 reads
    if world == "W2b":
        state["_boot_loaded"] = True  # process that has booted earlier: GEL graph of W2 is retained
        g = state["graph"]
        for n in ("x1", "x2", "x3", "x4"):
            g["nodes"][n] = {"id": n}
        for a, b, w in (("x1", "x2", 0.5), ("x3", "x4", 0.5), ("x2", "x3", 0.0625)):
            k = "%s→%s" % (a, b)
            g["edges"][k] = {"id": k, "src": a, "dst": b, "rel": "coact", "weight": w, "updated_at": None, "attrs": {}}
        g["meta"]["edges_count"] = len(g["edges"])
    return state


# scripted planner (seam clematis.engine.orchestrator.t3_deliberate): the rule-based plan + dyadic deltas +
# reflection requested, so that T4 approves deltas (store apply path is exercised) and reflection runs.
_DELTAS = {
    1: [("node", "n1", 0.25), ("node", "n2", 0.125), ("edge", "n1|supports|n2", -0.125)],
    2: [("node", "n1", 0.125), ("node", "n3", -0.25)],
}


def _planner(ctx, state, bundle):
    plan = t3_pkg.deliberate(bundle)
    turn = int(getattr(ctx, "turn_id", 0) or 0)
    deltas = [ProposedDelta(target_kind=k, target_id=t, attr="weight", delta=d, op_idx=0, idx=i)
              for i, (k, t, d) in enumerate(_DELTAS.get(turn, []))]
    return Plan(version=getattr(plan, "version", "t3-plan-v1"), reflection=True, ops=list(plan.ops), deltas=deltas,
                request_retrieve=getattr(plan, "request_retrieve", None))


def main_cfg(env: Env) -> Dict[str, Any]:
    """Every gate ON that can be ON together (LLM backend, T3 trace and quality shadow trace are added by the
    sites that need them)."""
    return {
        "perf": {"enabled": True, "metrics": {"report_memory": True}},
        "graph": {"enabled": True, "coactivation_threshold": 0.0, "update": {"alpha": 0.5},
                  "decay": {"half_life_turns": 2, "floor": 0.01},
                  "merge": {"enabled": True, "min_size": 2, "min_avg_w": 0.125},
                  "split": {"enabled": True, "weak_edge_thresh": 0.125},
                  "promotion": {"enabled": True}},
        "t2": {"quality": {"enabled": True, "fusion": {"enabled": True, "alpha_semantic": 0.5},
                           "mmr": {"enabled": True, "lambda": 0.5, "k": 3},
                           "trace_dir": os.path.join(env.ex.root, "qtrace")},
               "hybrid": {"enabled": True, "lambda_graph": 0.5, "anchor_top_m": 2}},
        "t3": {"allow_reflection": True, "reflection": {"summary_tokens": 8, "embed": False}},
        "scheduler": {"budgets": {"ops_reflection": 2}},
        "t4": {"cache_bust_mode": "on-apply"},
    }


# ----------------------------------------------------------------------------- sites
class Mode:
    def __init__(self, name: str, cfg: Optional[dict] = None, stub: Optional[Callable[[Env], None]] = None,
                 cfg_post: Optional[Callable[[Any], None]] = None):
        self.name, self.cfg, self.stub, self.cfg_post = name, cfg, stub, cfg_post


class Site:
    typed = True  # takes an exception type
    precondition: Optional[int] = None  # index of a mode whose run must complete, else the plan is outside the property

    def __init__(self, name: str, inject: Callable[[Env, str], None], modes: List[Mode], where: str,
                 cfg: Optional[Callable[[Env], dict]] = None, cfg_post: Optional[Callable[[Any], None]] = None,
                 requires: Optional[Callable[[Any], bool]] = None, worlds: Optional[Sequence[str]] = None,
                 typed: bool = True):
        self.name, self.inject, self.modes, self.where = name, inject, modes, where
        self.cfg, self.cfg_post, self.requires, self.worlds, self.typed = cfg, cfg_post, requires, worlds, typed


SITES: Dict[str, Site] = {}


def _site(*a, **k) -> None:
    s = Site(*a, **k)
    SITES[s.name] = s


HEALTHY = Mode("undisturbed")  # baseline for telemetry-only sites: nothing off, nothing faulted


# -- boot loader ------------------------------------------------------------------------------------
def _loader_off(env: Env) -> None:
    env.patch(orch_core, "load_latest_snapshot",
              lambda ctx, state: {"loaded": False, "path": None, "version_etag": None})


FRESH = ("W1", "W2")
_site("boot:load_latest_snapshot",
      lambda env, exc: env.patch(orch_core, "load_latest_snapshot", env.raiser("boot:load_latest_snapshot", exc)),
      [Mode("loader-off", stub=_loader_off), Mode("empty-snapshot-dir")],  # 2nd = idle loader (nothing to load)
      "core.run_turn boot hook: try: load_latest_snapshot(ctx, state) except Exception: pass", worlds=FRESH)

_DELTA_HDR = {"schema": "snapshot:v1", "mode": "delta", "etag_from": "4", "delta_of": "4", "etag_to": "5",
              "codec": "none", "level": 0}
GARBAGE: Dict[str, Tuple[str, Any]] = {
    # kind -> (default file name, content)     content: bytes | "DIR" | "SYMLINK"
    "empty": ("snap_000101.json", b""),
    "nonjson": ("snap_000102.json", b"\x00\xff\xfe{{not json at all"),
    "array": ("snap_000103.json", b"[1, 2, 3]"),
    "scalar": ("snap_000104.json", b"42"),
    "truncated": ("snap_000105.json", b'{"version_etag": "7", "store": {"weights": [{"target_kind": "node", "targ'),
    "object-no-etag": ("snap_000106.json", b'{"hello": "world", "n": 1}'),
    "directory": ("snap_000107.json", "DIR"),
    "unreadable": ("snap_000108.json", b"\x00\x01unreadable"),
    "delta-no-baseline": ("snapshot-5.delta.json",
                          (json.dumps(_DELTA_HDR, sort_keys=True) + "\n" + '{"_adds": {"x": 1}, "_dels": []}').encode()),
}
# a snapshot-shaped object (schema tags present, no version) whose GEL section was corrupted: edge weights that are not numbers
_BAD_GEL = {"graph_schema_version": "v1.1", "schema_version": "v1",
            "gel": {"nodes": {"ep1": {"id": "ep1"}, "ep2": {"id": "ep2"}},
                    "edges": {"ep1→ep2": {"id": "ep1→ep2", "src": "ep1", "dst": "ep2", "rel": "coact", "weight": "heavy"},
                              "ep1→ep4": {"id": "ep1→ep4", "src": "ep1", "dst": "ep4", "rel": "coact", "weight": None},
                              "ep2→ep4": {"id": "ep2→ep4", "src": "ep2", "dst": "ep4", "rel": "coact", "weight": [0.5]}},
                    "meta": {"schema": "v1.1", "merges": [], "splits": [], "promotions": [], "concept_nodes_count": 0, "edges_count": 3}}}
GARBAGE["gel-bad-weights"] = ("snap_000115.json", json.dumps(_BAD_GEL, ensure_ascii=False).encode("utf-8"))
GARBAGE_EXTRA: Dict[str, Tuple[str, Any]] = {
    "null": ("snap_000109.json", b"null"),
    "dangling-symlink": ("snap_000110.json", "SYMLINK"),
    "object-illtyped-sections": ("snap_000111.json", b'{"store": 5, "gel": [1, 2], "graph": "x", "deltas": 7}'),
    "header-then-garbage": ("snap_000112.json", b'{"schema": "snapshot:v1", "mode": "full", "etag_to": "9"}\n{not json'),
    "string": ("snap_000113.json", b'"version_etag"'),
    "bom-garbage": ("snap_000114.json", b"\xef\xbb\xbf\xef\xbb\xbf<html>"),
}
ALT_NAMES = ["state_zz.json", "foreign.json"]  # picker rules 2 and 3 (rule 1 = snap_NNNNNN.json)


def _mk_garbage(kind: str, fname: str, content: Any):
    site = "boot:garbage:%s" % kind if fname == (GARBAGE.get(kind) or GARBAGE_EXTRA[kind])[0] else \
        "boot:garbage:%s@%s" % (kind, fname)

    def inject(env: Env, _exc: str) -> None:
        p = os.path.join(env.ex.snap_dir, fname)
        if content == "DIR":
            os.makedirs(p, exist_ok=True)
        elif content == "SYMLINK":
            os.symlink(os.path.join(env.ex.snap_dir, "does-not-exist"), p)
        else:
            with open(p, "wb") as f:
                f.write(content)
            if kind == "unreadable":
                os.chmod(p, 0)
        try:
            if snap_mod._pick_latest_snapshot_path(env.ex.snap_dir) == p:
                env.fire(site)  # the boot loader will look at this file
        except Exception:
            pass

    _site(site, inject, [Mode("empty-snapshot-dir"), Mode("loader-off", stub=_loader_off)],
          "core.run_turn boot hook (loader tolerates / guard absorbs corrupt and foreign files)",
          worlds=FRESH, typed=False)
    return site


for _k, (_fn, _c) in GARBAGE.items():
    _mk_garbage(_k, _fn, _c)

# -- partially corrupt snapshots (late corruption) ----------------------------------------------------------
# A snapshot-shaped object in which ONE section the boot loader consumes is well-formed up to some entry and corrupt
# from there on (bit rot, a foreign writer, a half-migrated file).  Unlike the whole-file garbage above, the loader has
# already done part of its work when it meets the corruption, so this is the alphabet in which "a failed best-effort
# load is a no-op" can be told from "it raised nothing": a loader that mutates the live world before it knows that the
# section parses leaves a half-restored world behind.  The fresh-boot world W2 carries live store weights (LIVE_W) so
# that wiping / overwriting them shows in apply.jsonl (clamps); W1 boots with an empty weight map.
# Admissible baselines = the failing unit idle at every granularity, everything else as if that unit were absent:
#   file idle      empty snapshot dir / loader off
#   section idle   the same file without the corrupt section
#   entry idle     the same file with the corrupt entries removed from the section (entry-level corruption only)
# (each baseline is the implementation's own behaviour on the cleaned file, so merge- and replace-style loaders,
# loaders that reject the whole file, skip the section or skip the entry are all accepted).
LIVE_W = {("node", "n1", "weight"): 0.875, ("node", "n2", "weight"): 0.5, ("node", "n3", "weight"): -0.875,
          ("edge", "n1|supports|n2", "weight"): -0.9375}


def _went(tid: str, value: Any, kind: str = "node") -> Dict[str, Any]:
    return {"target_kind": kind, "target_id": tid, "attr": "weight", "value": value}


_VALID_W = [_went("n1", 0.9375), _went("n3", -0.9375)]
# corrupt entries address n2 so that a loader which reads a null value as the default 0.0 equals "entry idle"
_BAD_W_ENTRY: Dict[str, Any] = {"value-null": _went("n2", None), "entry-text": "n2=0.5",
                                "value-text": _went("n2", "heavy"), "value-list": _went("n2", [0.5]),
                                "entry-null": None, "entry-number": 3}
_BAD_W_SECTION: Dict[str, Any] = {"object": {"n1": 0.5}, "number": 7, "text": "n1"}


def _gel_edge(a: str, b: str, w: Any) -> Dict[str, Any]:
    k = "%s→%s" % (a, b)
    return {"id": k, "src": a, "dst": b, "rel": "coact", "weight": w, "updated_at": None, "attrs": {}}


# {ep1-ep2}, {ep1-ep4} and {ep1-ep2, ep1-ep4} give three different t2 records under the hybrid rerank (probed on W1/W2)
_VALID_GEL_EDGES = [_gel_edge("ep1", "ep2", 0.5), _gel_edge("ep1", "ep4", 0.25)]
_BAD_GEL_EDGE: Dict[str, Any] = {"weight-text": _gel_edge("ep2", "ep4", "heavy"), "weight-null": _gel_edge("ep2", "ep4", None),
                                 "weight-list": _gel_edge("ep2", "ep4", [0.5])}


# per-FIELD corruption of an otherwise well-formed edge record (numeric weight, so the record is not skipped for its weight): every
# field of the record other than the weight x JSON value of the wrong kind.  The record reaches the live GEL graph unless the loader
# cleans it, and the mandatory GEL update (gel_observe / gel_tick, graph.enabled on) reads those fields on every turn.  One site
# class per field (boot:partial:gel.edges.<field>) so that a finding names the field.
_BAD_GEL_FIELD: Dict[str, Dict[str, Any]] = {
    "attrs": {"null": None, "text": "x", "list": [1], "number": 3},
    "updated_at": {"number": 3, "list": [1], "object": {"a": 1}},
    "src": {"null": None, "number": 3},
    "rel": {"null": None, "list": [1]},
    "id": {"null": None, "number": 3},
}
_GEL_FIELD_QUICK = [("attrs", "null"), ("updated_at", "list")]


# per-VALUE corruption of a scalar header field the loader copies WITHOUT parsing it: version_etag.  The loader stores str(value) in
# state['version_etag']; the value is parsed later, outside the boot guard, by the mandatory apply stage (etag bump), so a foreign value
# is a boot-load failure whose effect surfaces downstream.  Alphabet = the classes of JSON values around the grammar "decimal integer
# text" that are NOT an integer under any reading (values that int() reads as a number - " 7 ", "+7", other scripts' decimal digits -
# are numeric etags, not corruption, and are not enumerated): text classes x JSON values of the wrong kind.
_BAD_ETAG: Dict[str, Any] = {
    "text-letters": "not-a-number", "text-empty": "", "text-blank": " ", "text-sign-only": "-", "text-fraction": "1.5",
    "text-exponent": "1e3", "text-hex": "0x10", "text-digit-not-decimal": "\u00b2", "text-digit-enclosed": "\u2460",
    "text-digit-mixed": "1\u00b2", "text-digit-fraction": "\u00bd", "text-numeral-letter": "\u2167",
    "text-nul": "7\x00", "bool": True, "fraction": 1.5, "list": [7], "object": {"etag": 7},
}
_ETAG_QUICK = ["text-letters", "text-empty", "text-digit-not-decimal", "text-digit-enclosed", "list"]
_ETAG_DEFAULT = "7"


def _etag_doc(shape: str, value: Any) -> Dict[str, Any]:
    doc = _snapshot_doc(shape)
    if value is _ABSENT:
        doc.pop("version_etag", None)
        if not doc:
            doc = {"schema_version": "v1"}  # bare: a snapshot-shaped object without any etag
    else:
        doc["version_etag"] = value
    return doc


def _gel_section(edges: List[Dict[str, Any]]) -> Dict[str, Any]:
    return {"nodes": {n: {"id": n} for n in ("ep1", "ep2", "ep4")}, "edges": {e["id"]: e for e in edges},
            "meta": {"schema": "v1.1", "merges": [], "splits": [], "promotions": [], "concept_nodes_count": 0,
                     "edges_count": len(edges)}}


_ABSENT = object()


def _snapshot_doc(shape: str, store: Any = _MISSING, gel: Any = _MISSING) -> Dict[str, Any]:
    """shape 'bare': only the sections given; 'full': a complete snapshot body as write_snapshot lays it out (version,
    schema tags, every section not given is present and valid).  _ABSENT removes a section."""
    doc: Dict[str, Any] = {}
    if shape == "full":
        doc = {"turn": 3, "agent": "A", "version_etag": "7", "applied": 1, "deltas": [], "schema_version": "v1",
               "graph_schema_version": "v1.1", "store": {"weights": list(_VALID_W)}, "gel": _gel_section(_VALID_GEL_EDGES),
               "graph": {"nodes_count": 3, "edges_count": 2, "meta": {"last_update": None}}}
    if store is _ABSENT:
        doc.pop("store", None)
    elif store is not _MISSING:
        doc["store"] = store
    if gel is _ABSENT:
        doc.pop("gel", None)
        doc.pop("graph", None)
    elif gel is not _MISSING:
        doc["graph_schema_version"] = "v1.1"
        doc["gel"] = gel
    return doc


def _write_doc(fname: str, doc: Any) -> Callable[[Env], None]:
    def stub(env: Env) -> None:
        with open(os.path.join(env.ex.snap_dir, fname), "w", encoding="utf-8") as f:
            json.dump(doc, f, ensure_ascii=False)
    return stub


PARTIAL_FNAME = "snap_000120.json"
PARTIAL_CLASSES = ["boot:partial:store.weights", "boot:partial:gel.edges"]  # + one class per corrupt edge field (added below)


def _mk_partial(section: str, label: str, doc: Any, cleaned: List[Tuple[str, Any]], fname: str = PARTIAL_FNAME) -> str:
    """site = the file `doc`; `cleaned` = [(mode name, the same file with the failing unit removed)]."""
    site = "boot:partial:%s@%s" % (section, label if fname == PARTIAL_FNAME else "%s,%s" % (label, fname))
    if site in SITES:
        return site
    write = _write_doc(fname, doc)

    def inject(env: Env, _exc: str) -> None:
        write(env)
        with contextlib.suppress(Exception):
            if snap_mod._pick_latest_snapshot_path(env.ex.snap_dir) == os.path.join(env.ex.snap_dir, fname):
                env.fire(site)  # the boot loader will look at this file

    _site(site, inject,
          [Mode("empty-snapshot-dir"), Mode("loader-off", stub=_loader_off)] +
          [Mode(n, stub=_write_doc(fname, d)) for n, d in cleaned],
          "core.run_turn boot hook / snapshot.load_latest_snapshot: a section that stops parsing part-way is not imported "
          "(_import_store_from_snapshot returns False, GEL restore is 'tolerant'); the live world must not be half-restored",
          worlds=FRESH, typed=False)
    return site


def _partial_sites(thorough: bool) -> List[str]:
    """Enumerates: section in {store.weights, gel.edges} x corruption kind x position k of the corrupt entry among the
    valid ones (k = number of valid entries BEFORE it) x file shape {bare, full}; plus ill-typed whole sections."""
    out: List[str] = []
    shapes = ("bare", "full")
    names = [PARTIAL_FNAME] + (ALT_NAMES if thorough else [])
    for fname in names:
        full_alphabet = thorough and fname == PARTIAL_FNAME  # other picker rules (ALT_NAMES): the quick kinds only
        w_kinds = list(_BAD_W_ENTRY) if full_alphabet else ["value-null", "entry-text"]
        g_kinds = list(_BAD_GEL_EDGE) if full_alphabet else ["weight-text"]
        for shape in shapes:
            for kind in w_kinds:
                for k in range(len(_VALID_W) + 1):
                    lst = _VALID_W[:k] + [_BAD_W_ENTRY[kind]] + _VALID_W[k:]
                    out.append(_mk_partial(
                        "store.weights", "%s,k=%d,%s" % (kind, k, shape), _snapshot_doc(shape, store={"weights": lst}),
                        [("section-dropped", _snapshot_doc(shape, store=_ABSENT)),
                         ("corrupt-entries-dropped", _snapshot_doc(shape, store={"weights": list(_VALID_W)}))], fname))
            for kind in (list(_BAD_W_SECTION) if full_alphabet else ["object"]):
                out.append(_mk_partial(
                    "store.weights", "section-%s,%s" % (kind, shape), _snapshot_doc(shape, store={"weights": _BAD_W_SECTION[kind]}),
                    [("section-dropped", _snapshot_doc(shape, store=_ABSENT))], fname))
            for kind in g_kinds:
                for k in range(len(_VALID_GEL_EDGES) + 1):
                    lst = _VALID_GEL_EDGES[:k] + [_BAD_GEL_EDGE[kind]] + _VALID_GEL_EDGES[k:]
                    out.append(_mk_partial(
                        "gel.edges", "%s,k=%d,%s" % (kind, k, shape), _snapshot_doc(shape, gel=_gel_section(lst)),
                        [("section-dropped", _snapshot_doc(shape, gel=_ABSENT)),
                         ("corrupt-entries-dropped", _snapshot_doc(shape, gel=_gel_section(_VALID_GEL_EDGES)))], fname))
        # scalar header field version_etag: value class x shape (other picker rules: the quick kinds only)
        for kind in (list(_BAD_ETAG) if full_alphabet else _ETAG_QUICK):
            for shape in shapes:
                out.append(_mk_partial(
                    "version_etag", "%s,%s" % (kind, shape), _etag_doc(shape, _BAD_ETAG[kind]),
                    [("corrupt-field-dropped", _etag_doc(shape, _ABSENT)),
                     ("corrupt-field-at-its-default", _etag_doc(shape, _ETAG_DEFAULT))], fname))
        # per-field corruption: the corrupt record sits between the two valid ones (k = 1); thorough: every k
        if fname == PARTIAL_FNAME:
            good = _gel_edge("ep2", "ep4", 0.5)
            for fld, kinds in _BAD_GEL_FIELD.items():
                for kind, val in kinds.items():
                    if not thorough and (fld, kind) not in _GEL_FIELD_QUICK:
                        continue
                    for shape in (shapes if thorough else ("full",)):
                        for k in (range(len(_VALID_GEL_EDGES) + 1) if thorough else (1,)):
                            bad = dict(good)
                            bad[fld] = val
                            mk = lambda rec: _snapshot_doc(shape, gel=_gel_section(_VALID_GEL_EDGES[:k] + [rec] + _VALID_GEL_EDGES[k:]))
                            out.append(_mk_partial(
                                "gel.edges." + fld, "%s,k=%d,%s" % (kind, k, shape), mk(bad),
                                [("section-dropped", _snapshot_doc(shape, gel=_ABSENT)),
                                 ("corrupt-entries-dropped", _snapshot_doc(shape, gel=_gel_section(_VALID_GEL_EDGES))),
                                 ("corrupt-field-at-its-default", mk(good))], fname))
    return out

# -- unreadable entries in the LIVE world an optional layer reads (data-induced failure) ---------------------------
# Every raiser site above makes the optional callable fail AT ITS CALL BOUNDARY.  A subsystem can also fail because of what
# it is given to read: the hybrid rerank (t2.hybrid) reads the live GEL graph state['graph'], documents itself as tolerant
# (an edge record that is not a dict, a weight that is not a number -> the edge counts as absent; anything else that goes
# wrong in it is absorbed by apply_quality) and is the one optional layer whose input no mandatory stage reads when GEL
# maintenance (graph.enabled) is off - the deployment that reranks over a loaded / externally built static graph.  This is
# the live-state twin of the partially corrupt snapshot alphabet: the same corrupt entries, already in state['graph'] of a
# process that has booted.  Everything that belongs to the optional feature takes part (its cache-key digest, its metrics),
# whether or not it sits inside the feature's own guard - that is the point of the leg.
# Oracle as for every site, with one precondition that keeps it inside the property: the run with the layer switched off
# (t2.hybrid.enabled=false) on the SAME dirty world must complete - then no mandatory part of the turn depends on the dirty
# entries and whatever goes wrong with the layer on is a failure inside the optional layer.  If it does not complete the
# plan is outside the property and only counted (plans_outside_property).
# Admissible baselines: layer off (same world) / rerank replaced by the identity stub (same world) / the corrupt entries
# removed from the world / the corrupt entries read as the documented default weight 0.0 / the whole section empty.
_LIVE_EDGES = [_gel_edge("ep1", "ep2", 0.5), _gel_edge("ep1", "ep4", 0.25), _gel_edge("ep2", "ep4", -0.25)]  # = W2's graph
_LIVE_BAD_WEIGHT: Dict[str, Any] = {"weight-text": "heavy", "weight-null": None, "weight-list": [0.5], "weight-object": {"w": 0.5}}
_LIVE_BAD_REC: Dict[str, Any] = {"entry-null": None, "entry-text": "ep1,ep2,0.5", "entry-number": 3, "entry-list": ["ep1", "ep2", 0.5]}
_LIVE_BAD_SECTION: Dict[str, Any] = {"edges-list": lambda: [dict(e) for e in _LIVE_EDGES], "edges-text": lambda: "ep1→ep2",
                                     "edges-number": lambda: 7}
_LIVE_BAD_GRAPH: Dict[str, Any] = {"graph-text": "graph", "graph-list": [1, 2], "graph-number": 7}
LIVE_CLASS = "live:gel.edges"
LIVE_WORLDS = ("W1", "W2b")
_LIVE_CFG = {"graph": {"enabled": False}}
_HYBRID_OFF_CFG = {"t2": {"hybrid": {"enabled": False}}}


def _live_graph(edges: Any) -> Dict[str, Any]:
    g = _gel_section(_LIVE_EDGES)
    g["edges"] = edges
    return g


def _install_graph(mk_graph: Callable[[], Any]) -> Callable[[Env], None]:
    def stub(env: Env) -> None:
        def hook(state):
            state["_boot_loaded"] = True  # the graph of a process that has booted (a fresh boot replaces state['graph'])
            g = mk_graph()
            if g is _ABSENT:
                state.pop("graph", None)
            else:
                state["graph"] = g
        env.state_hooks.append(hook)
    return stub


def _rerank_identity(env: Env) -> None:
    env.patch(quality_mod, "rerank_with_gel", lambda ctx, state, items: (list(items), {"hybrid_used": False}))


def _mk_live(label: str, dirty: Callable[[], Any], cleaned: List[Tuple[str, Callable[[], Any]]]) -> str:
    site = "%s@%s" % (LIVE_CLASS, label)
    if site in SITES:
        return site
    put_dirty = _install_graph(dirty)

    def inject(env: Env, _exc: str) -> None:
        put_dirty(env)
        real = quality_mod.rerank_with_gel  # transparent counter: the optional layer was entered with the dirty graph in place

        def counted(ctx, state, items):
            env.fire(site)
            return real(ctx, state, items)
        env.patch(quality_mod, "rerank_with_gel", counted)

    def idle(env: Env) -> None:
        put_dirty(env)
        _rerank_identity(env)

    modes = [Mode("hybrid-off", cfg=_HYBRID_OFF_CFG, stub=put_dirty),  # FIRST: the precondition (must complete)
             Mode("idle-stub:identity", stub=idle)] + [Mode(n, stub=_install_graph(mk)) for n, mk in cleaned]
    _site(site, inject, modes,
          "stages/hybrid.rerank_with_gel reads state['graph'] tolerantly (_edge_weight/_degree: not a dict / not a number -> 0.0) "
          "and t2/quality.apply_quality guards the call: try: rerank_with_gel(..) except Exception: hybrid_used=False",
          cfg=lambda env: _LIVE_CFG, worlds=LIVE_WORLDS, typed=False)
    SITES[site].precondition = 0  # index of the mode that must complete for the plan to be inside the property
    return site


def _live_sites(thorough: bool) -> List[str]:
    """entry level: which of the three edges is corrupt (j) x how (weight not a number / record not a dict);
    section level: state['graph']['edges'] not a mapping; graph level: state['graph'] not a mapping."""
    out: List[str] = []
    import copy as _copy

    def edges_with(j: int, rec: Any, drop: bool = False) -> Callable[[], Any]:
        def mk():
            d: Dict[str, Any] = {}
            for i, e in enumerate(_LIVE_EDGES):
                if i == j:
                    if not drop:
                        d[e["id"]] = _copy.deepcopy(rec)
                else:
                    d[e["id"]] = dict(e)
            return _live_graph(d)
        return mk

    empty = ("section-empty", lambda: _live_graph({}))
    w_kinds = list(_LIVE_BAD_WEIGHT) if thorough else ["weight-text", "weight-null"]
    r_kinds = list(_LIVE_BAD_REC) if thorough else ["entry-null"]
    for j, e in enumerate(_LIVE_EDGES):
        for kind in w_kinds:
            out.append(_mk_live("%s,j=%d" % (kind, j), edges_with(j, dict(e, weight=_LIVE_BAD_WEIGHT[kind])),
                                [("corrupt-entries-dropped", edges_with(j, None, drop=True)),
                                 ("corrupt-weight-as-default-0.0", edges_with(j, dict(e, weight=0.0))), empty]))
        for kind in r_kinds:
            out.append(_mk_live("%s,j=%d" % (kind, j), edges_with(j, _LIVE_BAD_REC[kind]),
                                [("corrupt-entries-dropped", edges_with(j, None, drop=True)), empty]))
    for kind in (list(_LIVE_BAD_SECTION) if thorough else ["edges-list"]):
        out.append(_mk_live("section-" + kind, (lambda k: (lambda: _live_graph(_LIVE_BAD_SECTION[k]())))(kind), [empty]))
    for kind in (list(_LIVE_BAD_GRAPH) if thorough else []):
        out.append(_mk_live("section-" + kind, (lambda k: (lambda: _copy.deepcopy(_LIVE_BAD_GRAPH[k])))(kind),
                            [empty, ("graph-absent", lambda: _ABSENT)]))
    return out


# -- GEL maintenance passes -----------------------------------------------------------------------
_PASS_OFF ={"M": {"graph": {"merge": {"enabled": False}}}, "S": {"graph": {"split": {"enabled": False}}},
             "P": {"graph": {"promotion": {"enabled": False}}}}


def _gel_modes(p: str) -> List[Mode]:
    later = {"M": "MSP", "S": "SP", "P": "P"}[p]
    out, seen = [], set()
    for offs in (later, p, "MSP"):
        if offs in seen:
            continue
        seen.add(offs)
        cfg: dict = {}
        for q in offs:
            cfg = W.deep_merge(cfg, _PASS_OFF[q])
        out.append(Mode("passes-off:" + offs, cfg=cfg))
    return out


for _attr, _p in (("gel_merge_candidates", "M"), ("gel_apply_merge", "M"), ("gel_split_candidates", "S"),
                  ("gel_apply_split", "S"), ("gel_promote_clusters", "P"), ("gel_apply_promotion", "P")):
    _site("gel:" + _attr,
          (lambda a: (lambda env, exc: env.patch(orch_core, a, env.raiser("gel:" + a, exc))))(_attr),
          _gel_modes(_p),
          "core.run_turn PR24 block: try: ... except Exception: pass  # never let optional features break the turn")

# -- reflection -------------------------------------------------------------------------------------
_REFL_OFF = Mode("reflection-off", cfg={"t3": {"allow_reflection": False}})


def _reflect_idle(env: Env) -> None:
    RR = reflect_mod.ReflectionResult
    env.patch(reflect_mod, "reflect",
              lambda bundle, cfg, embedder=None: RR(summary="", memory_entries=[], metrics={"backend": "rulebased"}))


class _IndexProxy:
    """state['memory_index'] whose add() is replaced; everything else is the real index."""

    def __init__(self, inner, add):
        self.__dict__["_inner"] = inner
        self.__dict__["add"] = add

    def __getattr__(self, name):
        return getattr(self.__dict__["_inner"], name)


def _index_add(add_factory):
    def hook_installer(env: Env, exc: str = "") -> None:
        def hook(state):
            state["memory_index"] = _IndexProxy(state["memory_index"], add_factory(env, exc))
        env.state_hooks.append(hook)
    return hook_installer


def _log_append_wrapper(env: Env, on_refl: Callable[[], None]):
    real = orch_logging.append_jsonl

    def _w(file_path, payload):
        if str(file_path) == "t3_reflection.jsonl":
            return on_refl()
        return real(file_path, payload)
    return _w


def _raise_now(env: Env, site: str, exc: str):
    def _f():
        env.fire(site)
        return _fail(exc, site)
    return _f


_site("refl:_run_reflection_if_enabled",
      lambda env, exc: env.patch(orch_core, "_run_reflection_if_enabled",
                                 env.raiser("refl:_run_reflection_if_enabled", exc)),
      [Mode("idle-stub", stub=lambda env: env.patch(orch_core, "_run_reflection_if_enabled", lambda *a, **k: None)),
       _REFL_OFF],
      "core.run_turn PR79: try: _run_reflection_if_enabled(...) except Exception: pass  # must never break the turn")
_site("refl:reflect",
      lambda env, exc: env.patch(reflect_mod, "reflect", env.raiser("refl:reflect", exc)),
      [Mode("idle-stub", stub=_reflect_idle), _REFL_OFF],
      "core._run_reflection_if_enabled: try: reflect_fn(bundle, cfg, embedder=None) except Exception -> empty result")
_site("refl:write_reflection_entries",
      lambda env, exc: env.patch(orch_reflection, "write_reflection_entries",
                                 env.raiser("refl:write_reflection_entries", exc)),
      [Mode("idle-stub", stub=lambda env: env.patch(orch_reflection, "write_reflection_entries",
                                                    lambda *a, **k: {"ops_written": 0})), _REFL_OFF],
      "core.run_turn PR80: try: write_reflection_entries(...) except Exception  # writes must never break the turn")
_site("refl:memory_index.add",
      _index_add(lambda env, exc: env.raiser("refl:memory_index.add", exc)),
      [Mode("idle-stub", stub=_index_add(lambda env, exc: (lambda *a, **k: None))), _REFL_OFF],
      "orchestrator/reflection.write_reflection_entries ('Never raises'): try: index.add(ep) except Exception -> errors[]")
_site("refl:log_t3_reflection",
      lambda env, exc: env.patch(orch_core, "log_t3_reflection", env.raiser("refl:log_t3_reflection", exc)),
      [HEALTHY, Mode("idle-stub", stub=lambda env: env.patch(orch_core, "log_t3_reflection", lambda *a, **k: None))],
      "core.run_turn PR86: try: log_t3_reflection(...) except Exception: pass  # telemetry must never break the turn")
_site("refl:log.append_jsonl",
      lambda env, exc: env.patch(orch_logging, "append_jsonl",
                                 _log_append_wrapper(env, _raise_now(env, "refl:log.append_jsonl", exc))),
      [HEALTHY, Mode("idle-stub", stub=lambda env: env.patch(orch_logging, "append_jsonl",
                                                             _log_append_wrapper(env, lambda: None)))],
      "orchestrator/logging.log_t3_reflection ('Fail-soft'): try: append_jsonl('t3_reflection.jsonl', ..) except Exception")


# -- LLM adapter construction --------------------------------------------------------------------------
def _llm_cfg(env: Env) -> dict:
    p = os.path.join(env.ex.root, "llm_fixtures.jsonl")
    if not os.path.exists(p):
        open(p, "w").close()
    return {"t3": {"backend": "llm", "llm": {"provider": "fixture", "fixtures": {"enabled": True, "path": p}}}}


_site("llm:build_llm_adapter",
      lambda env, exc: env.patch(orch_core, "build_llm_adapter", env.raiser("llm:build_llm_adapter", exc)),
      [Mode("idle-stub:no-adapter", stub=lambda env: env.patch(orch_core, "build_llm_adapter", lambda cfg: None)),
       Mode("backend-rulebased", cfg={"t3": {"backend": "rulebased"}})],
      "core.run_turn backend selection: try: adapter = build_llm_adapter(cfg) except Exception as e -> rulebased fallback",
      cfg=_llm_cfg)


# -- T3 prompt trace ---------------------------------------------------------------------------------
# core.run_turn calls emit_trace(dialog_bundle.get("cfg", {}), ...) but the dialogue bundle built by
# make_dialog_bundle carries no "cfg" key, so the trace gate can never open inside a turn (verified: the raiser is
# never reached).  The declared guard of stages/t3/trace.emit_trace is therefore exercised directly (micro check
# below), not through run_turn.
class _RaisingList(list):
    def __init__(self, fn):
        super().__init__()
        self._fn = fn

    def append(self, item):  # type: ignore[override]
        return self._fn(item)


class _RaisingStr:
    def __init__(self, fn):
        self._fn = fn

    def __str__(self):
        return self._fn()

    def __bool__(self):
        return True


class _RaisingKeys(dict):
    def __init__(self, fn):
        super().__init__()
        self._fn = fn

    def keys(self):  # type: ignore[override]
        return self._fn()


T3TRACE_WHERE = ("state_logs.append", "str(trace_reason)", "bundle.keys()")


def micro_t3_trace_one(exc: str, where: str) -> Tuple[bool, Optional[Tuple[str, str]]]:
    """stages/t3/trace.emit_trace with its gate open: a failure while building/appending the trace entry must be
    swallowed (returns None, raises nothing).  Returns (fault reached, violation or None)."""
    from clematis.engine.stages.t3 import trace as t3_trace
    cfg_on = {"perf": {"metrics": {"enabled": True}}, "t3": {"trace": {"enabled": True}}}
    site = "t3trace:" + where
    fired: List[int] = []

    def boom(*_a, **_k):
        fired.append(1)
        return _fail(exc, site)
    logs: list = _RaisingList(boom) if where == "state_logs.append" else []
    meta: Dict[str, Any] = {"state_logs": logs}
    if where == "str(trace_reason)":
        meta["trace_reason"] = _RaisingStr(boom)
    bundle = _RaisingKeys(boom) if where == "bundle.keys()" else {"a": 1}
    try:
        r = t3_trace.emit_trace(cfg_on, "prompt", bundle, meta)
    except Exception as e:  # noqa: BLE001
        return bool(fired), ("abort:t3trace:emit_trace",
                             "emit_trace raised %s(%s) for a failing %s" % (type(e).__name__, e, where))
    if r is not None:
        return bool(fired), ("no-result:t3trace:emit_trace", "emit_trace returned %r" % (r,))
    return bool(fired), None


def micro_t3_trace(st: Stats, excs: List[str]) -> None:
    for exc in excs:
        for where in T3TRACE_WHERE:
            fired, viol = micro_t3_trace_one(exc, where)
            st.add("transitions")
            st.add("validated")
            st.add("micro_t3_trace")
            st.distinct("states", ["micro", where, exc])
            if fired:
                st.distinct("nontrivial", ["micro", where, exc])
                st.distinct("sites_fired", "t3trace:emit_trace")
            st.distinct("outcomes", ["micro", "swallowed" if viol is None else viol[0]])
            if viol:
                st.violation(viol[0], viol[1], {"micro": "t3trace", "where": where, "exc": exc})


# -- apply: cache invalidation, store errors -----------------------------------------------------------
def _inval_inject(env: Env, exc: str) -> None:
    r = env.raiser("apply:invalidate_namespace", exc)
    env.patch(cache_mod.CacheManager, "invalidate_namespace", lambda self, ns: r())


_site("apply:invalidate_namespace", _inval_inject,
      [Mode("cache-bust-off", cfg={"t4": {"cache_bust_mode": "none"}}),
       Mode("idle-stub", stub=lambda env: env.patch(cache_mod.CacheManager, "invalidate_namespace",
                                                    lambda self, ns: 0))],
      "apply.apply_changes: try: cm.invalidate_namespace(ns) except Exception: pass  # never fail apply")


def _store_wrap(env: Env, fn_factory) -> None:
    def hook(state):
        st = state["store"]
        real = st.apply_deltas  # bound method of the class
        st.apply_deltas = fn_factory(real)  # instance attribute: what getattr(store, 'apply_deltas') returns
    env.state_hooks.append(hook)


def _store_fault(site: str, which: str):
    """which: 'all' every call raises | 'batch' first call of a turn (the batch call) raises |
    'delta0' batch call and the per-delta call for the first delta raise."""
    def inject(env: Env, exc: str) -> None:
        def factory(real):
            def apply_deltas(gid, deltas):
                n = env.turn_calls.get("store", 0)
                env.turn_calls["store"] = n + 1
                bad = which == "all" or (which == "batch" and n == 0) or (which == "delta0" and n in (0, 1))
                if bad:
                    env.fire(site)
                    return _fail(exc, site)
                return real(gid, deltas)
            return apply_deltas
        _store_wrap(env, factory)
    return inject


def _store_idle(which: str):
    def stub(env: Env) -> None:
        def factory(real):
            def apply_deltas(gid, deltas):
                if which == "all":
                    return {"edits": 0, "clamps": 0}
                return real(gid, list(deltas)[1:])  # idle for the first delta only
            return apply_deltas
        _store_wrap(env, factory)
    return stub


_site("store:apply_deltas:all", _store_fault("store:apply_deltas:all", "all"),
      [Mode("idle-store:applies-nothing", stub=_store_idle("all"))],
      "apply.apply_changes: try: batch except Exception: for d: try: per-delta except Exception: continue")
_site("store:apply_deltas:batch-only", _store_fault("store:apply_deltas:batch-only", "batch"),
      [HEALTHY, Mode("idle-store:applies-nothing", stub=_store_idle("all"))],  # 2nd: an engine that gives up the batch
      "apply.apply_changes: batch call fails, per-delta fallback applies every delta (= undisturbed additive store)")
_site("store:apply_deltas:batch+delta0", _store_fault("store:apply_deltas:batch+delta0", "delta0"),
      [Mode("idle-store:skips-first-delta", stub=_store_idle("delta0")),
       Mode("idle-store:applies-nothing", stub=_store_idle("all"))],
      "apply.apply_changes: per-delta fallback, one delta fails -> 'continue applying others'")


# -- snapshot sidecar ------------------------------------------------------------------------------------
def _sidecar_writer(env: Env, on_meta: Callable[[], None]):
    real = snap_mod.atomic_write_text

    def _w(path, *a, **k):
        if str(path).endswith(".meta"):
            return on_meta()
        return real(path, *a, **k)
    return _w


_SIDECAR_MODES = [HEALTHY, Mode("idle-stub:no-sidecar", stub=lambda env: env.patch(
    snap_mod, "atomic_write_text", _sidecar_writer(env, lambda: None)))]
_site("sidecar:atomic_write_text",
      lambda env, exc: env.patch(snap_mod, "atomic_write_text",
                                 _sidecar_writer(env, _raise_now(env, "sidecar:atomic_write_text", exc))),
      _SIDECAR_MODES, "snapshot._write_sidecar_meta: try: atomic_write_text(meta_path, ..) except Exception: pass")
_site("sidecar:_write_sidecar_meta",
      lambda env, exc: env.patch(snap_mod, "_write_sidecar_meta", env.raiser("sidecar:_write_sidecar_meta", exc)),
      _SIDECAR_MODES, "snapshot.write_snapshot: try: _write_sidecar_meta(path, ..) except Exception: pass")
_site("sidecar:_deterministic_created_at",
      lambda env, exc: env.patch(snap_mod, "_deterministic_created_at",
                                 env.raiser("sidecar:_deterministic_created_at", exc)),
      _SIDECAR_MODES, "snapshot.write_snapshot sidecar guard (created_at computed inside _write_sidecar_meta)")

# -- T2 quality layer: hybrid rerank, fusion, MMR, shadow trace ---------------------------------------------
_Q_OFF = Mode("quality-off", cfg={"t2": {"quality": {"enabled": False}}})


def _q_on(cfg) -> bool:
    return bool(cfg["t2"]["quality"]["enabled"])


def _shadow_cfg(env: Env) -> dict:
    return {"t2": {"quality": {"enabled": False, "shadow": True}}}


_site("hybrid:rerank_with_gel",
      lambda env, exc: env.patch(quality_mod, "rerank_with_gel", env.raiser("hybrid:rerank_with_gel", exc)),
      [Mode("hybrid-off", cfg={"t2": {"hybrid": {"enabled": False}}}),
       Mode("idle-stub", stub=lambda env: env.patch(quality_mod, "rerank_with_gel",
                                                    lambda ctx, state, items: (list(items), {"hybrid_used": False})))],
      "t2/quality.apply_quality: try: rerank_with_gel(..) except Exception: hybrid_used=False")
_site("quality:fuse",
      lambda env, exc: env.patch(quality_ops_mod, "fuse", env.raiser("quality:fuse", exc)),
      [Mode("fusion-absent", stub=lambda env: env.remove(quality_ops_mod, "fuse")), _Q_OFF,
       Mode("idle-stub:identity", stub=lambda env: env.patch(quality_ops_mod, "fuse",
                                                             lambda q, items, cfg=None: (items, {})))],
      "t2/quality.apply_quality fusion/MMR block: try: ... except Exception: q_fusion_used=False", requires=_q_on)
_site("quality:maybe_apply_mmr",
      lambda env, exc: env.patch(quality_ops_mod, "maybe_apply_mmr", env.raiser("quality:maybe_apply_mmr", exc)),
      [Mode("mmr-off", cfg={"t2": {"quality": {"mmr": {"enabled": False}}}}),
       Mode("mmr-absent", stub=lambda env: env.remove(quality_ops_mod, "maybe_apply_mmr")), _Q_OFF,
       Mode("idle-stub:identity", stub=lambda env: env.patch(quality_ops_mod, "maybe_apply_mmr",
                                                             lambda fused, qcfg: fused))],
      "t2/quality.apply_quality fusion/MMR block and MMR fallback block: try: ... except Exception", requires=_q_on)
_QTRACE_MODES = [HEALTHY, Mode("shadow-off", cfg={"t2": {"quality": {"shadow": False}}}),
                 Mode("tracer-absent", stub=lambda env: env.patch(quality_mod, "_emit_quality_trace", None))]
_site("qtrace:_emit_quality_trace",
      lambda env, exc: env.patch(quality_mod, "_emit_quality_trace", env.raiser("qtrace:_emit_quality_trace", exc)),
      _QTRACE_MODES, "t2/quality.apply_quality PR36: try: _emit_quality_trace(..) except Exception: pass",
      cfg=_shadow_cfg, requires=lambda cfg: not _q_on(cfg))
_site("qtrace:_quality_cfg_snapshot",
      lambda env, exc: env.patch(quality_mod, "_quality_cfg_snapshot",
                                 env.raiser("qtrace:_quality_cfg_snapshot", exc)),
      _QTRACE_MODES, "t2/quality.apply_quality PR36 guard (cfg snapshot built inside the try)",
      cfg=_shadow_cfg, requires=lambda cfg: not _q_on(cfg))
_site("qtrace:write",
      lambda env, exc: env.patch(quality_trace_mod, "_derive_trace_dir", env.raiser("qtrace:write", exc)),
      _QTRACE_MODES, "t2/quality_trace.emit_trace ('Never raises'): try: mkdir/open/write except Exception: return",
      cfg=_shadow_cfg, requires=lambda cfg: not _q_on(cfg))

BASE_SITE_NAMES = list(SITES)  # quick + thorough; singles and pairs


# -- unusable parameters of an optional subsystem (failure while the region reads its own inputs) -------------------------
# The third failure position: BEFORE the optional call, while the declared region prepares what it hands to the callable
# ("try: for ns in namespaces: ... except Exception: pass  # never fail apply due to cache invalidation"; "try: cap = int(cfg.get(
# 'cap_per_turn', 4)) ... except Exception: pass  # never let optional features break the turn").  What such a region reads is the
# subsystem's OWN configuration.  Contexts are routinely built without configs.validate (drivers, tests, embedding applications),
# so a parameter can arrive as None (a YAML key left empty) or as an object of the wrong kind; the failure then arises inside the
# optional subsystem, at the statement that first uses the parameter.  Alphabet: optional subsystem x each of its leaf parameters
# (never its gate) x unusable JSON value (table below; a usable wrong value is a different configuration, not a failure),
# installed AFTER validation, in the fault run and in its off / idle baselines alike.
# Inside the property only if the run with the subsystem's gate closed under the SAME configuration completes (precondition, as
# for the live-world leg): then no mandatory part of the turn reads the parameter and whatever goes wrong with the gate open is
# a failure inside the optional subsystem.  Admissible baselines: gate closed / subsystem idle (same configuration) / the
# parameter at its validated value / the parameter absent (an implementation that falls back to a default).
CFG_CLASS = "cfg"
# kind -> value, per validated type of the parameter.  A configuration is JSON / YAML data, so the unusable values are JSON values of
# the wrong kind - the corrupt-entry kinds of the snapshot alphabet (weight-null / weight-text / weight-list) applied to parameters:
#   number-typed parameter: null, text that is no number, a list      (int() / float() / arithmetic / comparison fail)
#   list-typed parameter:   null, a number                            (iteration fails)
# text- and bool-typed parameters have no unusable JSON value (str() / bool() accept anything: a wrong value is a different
# configuration, not a failure) and are not enumerated.
_CFG_VALUES: Dict[str, Dict[str, Any]] = {"num": {"null": None, "text": "heavy", "list": [0.5]}, "list": {"null": None, "number": 7}}


def _cfg_get(cfg: Any, path: Sequence[str]) -> Any:
    for k in path:
        cfg = cfg[k]
    return cfg


def _mk_cfg_site(subsystem: str, path: Tuple[str, ...], typ: str, kind: str, modes: List[Mode], pre: int, where: str,
                 cfg: Optional[Callable[[Env], dict]] = None, requires: Optional[Callable[[Any], bool]] = None) -> str:
    site = "%s:%s@%s=%s" % (CFG_CLASS, subsystem, ".".join(path), kind)
    if site in SITES:
        return site
    saved: List[Any] = []
    want = (int, float) if typ == "num" else (list,)

    def put(c: Any) -> None:  # runs in the fault run and in every baseline run of this site
        d = _cfg_get(c, path[:-1])
        old = d.get(path[-1], _MISSING)
        if isinstance(old, bool) or not isinstance(old, want):
            raise HarnessError("config parameter %s: validated value %r is not of the declared type %s" % (".".join(path), old, typ))
        saved[:] = [c, old]
        import copy as _copy
        d[path[-1]] = _copy.deepcopy(_CFG_VALUES[typ][kind])

    def restore(c: Any) -> None:  # mode 'parameter at its validated value' (posts of modes run after those of sites)
        if not saved or saved[0] is not c:
            raise HarnessError("cfg site %s: restore without install" % site)
        _cfg_get(c, path[:-1])[path[-1]] = saved[1]

    def drop(c: Any) -> None:  # mode 'parameter absent' (the implementation's own built-in default)
        if not saved or saved[0] is not c:
            raise HarnessError("cfg site %s: drop without install" % site)
        _cfg_get(c, path[:-1]).pop(path[-1], None)

    _site(site, lambda env, _exc: env.fire(site),
          list(modes) + [Mode("parameter-at-validated-value", cfg_post=restore), Mode("parameter-absent", cfg_post=drop)],
          where, cfg=cfg, cfg_post=put, requires=requires, typed=False)
    SITES[site].precondition = pre
    return site


def _cfg_sites(thorough: bool) -> List[str]:
    out: List[str] = []

    def add(subsystem: str, like: str, pre_name: str, params: List[Tuple[str, Tuple[str, ...]]], quick: int = 1) -> None:
        """`like`: the call-boundary site of the same subsystem (its off / idle modes, gates and location are reused);
        pre_name: the mode that closes the subsystem's gate; quick tier: the first `quick` parameters x kind null."""
        base = SITES[like]
        pre = [m.name for m in base.modes].index(pre_name)
        for i, (typ, path) in enumerate(params):
            for kind in _CFG_VALUES[typ]:
                if thorough or (i < quick and kind == "null"):
                    out.append(_mk_cfg_site(subsystem, path, typ, kind, base.modes, pre, base.where, cfg=base.cfg, requires=base.requires))

    def nums(prefix: Tuple[str, ...], keys: Sequence[str]) -> List[Tuple[str, Tuple[str, ...]]]:
        return [("num", prefix + (k,)) for k in keys]

    add("invalidation", "apply:invalidate_namespace", "cache-bust-off",
        [("list", ("t4", "cache", "namespaces"))] + nums(("t4", "cache"), ("max_entries", "ttl_sec")))
    add("gel-merge", "gel:gel_merge_candidates", "passes-off:M",
        nums(("graph", "merge"), ("cap_per_turn", "min_size", "min_avg_w", "max_diameter")))
    add("gel-split", "gel:gel_split_candidates", "passes-off:S",
        nums(("graph", "split"), ("cap_per_turn", "weak_edge_thresh", "min_component_size")))
    add("gel-promotion", "gel:gel_promote_clusters", "passes-off:P",
        nums(("graph", "promotion"), ("cap_per_turn", "topk_label_ids", "attach_weight")))
    add("reflection", "refl:_run_reflection_if_enabled", "reflection-off",
        nums(("t3", "reflection"), ("topk_snippets", "summary_tokens")) +
        nums(("scheduler", "budgets"), ("ops_reflection", "time_ms_reflection")))
    add("hybrid", "hybrid:rerank_with_gel", "hybrid-off",
        nums(("t2", "hybrid"), ("lambda_graph", "anchor_top_m", "walk_hops", "edge_threshold", "damping", "max_bonus", "k_max")))
    add("quality-fusion", "quality:fuse", "quality-off",
        nums(("t2", "quality", "fusion"), ("alpha_semantic",)) + nums(("t2", "quality", "lexical"), ("bm25_k1", "bm25_b")))
    add("quality-mmr", "quality:maybe_apply_mmr", "mmr-off", nums(("t2", "quality", "mmr"), ("k", "lambda", "lambda_relevance", "k_final")))
    add("llm-adapter", "llm:build_llm_adapter", "backend-rulebased", nums(("t3", "llm"), ("max_tokens", "temp", "timeout_ms")))
    return out


CFG_QUICK = _cfg_sites(False)  # quick + thorough; singles only
PARTIAL_QUICK = _partial_sites(False)  # quick + thorough; singles only
PARTIAL_CLASSES += sorted({s.split("@")[0] for s in PARTIAL_QUICK} - set(PARTIAL_CLASSES))
LIVE_QUICK = _live_sites(False)  # quick + thorough; singles only


def _register_thorough_sites() -> List[str]:
    extra = []
    for k, (fn, c) in GARBAGE_EXTRA.items():
        s = "boot:garbage:%s" % k
        if s not in SITES:
            _mk_garbage(k, fn, c)
        extra.append(s)
    for k, (fn, c) in list(GARBAGE.items()):
        if k == "delta-no-baseline":
            continue
        for alt in ALT_NAMES:
            s = "boot:garbage:%s@%s" % (k, alt)
            if s not in SITES:
                _mk_garbage(k, alt, c)
            extra.append(s)
    extra.extend(s for s in _partial_sites(True) if s not in PARTIAL_QUICK)
    extra.extend(s for s in _live_sites(True) if s not in LIVE_QUICK)
    extra.extend(s for s in _cfg_sites(True) if s not in CFG_QUICK)
    return extra


# ----------------------------------------------------------------------------- one execution
def _canon(logs: Dict[str, bytes]) -> Dict[str, bytes]:
    return {k: logs.get(k, b"") for k in CANON}


def execute(scratch: str, world: str, seq: Sequence[Tuple[str, str]], plan: Sequence[Tuple[str, str]],
            modes: Optional[Sequence[int]] = None) -> Dict[str, Any]:
    """Runs the sequence on a fresh world.  modes=None: fault run (plan's raisers installed);
    modes=(i, j..): baseline run with site k switched off / idle according to SITES[k].modes[i]; an entry None
    keeps the fault of that site installed (used only to explain a failing pair by a failing single)."""
    W.reset_globals()
    if modes is None:
        modes = [None] * len(plan)
    fault_run = all(m is None for m in modes)
    env = Env(scratch, "f" if fault_run else "b")
    env.ex.activate()
    out: Dict[str, Any] = {"abort": None, "bad_result": None, "fired": env.fired, "cfg_ok": True}
    err = io.StringIO()
    try:
        sites = [SITES[s] for s, _ in plan]
        over = main_cfg(env)
        posts: List[Callable[[Any], None]] = []
        for s in sites:
            if s.cfg is not None:
                over = W.deep_merge(over, s.cfg(env))
            if s.cfg_post is not None:
                posts.append(s.cfg_post)
        for s, mi in zip(sites, modes):
            if mi is None:
                continue
            m = s.modes[mi]
            if m.cfg:
                over = W.deep_merge(over, m.cfg)
            if m.cfg_post is not None:
                posts.append(m.cfg_post)
        cfg = W.make_cfg(over, snap_dir=env.ex.snap_dir)
        for p in posts:
            p(cfg)
        if fault_run and not all((s.requires is None or s.requires(cfg)) for s in sites):
            out["cfg_ok"] = False  # the two gates cannot be open together
            return out
        env.patch(orch_pkg, "t3_deliberate", _planner)
        for (_sname, exc), s, mi in zip(plan, sites, modes):
            if mi is None:
                s.inject(env, exc)
            elif s.modes[mi].stub is not None:
                s.modes[mi].stub(env)
        state = prep_state(world)
        for h in env.state_hooks:
            h(state)
        lines = []
        with contextlib.redirect_stderr(err):
            for i, (agent, text) in enumerate(seq, start=1):
                env.begin_turn()
                ctx = W.make_ctx(cfg, agent, i)
                try:
                    res = orch_core.run_turn(ctx, state, text)
                except Exception as e:  # noqa: BLE001 - this is the observation
                    tb = traceback.extract_tb(e.__traceback__)
                    fr = [f for f in tb if "/clematis/" in f.filename]
                    loc = "%s:%d" % (os.path.basename(fr[-1].filename), fr[-1].lineno) if fr else "?"
                    out["abort"] = {"turn": i, "type": type(e).__name__, "msg": str(e)[:120], "at": loc}
                    break
                if not isinstance(res, TurnResult) or not isinstance(getattr(res, "line", None), str):
                    out["bad_result"] = {"turn": i, "got": repr(res)[:120]}
                    break
                lines.append(res.line)
        out["lines"] = lines
        out["turns"] = len(lines) + (1 if out["abort"] or out["bad_result"] else 0)
        out["logs"] = _canon(env.ex.logs())
        return out
    finally:
        env.restore()
        for root, dirs, files in os.walk(env.ex.snap_dir):
            for f in files:
                with contextlib.suppress(OSError):
                    os.chmod(os.path.join(root, f), 0o600)
        env.ex.close()


def _first_diff(a: Dict[str, bytes], b: Dict[str, bytes]) -> Tuple[str, str]:
    for k in CANON:
        if a[k] != b[k]:
            la, lb = a[k].decode("utf-8", "replace").splitlines(), b[k].decode("utf-8", "replace").splitlines()
            for i in range(max(len(la), len(lb))):
                x = la[i] if i < len(la) else "<missing>"
                y = lb[i] if i < len(lb) else "<missing>"
                if x != y:
                    try:
                        dx, dy = json.loads(x), json.loads(y)
                        keys = sorted(kk for kk in set(dx) | set(dy) if dx.get(kk, _MISSING) != dy.get(kk, _MISSING))
                        det = "; ".join("%s: %r vs %r" % (kk, dx.get(kk, "<absent>"), dy.get(kk, "<absent>"))
                                        for kk in keys[:4])
                    except Exception:
                        det = "%s vs %s" % (x[:100], y[:100])
                    return k, "%s record %d: %s" % (k, i + 1, det)
            return k, "%s differs" % k
    return "", ""


class Checker:
    """Evaluates plans; caches baseline executions per (world, seq, site/mode choice)."""

    def __init__(self, scratch: str):
        self.scratch = scratch
        self.base_cache: Dict[Any, Dict[str, bytes]] = {}
        self.turns = 0  # run_turn calls executed (fault runs + baseline runs)

    def baseline(self, world, seq, plan, modes) -> Optional[Dict[str, bytes]]:
        key = (world, tuple(map(tuple, seq)), tuple((s, m) for (s, _), m in zip(plan, modes)))
        if key not in self.base_cache:
            r = execute(self.scratch, world, seq, [(s, "-") for s, _ in plan], modes=modes)
            self.turns += r.get("turns", 0)
            if r["abort"] or r["bad_result"]:
                # a baseline that does not complete is unusable (e.g. an 'absent callable' mode the engine does
                # not support); it simply is not an admissible witness
                self.base_cache[key] = None  # type: ignore[assignment]
            else:
                self.base_cache[key] = r["logs"]
        return self.base_cache[key]

    def check(self, world, seq, plan) -> Dict[str, Any]:
        """returns {status: ok|abort|bad_result|logs|skip|outside, matched, what, fired, ...}"""
        r = execute(self.scratch, world, seq, plan)
        if not r["cfg_ok"]:
            return {"status": "skip"}
        self.turns += r.get("turns", 0)
        res: Dict[str, Any] = {"fired": dict(r["fired"]), "lines": r.get("lines")}
        sites = [SITES[s] for s, _ in plan]
        for s in sites:
            if s.precondition is not None:
                if len(sites) != 1:
                    raise HarnessError("site %s with a precondition is enumerated singly only" % s.name)
                if self.baseline(world, seq, plan, (s.precondition,)) is None:
                    # the mandatory part of the turn cannot process this world either: nothing to attribute to the optional layer
                    res.update(status="outside")
                    return res
        if r["abort"]:
            a = r["abort"]
            res.update(status="abort", what="run_turn raised %s(%s) at %s in turn %d" % (a["type"], a["msg"], a["at"], a["turn"]))
            return res
        if r["bad_result"]:
            res.update(status="bad_result", what="run_turn returned %s in turn %d" % (r["bad_result"]["got"], r["bad_result"]["turn"]))
            return res
        nearest = None
        closest = None  # the baseline that differs in the fewest canonical files (later = more specific mode wins ties)
        n_base = 0
        for modes in itertools.product(*[range(len(s.modes)) for s in sites]):
            b = self.baseline(world, seq, plan, modes)
            if b is None:
                continue
            n_base += 1
            if b == r["logs"]:
                res.update(status="ok", matched="+".join(s.modes[m].name for s, m in zip(sites, modes)), n_base=n_base)
                return res
            if nearest is None:
                nearest = (modes, b)
            n_diff = sum(1 for k in CANON if b[k] != r["logs"][k])
            if closest is None or n_diff <= closest[0]:
                closest = (n_diff, modes, b)
        if nearest is None:
            raise HarnessError("no baseline of %r completed on %s" % (plan, world))
        f, det = _first_diff(r["logs"], nearest[1])  # the signature names the file that differs from the FIRST baseline
        what = "canonical logs equal none of the %d off/idle baselines; vs baseline [%s] (faulted vs baseline) %s" % (
            n_base, "+".join(s.modes[m].name for s, m in zip(sites, nearest[0])), det)
        if closest is not None and closest[1] != nearest[0]:
            what += "; vs closest baseline [%s] %s" % ("+".join(s.modes[m].name for s, m in zip(sites, closest[1])),
                                                      _first_diff(r["logs"], closest[2])[1])
        res.update(status="logs", file=f, n_base=n_base, logs_bytes=r["logs"], what=what)
        return res


def _case(world, seq, plan) -> Dict[str, Any]:
    return {"world": world, "seq": [list(x) for x in seq], "plan": [list(x) for x in plan]}


def _sig_single(site: str, res: Dict[str, Any]) -> str:
    s = site.split("@")[0]
    if res["status"] == "abort":
        return "abort:" + s
    if res["status"] == "bad_result":
        return "no-result:" + s
    return "logs:%s:%s" % (s, res.get("file", "?"))


def judge(ck: Checker, world, seq, plan) -> Tuple[Dict[str, Any], List[Tuple[str, str]]]:
    """Oracle for one plan; violations come back as (signature, what)."""
    res = ck.check(world, seq, plan)
    if res["status"] in ("ok", "skip", "outside"):
        return res, []
    desc = "world=%s seq=%s fault=%s: %s" % (world, list(map(list, seq)), ["%s!%s" % tuple(p) for p in plan], res["what"])
    if len(plan) == 1:
        return res, [(_sig_single(plan[0][0], res), desc)]
    # pair: blame a member whose single already fails (same exception type), else the combination
    out = []
    explained = False
    for i, p in enumerate(plan):
        r1 = ck.check(world, seq, [p])
        if r1["status"] in ("ok", "skip", "outside"):
            continue
        out.append((_sig_single(p[0], r1), desc + "  [single %s!%s alone: %s]" % (p[0], p[1], r1["what"])))
        if r1["status"] != "logs" or res["status"] != "logs":
            explained = True  # an abort / missing result of a member explains the pair completely
            continue
        # the member deviates on its own: the pair is explained by it iff the pair's records equal those of a run in
        # which this member is still faulted and the OTHER member is switched off / idle
        q = SITES[plan[1 - i][0]]
        for mq in range(len(q.modes)):
            modes = [None, None]
            modes[1 - i] = mq
            r2 = execute(ck.scratch, world, seq, plan, modes=modes)
            ck.turns += r2.get("turns", 0)
            if not (r2["abort"] or r2["bad_result"]) and r2["logs"] == res["logs_bytes"]:
                explained = True
                break
    if not explained:
        a, b = sorted(s.split("@")[0] for s, _ in plan)
        out.append(("pair:%s+%s:%s" % (a, b, res["status"]), desc))
    return res, out


# ----------------------------------------------------------------------------- enumeration
SEQ_QUICK = [(("A", "apple"), ("B", "pear fig")), (("A", "apple"), ("A", "apple"))]
SEQ_PAIRS_THOROUGH = SEQ_QUICK + [(("B", "zzz"), ("A", "pear fig")), (("B", "pear fig"), ("B", "apple"))]


def seqs_for(thorough: bool):
    if not thorough:
        return SEQ_QUICK
    opts = [(a, t) for a in W.AGENTS for t in W.TEXTS]
    picked = [s for s in itertools.product(opts, opts)]
    # 2-turn sequences over {A,B} x {apple, pear fig, zzz}: all 36
    return picked


def _live(site: str, world: str) -> bool:
    w = SITES[site].worlds
    return w is None or world in w


def _worker(chunk, st: Stats, scratch_root: str, excs: List[str], pair_excs: List[str], shaped_seqs: List[Any]):
    logging.disable(logging.CRITICAL)
    scratch = os.path.join(scratch_root, "w%d" % os.getpid())
    os.makedirs(scratch, exist_ok=True)
    ck = Checker(scratch)
    best: Dict[str, Tuple[str, str, Any]] = {}
    try:
        for world, seq, sites in chunk:
            types = excs if len(sites) == 1 else pair_excs
            if len(sites) == 1 and list(map(list, seq)) not in shaped_seqs:
                types = [t for t in excs if "(" not in t]  # the instance-shape dimension is crossed with the shaped sequences only
            if not any(SITES[s].typed for s in sites):
                types = ["-"]
            for exc in types:
                plan = [(s, exc if SITES[s].typed else "-") for s in sites]
                res, viols = judge(ck, world, seq, plan)
                if res["status"] == "skip":
                    st.add("plans_gates_exclusive")
                    break
                if res["status"] == "outside":
                    st.add("plans_outside_property")
                    st.distinct("outcomes", ["outside"])
                    continue
                st.add("validated")
                st.add("plans_single" if len(sites) == 1 else "plans_pair")
                st.distinct("states", [world, list(seq), plan])
                fired = res.get("fired", {})
                all_fired = all(fired.get(s, 0) > 0 for s in sites)
                for s in sites:
                    if fired.get(s, 0) > 0:
                        st.distinct("sites_fired", s.split("@")[0])
                if all_fired:
                    st.distinct("nontrivial", [world, list(seq), plan])
                else:
                    st.add("plans_with_unfired_fault")
                st.distinct("outcomes", [res["status"], res.get("matched"), all_fired])
                for sig, what in viols:
                    # deterministic witness: lowest rank (singles first, then enumeration order) per signature;
                    # handed to the parent through notes because Stats.violation breaks ties by arrival order
                    rank = json.dumps([len(plan), len(json.dumps(_case(world, seq, plan))), world, seq, plan])
                    if sig not in best or rank < best[sig][0]:
                        best[sig] = (rank, what, _case(world, seq, plan))
        st.add("baseline_runs", len(ck.base_cache))
        st.add("transitions", ck.turns)  # every run_turn call executed (fault runs and baseline runs)
        for sig, (rank, what, case) in best.items():
            st.notes["_viol|%s|%s" % (sig, rank)] = [sig, rank, what, case]
    finally:
        shutil.rmtree(scratch, ignore_errors=True)


def _selfcheck(run: Run) -> None:
    """first execution twice: the harness must be deterministic; undisturbed run must complete."""
    logging.disable(logging.CRITICAL)
    a = execute(run.scratch, "W2b", SEQ_QUICK[0], [])
    b = execute(run.scratch, "W2b", SEQ_QUICK[0], [])
    if a["abort"] or a["bad_result"]:
        raise HarnessError("undisturbed run does not complete: %r" % (a["abort"] or a["bad_result"],))
    if a["logs"] != b["logs"]:
        raise HarnessError("harness nondeterministic: %s" % (_first_diff(a["logs"], b["logs"])[1],))
    for f in CANON:
        if not a["logs"][f]:
            raise HarnessError("canonical log %s empty in the undisturbed run" % f)
    if b'"applied": 0' in a["logs"]["apply.jsonl"].splitlines()[0]:
        raise HarnessError("scripted planner / store no longer produce applied deltas (store sites would be vacuous)")
    # live-world leg: on the CLEAN static graph the rerank must engage, otherwise corrupt entries could not matter
    SITES["live:selfcheck"] = Site("live:selfcheck", lambda env, exc: None, [Mode("clean-graph", stub=_install_graph(lambda: _live_graph({e["id"]: dict(e) for e in _LIVE_EDGES})))],
                                   "-", cfg=lambda env: _LIVE_CFG, typed=False)
    try:
        for w in LIVE_WORLDS:
            c = execute(run.scratch, w, SEQ_QUICK[0], [("live:selfcheck", "-")], modes=[0])
            if c["abort"] or c["bad_result"]:
                raise HarnessError("live-world leg: clean static graph run does not complete on %s: %r" % (w, c["abort"] or c["bad_result"]))
            if b'"hybrid_used": true' not in c["logs"]["t2.jsonl"]:
                raise HarnessError("live-world leg: hybrid rerank does not engage on the clean static graph of %s (leg would be vacuous)" % w)
    finally:
        SITES.pop("live:selfcheck", None)
    logging.disable(logging.NOTSET)


def run(run: Run) -> None:
    _selfcheck(run)
    names = list(BASE_SITE_NAMES)
    extra_names = _register_thorough_sites() if run.thorough else []
    excs = exc_tokens(run.thorough)
    pair_excs = (EXC_BASE + ["RuntimeError()"]) if run.thorough else ["RuntimeError"]
    seqs = seqs_for(run.thorough)
    # exception instance shapes other than the text-carrying one: on every quick sequence; thorough: on the pair sequences (4 of 36)
    shaped_seqs = [[list(x) for x in sq] for sq in (SEQ_PAIRS_THOROUGH if run.thorough else SEQ_QUICK)]
    items = []
    for world in WORLDS:
        for seq in seqs:
            for s in names + PARTIAL_QUICK + LIVE_QUICK + CFG_QUICK + extra_names:
                if s.startswith(CFG_CLASS + ":") and list(map(list, seq)) not in shaped_seqs:
                    continue  # unusable-parameter leg: on the shaped sequences (quick: all; thorough: the 4 pair sequences)
                if _live(s, world):
                    items.append((world, seq, (s,)))
    # pairs: every unordered pair of base sites
    if run.thorough:
        pair_plan = [(w, sq, False) for w in WORLDS for sq in SEQ_PAIRS_THOROUGH]
    else:
        # W1 and W2b: all pairs; fresh W2 differs from W2b only in that the boot hook runs -> pairs with a boot site
        pair_plan = [("W1", SEQ_QUICK[0], False), ("W2b", SEQ_QUICK[0], False), ("W2", SEQ_QUICK[1], True)]
    pair_seqs = sorted({sq for _w, sq, _b in pair_plan})
    for world, seq, boot_only in pair_plan:
        for a, b in itertools.combinations(names, 2):
            if not (_live(a, world) and _live(b, world)):
                continue
            if boot_only and not (a.startswith("boot:") or b.startswith("boot:")):
                continue
            items.append((world, seq, (a, b)))
    run.notes["sites"] = {s: SITES[s].where for s in names}
    run.notes["sites"]["t3trace:emit_trace (direct call, gate unreachable through run_turn)"] = \
        "stages/t3/trace.emit_trace: try: logs.append({...}) except Exception: pass"
    for cls in PARTIAL_CLASSES:
        run.notes["sites"][cls + " (partially corrupt snapshot files, singles only)"] = SITES[PARTIAL_QUICK[0]].where
    for cls in sorted({s.split("@")[0] for s in CFG_QUICK}):
        run.notes["sites"][cls + " (unusable values of the subsystem's own parameters, unvalidated context, singles only)"] = SITES[
            [s for s in CFG_QUICK if s.startswith(cls + "@")][0]].where
    run.notes["sites"][LIVE_CLASS + " (unreadable entries in the live GEL graph the hybrid rerank reads, GEL maintenance off, singles only)"] = \
        SITES[LIVE_QUICK[0]].where
    run.notes["n_sites"] = len(names)
    run.notes["n_live_world_sites"] = len(LIVE_QUICK) + len([s for s in extra_names if s.startswith(LIVE_CLASS + "@")])
    run.notes["live_world_alphabet"] = {
        "worlds": list(LIVE_WORLDS), "config": "main config with graph.enabled=false (static graph), t2.hybrid.enabled=true",
        "edges": [e["id"] for e in _LIVE_EDGES],
        "kinds": sorted({s.split("@")[1].split(",")[0] for s in LIVE_QUICK + extra_names if s.startswith(LIVE_CLASS + "@")}),
        "position_j": "which of the %d edges is the corrupt one" % len(_LIVE_EDGES)}
    cfg_all = CFG_QUICK + [s for s in extra_names if s.startswith(CFG_CLASS + ":")]
    run.notes["n_unusable_parameter_sites"] = len(cfg_all)
    run.notes["unusable_parameter_alphabet"] = {
        "values": {t: sorted(v) for t, v in _CFG_VALUES.items()},
        "parameters": sorted({s.split("@")[1].rsplit("=", 1)[0] for s in cfg_all}),
        "subsystems": sorted({s.split("@")[0] for s in cfg_all}),
        "installed": "after configs.validate (a context built without validation), in the fault run and its off / idle baselines alike",
        "sequences": len(shaped_seqs)}
    run.notes["result_tokens"] = {"=None": "the optional callable does nothing and returns None",
                                  "=object": "... returns an opaque object that supports no protocol"}
    run.notes["exception_shapes"] = {"Name": "one text argument (OSError family: errno, text)", "Name()": "no arguments (bare raise)",
                                     "Name(7)": "one non-text argument", "Name(m,d)": "two arguments (text, dict)"}
    run.notes["n_extra_garbage_sites"] = len(extra_names)
    run.notes["n_partial_snapshot_sites"] = len(PARTIAL_QUICK) + len([s for s in extra_names if s.startswith("boot:partial:")])
    run.notes["partial_snapshot_alphabet"] = {
        "sections": PARTIAL_CLASSES, "shapes": ["bare", "full"],
        "store.weights entry kinds": sorted({s.split("@")[1].split(",")[0] for s in PARTIAL_QUICK + extra_names
                                             if s.startswith("boot:partial:store.weights@")}),
        "gel.edges entry kinds": sorted({s.split("@")[1].split(",")[0] for s in PARTIAL_QUICK + extra_names
                                         if s.startswith("boot:partial:gel.edges@")}),
        "gel.edges field kinds (otherwise well-formed record)": sorted({s.split("@")[0].rsplit(".", 1)[1] + "-" + s.split("@")[1].split(",")[0]
                                                                        for s in PARTIAL_QUICK + extra_names if s.startswith("boot:partial:gel.edges.")}),
        "version_etag value kinds": sorted({s.split("@")[1].split(",")[0] for s in PARTIAL_QUICK + extra_names
                                            if s.startswith("boot:partial:version_etag@")}),
        "position_k": "0..%d valid entries before the corrupt one (store.weights), 0..%d (gel.edges)" % (
            len(_VALID_W), len(_VALID_GEL_EDGES)),
        "live_weights_at_boot": {"W1": 0, "W2": len(LIVE_W)}}
    run.notes["exception_types_singles"] = excs
    run.notes["n_sequences_singles_with_every_instance_shape"] = len(shaped_seqs)
    run.notes["exception_types_pairs"] = pair_excs
    run.notes["worlds"] = WORLDS
    run.notes["n_sequences_singles"] = len(seqs)
    run.notes["n_sequences_pairs"] = len(pair_seqs)
    run.notes["pair_plan"] = [[w, [list(x) for x in sq], "pairs with a boot site only" if b else "all pairs"]
                              for w, sq, b in pair_plan]
    run.notes["unreadable_perms_enforced"] = (os.geteuid() != 0)
    run.rule = ("fault plan = (world in {W1,W2 fresh boot; W2b booted+GEL}, 2-turn sequence, 1 or 2 declared fail-soft sites, "
                "exception type); singles: every site x every type; pairs: every unordered site pair whose gates can be open "
                "together x type(s); fault active in both turns; boot files: whole-file garbage kinds (singles and pairs) and "
                "partially corrupt snapshots = section in {store.weights, gel.edges} x corruption kind x position k of the corrupt "
                "entry x shape {bare, full} (singles), and for gel.edges also per-field corruption of an otherwise well-formed record "
                "(field in {attrs, updated_at, src, rel, id} x JSON value of the wrong kind x k x shape; quick: attrs-null and updated_at-list at k=1, full), "
                "and per-value corruption of the scalar header field version_etag (value class in {letters, empty, blank, sign only, fraction, exponent, hex, "
                "digit characters that are not decimal digits, NUL-terminated, bool, float, list, object} x shape; quick: letters, empty, two non-decimal digit "
                "characters, list); live-world corruption (singles, booted worlds, GEL maintenance off, hybrid rerank on) = "
                "which edge of state['graph'] is corrupt x kind {weight not a number, record not a mapping} + edges / graph section not a mapping; "
                "exception type = class x instance shape {text argument, no arguments, non-text argument, two arguments} "
                "(shapes other than the first: on coverage.n_sequences_singles_with_every_instance_shape of the sequences); "
                "failure position inside a declared region: at the call (exception tokens) / while the engine consumes the result: the callable "
                "of every typed site returns None or an opaque object instead of raising (result tokens, singles, every sequence) / while the "
                "region reads its own inputs: optional subsystem x each numeric or list parameter of its configuration x unusable JSON value "
                "{null, text, list | null, number} installed after validation (singles, same sequences as the instance shapes; gate-closed run must complete); "
                "non-trivial = every installed fault was actually reached "
                "(raiser / returner called / garbage file picked by the boot loader / rerank layer entered with the corrupt graph in place / "
                "unusable parameter installed with the subsystem's gate open)")
    run.pmap(_worker, items, extra=(run.scratch, excs, pair_excs, shaped_seqs), chunks=None)
    cands: Dict[str, Tuple[str, str, Any]] = {}
    for k in [k for k in run.notes if k.startswith("_viol|")]:
        sig, rank, what, case = run.notes.pop(k)
        if sig not in cands or rank < cands[sig][0]:
            cands[sig] = (rank, what, case)
    for sig, (_rank, what, case) in sorted(cands.items()):
        run.violation(sig, what, case)
    micro_t3_trace(run, excs)
    # a few concrete cases for the evidence file (evaluated here so that the selection does not depend on worker timing)
    logging.disable(logging.CRITICAL)
    ck = Checker(run.scratch)
    for world, seq, plan in (
            ("W2", SEQ_QUICK[0], [("boot:garbage:array", "-")]),
            ("W2b", SEQ_QUICK[0], [("gel:gel_apply_promotion", "KeyError")]),
            ("W1", SEQ_QUICK[1], [("store:apply_deltas:all", "OSError")]),
            ("W2b", SEQ_QUICK[0], [("refl:reflect", "TypeError")]),
            ("W1", SEQ_QUICK[0], [("llm:build_llm_adapter", "RuntimeError"), ("sidecar:atomic_write_text", "RuntimeError")]),
            ("W2", SEQ_QUICK[1], [("boot:load_latest_snapshot", "C20Fault"), ("hybrid:rerank_with_gel", "C20Fault")])):
        res = ck.check(world, seq, plan)
        run.sample({"world": world, "seq": [list(x) for x in seq], "plan": [list(p) for p in plan],
                    "status": res["status"], "matched_baseline": res.get("matched"), "fault_fired": res.get("fired")})
    logging.disable(logging.NOTSET)
    fired = run.sets.get("sites_fired", set())
    from mc.runner import h64
    never = [s for s in names + PARTIAL_CLASSES + [LIVE_CLASS, "t3trace:emit_trace"] + sorted({c.split("@")[0] for c in CFG_QUICK}) if h64(s.split("@")[0]) not in fired]
    run.notes["sites_never_reached"] = never
    if never and not run.viol:  # with violations present an early abort may legitimately hide later sites
        raise HarnessError("fault never reached at declared site(s) %s - seam rotted or gate not open" % never)
    run.assume("declared fail-soft sites = the try/except-guarded or 'never raises'-documented calls listed in coverage.sites; "
               "gel_observe/gel_tick, the main snapshot write, stage functions and log writers are not declared optional and are not injected")
    run.assume("a failure is an Exception subclass raised by the optional callable (BaseException-only types such as KeyboardInterrupt are not failures of a subsystem); "
               "exception instances are constructed in the shapes listed in coverage.exception_shapes (exceptions whose own __str__/__repr__ raise are not enumerated)")
    run.assume("live-world corruption is judged only where the run with t2.hybrid switched off on the same corrupt world completes (then no mandatory stage depends on the "
               "corrupt entries; otherwise the plan is counted as plans_outside_property); GEL maintenance (graph.enabled) is off in this leg because gel_tick/gel_observe "
               "are not declared optional and read the same graph; admissible behaviours: layer off / rerank identity / corrupt entries absent / corrupt weight read as 0.0 / section empty")
    run.assume("a subsystem that hands back an unusable result (None / an object supporting no protocol) has failed; results that can be consumed (a wrong count, "
               "a wrong list) are not failures and are not enumerated; where the engine never looks at the result the callable was simply idle (idle baseline)")
    run.assume("unusable parameters: contexts may be built without configs.validate, so a numeric / list parameter of an optional subsystem can arrive as null or as a "
               "JSON value of the wrong kind; judged only where the run with that subsystem's gate closed under the same configuration completes (otherwise "
               "plans_outside_property); text / bool parameters and the gates themselves are not corrupted (every JSON value is usable there); admissible behaviours: "
               "gate closed / subsystem idle / parameter at its validated value / parameter absent")
    run.assume("injected callables fail cleanly: the replaced callable raises before doing any work; a half-finished optional operation is "
               "modelled only for the boot loader, through snapshot files that are valid up to an entry and corrupt there (store.weights, gel.edges)")
    run.assume("partially corrupt snapshot: admissible behaviours are the failing unit idle at file, section or entry granularity "
               "(whole file ignored / corrupt section ignored / corrupt entries skipped, each as the implementation itself behaves on the cleaned file); "
               "keeping an arbitrary prefix of a section, or altering live state while the section is rejected, is none of them")
    run.assume("a version_etag that is not integer text is corrupt; admissible behaviours: file ignored / the field treated as absent / the field read as a valid etag "
               "(each as the implementation itself behaves on the cleaned file); values Python's int() reads as an integer (surrounding blanks, sign, "
               "decimal digits of other scripts, very long digit strings) are numeric etags and are not enumerated")
    run.assume("a foreign JSON object that carries version_etag is a snapshot by definition and is not garbage (its well-formed sections may be loaded); "
               + ("running as root: chmod 000 does not prevent reading, the 'unreadable' kind degenerates to non-JSON bytes" if os.geteuid() == 0 else "unreadable = chmod 000"))
    run.assume("the T3 prompt trace (stages/t3/trace.emit_trace) cannot be switched on through run_turn (the dialogue bundle it receives has no cfg, "
               "and the validator does not know its gate keys); its guard is exercised by calling emit_trace directly with the gate open");
    run.assume("LLM backend and quality shadow trace gates are opened only for plans containing their sites (shadow trace and fusion/MMR are mutually exclusive gates; such pairs are counted as plans_gates_exclusive)")
    run.assume("store = in-memory graph store extended with an additive weight map that understands ProposedDelta (the stock InMemoryGraphStore.apply_deltas rejects ProposedDelta, i.e. is itself a permanently failing store); planner = rule-based plan + scripted dyadic deltas + reflection flag via the orchestrator.t3_deliberate seam")


def replay(case):
    logging.disable(logging.CRITICAL)
    if case.get("micro") == "t3trace":
        _f, viol = micro_t3_trace_one(case["exc"], case["where"])
        return [viol] if viol else []
    for s, _ in case["plan"]:
        if s not in SITES:
            _register_thorough_sites()
        if s not in SITES:
            raise HarnessError("replay: unknown site %s" % s)
    d = tempfile.mkdtemp(prefix="c20r-", dir="/dev/shm" if os.path.isdir("/dev/shm") else None)
    try:
        ck = Checker(d)
        seq = tuple(tuple(x) for x in case["seq"])
        plan = [tuple(p) for p in case["plan"]]
        _res, viols = judge(ck, case["world"], seq, plan)
        return viols
    finally:
        shutil.rmtree(d, ignore_errors=True)
