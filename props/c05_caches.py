"""C05 — caches are transparent: a hit equals a fresh computation.

Engine E1: every history (<= d operations, last one a turn) over the alphabet below is executed twice on fresh
worlds in the same process: once with the caches of the chosen cache configuration ON (process-global T1/T2 stage
caches, turn-level version-keyed manager), once with every cache disabled.  The (T1Result, T2Result) pair the
orchestrator hands to planning is captured at the `make_plan_bundle` seam in every turn and compared, apart from
the documented cache diagnostics.  Failing histories are minimised (no proper sub-history fails) and classified by
the cache layer that served the stale value (found by disabling one layer at a time).

Alphabet: turn(agent in {A,B}, text in {apple, pear fig}) | relabel node | upsert edge (same id, new weight) |
upsert edge (same id, redirected) | add edge | add episode(owner A|B) | toggle kill switch | config change
(k_retrieval, sim_threshold, ranking, owner_scope, exact_recent_days, t1.radius_cap, tiers) | cache clock += ttl+1
| logical day += 40 | switch to an independent second state with the same graph ids / sizes.
"""
from __future__ import annotations

import copy
import itertools
import json
import os
import shutil

import numpy as np

from mc.runner import Run, Stats, HarnessError
from mc import world as W

from clematis.engine.cache import CacheManager, LRUCache, ThreadSafeCache
import clematis.engine.orchestrator as orch_pkg
from clematis.engine.orchestrator import core as orch_core
from clematis.engine.stages import t1 as t1_mod
from clematis.engine.stages.t2 import cache as t2c_mod
from clematis.engine.types import Node, Edge

if not hasattr(orch_core, "make_plan_bundle"):
    raise HarnessError("seam missing: orchestrator.core.make_plan_bundle")

# ------------------------------------------------------------------ alphabet
TURNS = [("T", a, x) for a in ("A", "B") for x in ("apple", "pear fig")]
EDITS = [("RELABEL",), ("EDGE_W",), ("EDGE_DST",), ("EDGE_NEW",), ("EP", "A"), ("EP", "B")]
CFGS = [("CFG", "k1"), ("CFG", "thr"), ("CFG", "rank"), ("CFG", "owner"), ("CFG", "days"), ("CFG", "radius"),
        ("CFG", "tiers"), ("CFG", "tiers_rev")]
MISC = [("KILL",), ("CLK",), ("DAY",), ("HALFDAY",), ("SWITCH",), ("SCHED",)]
OPS = TURNS + EDITS + CFGS + MISC

CFG_CHANGES = {
    "k1": {"t2": {"k_retrieval": 1}},
    "thr": {"t2": {"sim_threshold": 0.9}},
    "rank": {"t2": {"ranking": {"alpha_sim": 0.0, "beta_recency": 0.0, "gamma_importance": 1.0}}},
    "owner": {"t2": {"owner_scope": "agent"}},
    "days": {"t2": {"exact_recent_days": 1}},
    "radius": {"t1": {"radius_cap": 0}},
    "tiers": {"t2": {"tiers": ["archive"]}},
    "tiers_rev": {"t2": {"tiers": ["archive", "cluster_semantic", "exact_semantic"]}},
}

# scheduler slice with a tight layer budget (time budgets out of reach): every seeded turn yields at the T1 boundary,
# its T1 result is still observed; toggled on/off by the SCHED operation
SCHED_ON = {"scheduler": {"enabled": True, "quantum_ms": 10 ** 9, "budgets": {"wall_ms": 10 ** 9, "t1_iters": 1, "t2_k": 64, "t3_ops": 8}}}

CACHE_CONFIGS = {
    # name -> (config with caches on, which layers exist)
    "lru_ttl": {},
    "bytes": {"perf": {"enabled": True, "t1": {"cache": {"max_entries": 8, "max_bytes": 100000}},
                       "t2": {"cache": {"max_entries": 8, "max_bytes": 1000000}}}},
    "turnlevel_only": {"t1": {"cache": {"enabled": False}}, "t2": {"cache": {"enabled": False}}},
}
OFF = {"t1": {"cache": {"enabled": False}}, "t2": {"cache": {"enabled": False}}, "t4": {"cache": {"enabled": False}}}
LAYER_OFF = {
    "t1": {"t1": {"cache": {"enabled": False}}, "perf": {"t1": {"cache": {"max_entries": 0, "max_bytes": 0}}}},
    "t2stage": {"t2": {"cache": {"enabled": False}}, "perf": {"t2": {"cache": {"max_entries": 0, "max_bytes": 0}}}},
    "turnlevel": {"t4": {"cache": {"enabled": False}}},
}


def off_cfg(base):
    o = W.deep_merge(base, OFF)
    if "perf" in base:
        o = W.deep_merge(o, {"perf": {"t1": {"cache": {"max_entries": 0, "max_bytes": 0}},
                                      "t2": {"cache": {"max_entries": 0, "max_bytes": 0}}}})
    return o


class FakeClock:
    def __init__(self):
        self.t = 1000.0

    def time(self):
        return self.t


def world_b():
    """Independent second state: same graph id, same node/edge/episode counts, different content."""
    st = W.make_world("W0")
    W._graph(st["store"], "g1",
             [("n1", "apple"), ("n2", "pear"), ("n3", "fig")],
             [("e1", "n1", "n3", 0.9, "supports"), ("e2", "n2", "n3", 0.7, "supports")])
    W._graph(st["store"], "g2", [("m1", "plum"), ("m2", "apple"), ("m3", "fig")],
             [("f1", "m2", "m3", 1.0, "supports"), ("f2", "m3", "m1", 0.5, "supports"), ("f3", "m1", "m1", 0.5, "supports")])
    W._graph(st["store"], "g3", [("k1", "pear"), ("k2", "quince")], [("h1", "k2", "k1", 0.5, "supports")])
    st["active_graphs"] = ["g1", "g2", "g3"]
    for e in (W._ep("ep1", "B", "fig tart", 1, "c1", 0.2),
              W._ep("ep2", "A", "pear pear", 2, "c2", 0.9),
              W._ep("ep3", "A", "apple fig crumble", 3, "c1", 0.5),
              W._ep("ep4", "world", "plum", 50, None, None),
              W._ep("ep5", "A", "apple", 4, "c3", 0.1),
              W._ep("ep6", "B", "pear apple", 6, "c3", 0.7),
              W._ep("ep7", "world", "fig fig", 45, None, None)):
        st["mem_index"].add(e)
    return st


_CFG_MEMO = {}


def cfg_for(over, snap_dir):
    k = json.dumps(over, sort_keys=True) + snap_dir
    c = _CFG_MEMO.get(k)
    if c is None:
        if len(_CFG_MEMO) > 4000:
            _CFG_MEMO.clear()
        c = _CFG_MEMO[k] = W.make_cfg(over, snap_dir=snap_dir)
    return c


def _t1_obs(t1):
    m = dict(getattr(t1, "metrics", {}) or {})
    for k in ("cache_hits", "cache_misses", "cache_used", "cache_enabled", "max_delta", "t1.cache_evictions", "t1.cache_bytes"):
        m.pop(k, None)
    return {"deltas": list(getattr(t1, "graph_deltas", []) or []), "metrics": m}


def _t2_obs(t2):
    m = dict(getattr(t2, "metrics", {}) or {})
    for k in list(m):
        if k.startswith("cache_") or k.startswith("t2.cache"):
            m.pop(k)
    items = [(str(getattr(r, "id", None)), round(float(getattr(r, "score", 0.0)), 9)) for r in (getattr(t2, "retrieved", []) or [])]
    return {"items": items, "residual": list(getattr(t2, "graph_deltas_residual", []) or []), "metrics": m}


def execute(history, cache_cfg, caches_on, scratch, extra_off=None):
    """Runs one history; returns list of per-turn observations."""
    W.reset_globals()
    ex = W.Exec(scratch, "c05")
    ex.activate()
    fake = FakeClock()
    base = copy.deepcopy(CACHE_CONFIGS[cache_cfg])
    if not caches_on:
        base = off_cfg(base)
    if extra_off:
        base = W.deep_merge(base, extra_off)
        if "perf" not in CACHE_CONFIGS[cache_cfg]:
            base.pop("perf", None)
    dyn = {}
    states = [W.make_world("W2"), world_b()]   # W2: three graphs, two of them match "apple" (per-graph cache entries)
    for s in states:
        s["_boot_loaded"] = True
    cur = 0
    kill = False
    sched = False
    day = 0.0
    obs = []
    captured = {}
    real_mpb = orch_core.make_plan_bundle
    had_t1 = "t1_propagate" in vars(orch_pkg)
    old_t1 = vars(orch_pkg).get("t1_propagate")
    real_t1 = t1_mod.t1_propagate

    def spy(ctx, state, t1, t2):
        captured["t1"], captured["t2"] = t1, t2
        return real_mpb(ctx, state, t1, t2)

    def spy_t1(ctx, state, text):
        r = real_t1(ctx, state, text)
        captured["t1"] = r
        return r

    orch_core.make_plan_bundle = spy
    orch_pkg.t1_propagate = spy_t1
    try:
        # inject clocks where the configuration builds TTL caches
        c0 = cfg_for(base, ex.snap_dir)
        t1c = c0.get("t1", {}).get("cache", {}) or {}
        t2c = c0.get("t2", {}).get("cache", {}) or {}
        perf_on = bool((c0.get("perf") or {}).get("enabled", False))
        if not perf_on:
            if bool(t1c.get("enabled", True)):
                me, ttl = int(t1c.get("max_entries", 512)), int(t1c.get("ttl_s", 300))
                t1_mod._T1_CACHE = ThreadSafeCache(LRUCache(max_entries=me, ttl_s=ttl, time_fn=fake.time))
                t1_mod._T1_CACHE_CFG = ("lru", me, ttl)
                t1_mod._T1_CACHE_KIND = "lru"
            if bool(t2c.get("enabled", True)):
                me, ttl = int(t2c.get("max_entries", 512)), int(t2c.get("ttl_s", 300))
                t2c_mod._T2_CACHE = ThreadSafeCache(LRUCache(max_entries=me, ttl_s=ttl, time_fn=fake.time))
                t2c_mod._T2_CACHE_CFG = ("lru", me, ttl)
                t2c_mod._T2_CACHE_KIND = "lru"
        t4c = (c0.get("t4", {}) or {}).get("cache", {}) or {}
        if bool(t4c.get("enabled", True)):
            for s in states:
                s["_cache_mgr"] = CacheManager(max_entries=int(t4c.get("max_entries", 512)),
                                               ttl_sec=int(t4c.get("ttl_sec", 600)), time_fn=fake.time)
        turn = 0
        for op in history:
            kind = op[0]
            st = states[cur]
            if kind == "T":
                turn += 1
                over = W.deep_merge(base, dyn)
                if kill:
                    over = W.deep_merge(over, {"t4": {"enabled": False}})
                if sched:
                    over = W.deep_merge(over, SCHED_ON)
                cfg = cfg_for(over, ex.snap_dir)
                now = W._ts(-day)
                ctx = W.make_ctx(cfg, op[1], turn, now=now)
                captured.clear()
                res = orch_core.run_turn(ctx, st, op[2])
                if "t1" not in captured:
                    raise HarnessError("t1 seam not reached")
                # a turn that yields at the T1 boundary never computes T2: observed as None in both twin runs
                o = {"t1": _t1_obs(captured["t1"]), "t2": (_t2_obs(captured["t2"]) if "t2" in captured else None), "line": res.line}
                # owner-scope invariant (independent of the twin run)
                if o["t2"] is not None and str(cfg.get("t2", {}).get("owner_scope", "any")) == "agent":
                    owners = {str(e["id"]): e.get("owner") for e in st["mem_index"]._eps}
                    o["leak"] = sorted(i for i, _ in o["t2"]["items"] if owners.get(i) != op[1])
                obs.append(o)
            elif kind == "RELABEL":
                g = st["store"].get_graph("g1")
                n = g.nodes["n3"]
                st["store"].upsert_nodes("g1", [Node(id="n3", label="plum" if n.label != "plum" else "fig")])
            elif kind == "EDGE_W":
                e = st["store"].get_graph("g1").edges["e1"]
                st["store"].upsert_edges("g1", [Edge(id="e1", src=e.src, dst=e.dst, weight=(0.0 if e.weight > 0.01 else 0.8), rel=e.rel)])
            elif kind == "EDGE_DST":
                e = st["store"].get_graph("g1").edges["e2"]
                st["store"].upsert_edges("g1", [Edge(id="e2", src="n1", dst=("n3" if e.dst != "n3" or e.src != "n1" else "n2"), weight=1.0, rel="supports")])
            elif kind == "EDGE_NEW":
                k = len(st["store"].get_graph("g1").edges) + 1
                st["store"].upsert_edges("g1", [Edge(id="x%d" % k, src="n3", dst="n1", weight=1.0, rel="supports")])
            elif kind == "EP":
                k = len(st["mem_index"]._eps) + 1
                st["mem_index"].add(W._ep("new%d" % k, op[1], "apple pear fig", 0.5, "c1", 1.0))
            elif kind == "CFG":
                ch = CFG_CHANGES[op[1]]
                dyn = W.deep_merge(dyn, ch)
            elif kind == "KILL":
                kill = not kill
            elif kind == "CLK":
                fake.t += 601.0
            elif kind == "DAY":
                day += 40
            elif kind == "HALFDAY":
                day += 0.5 if (day % 1.0) == 0.0 else -0.5
            elif kind == "SCHED":
                sched = not sched
            elif kind == "SWITCH":
                cur = 1 - cur
            else:
                raise HarnessError("unknown op %r" % (op,))
        return obs
    finally:
        orch_core.make_plan_bundle = real_mpb
        if had_t1:
            orch_pkg.t1_propagate = old_t1
        else:
            try:
                delattr(orch_pkg, "t1_propagate")
            except Exception:
                pass
        ex.close()


def _first_diff(a, b):
    for j, (x, y) in enumerate(zip(a, b)):
        for part in ("t1", "t2", "line"):
            if W.jd(x[part]) != W.jd(y[part]):
                return j, part
    return None


def fails(history, cache_cfg, scratch, extra_off=None):
    on = execute(history, cache_cfg, True, scratch, extra_off=extra_off)
    off = execute(history, cache_cfg, False, scratch)
    d = _first_diff(on, off)
    leak = [j for j, o in enumerate(on) if o.get("leak")]
    return d, leak, on, off


def classify(history, cache_cfg, scratch):
    """(signature, what) for a failing, already minimal history."""
    d, leak, on, off = fails(history, cache_cfg, scratch)
    layers = []
    for layer, over in LAYER_OFF.items():
        d2, leak2, _, _ = fails(history, cache_cfg, scratch, extra_off=over)
        if d2 is None and not leak2:
            layers.append(layer)
    layer = "+".join(layers) if layers else "multi"
    kinds = []
    agents = [op[1] for op in history if op[0] == "T"]
    texts = [op[2] for op in history if op[0] == "T"]
    for op in history:
        if op[0] == "T":
            continue
        kinds.append(op[0] if op[0] not in ("CFG", "EP") else "%s(%s)" % (op[0], op[1]))
    if len(set(agents)) > 1:
        kinds.append("agent_switch")
    if len(set(texts)) > 1:
        kinds.append("text_change")
    sig = "%s:%s" % (layer, "+".join(kinds) if kinds else "repeat")
    if leak:
        sig += ":owner-leak"
    j, part = d if d else (leak[0], "t2")
    what = "cache config %s, history %s: turn %d %s with caches on = %s, with caches off = %s" % (
        cache_cfg, json.dumps(history), j + 1, part, W.jd(on[j][part])[:300], W.jd(off[j][part])[:300])
    return sig, what


def is_minimal(history, cache_cfg, scratch):
    """No proper sub-history fails, and neither does the variant with one agent / one text throughout
    (those variants are in the enumeration themselves and are reported there)."""
    cands = []
    for i in range(len(history)):
        sub = history[:i] + history[i + 1:]
        if sub and sub[-1][0] == "T" and sum(1 for o in sub if o[0] == "T") >= 2:
            cands.append(sub)
    turns = [o for o in history if o[0] == "T"]
    if len({o[1] for o in turns}) > 1:
        for a in ("A", "B"):
            cands.append([([o[0], a, o[2]] if o[0] == "T" else o) for o in history])
    if len({o[2] for o in turns}) > 1:
        for x in sorted({o[2] for o in turns}):
            cands.append([([o[0], o[1], x] if o[0] == "T" else o) for o in history])
    for sub in cands:
        d, leak, _, _ = fails(sub, cache_cfg, scratch)
        if d is not None or leak:
            return False
    return True


def _worker(chunk, st: Stats, scratch):
    import logging
    logging.disable(logging.CRITICAL)
    for cache_cfg, history in chunk:
        history = [list(o) for o in history]
        d, leak, on, off = fails(history, cache_cfg, scratch)
        nt = sum(1 for o in history if o[0] == "T")
        st.add("transitions", 2 * len(history))
        st.add("validated", nt)
        st.add("histories")
        st.distinct("states", (cache_cfg, W.jd(on[-1]["t1"]), W.jd(on[-1]["t2"])))
        if on[-1]["t2"] is None:
            st.add("turns_yielded_at_t1")
        if nt >= 2:
            st.add("nontrivial")
        if d is None and not leak:
            st.distinct("outcomes", ("ok", cache_cfg, W.jd((on[-1]["t2"] or {}).get("items"))))
            continue
        st.add("failing_histories")
        if not is_minimal(history, cache_cfg, scratch):
            st.add("failing_non_minimal")
            continue
        sig, what = classify(history, cache_cfg, scratch)
        st.distinct("outcomes", ("fail", sig))
        st.violation(sig, what, {"cache_cfg": cache_cfg, "history": history})
    if chunk:
        st.sample({"cache_cfg": chunk[0][0], "history": chunk[0][1]})


def histories(depth, extra_first=()):
    """all histories of <= depth ops ending in a turn with an earlier turn; plus depth+1 histories whose first op is in extra_first"""
    out = []
    for d in range(2, depth + 2):
        for pre in itertools.product(OPS, repeat=d - 1):
            if d == depth + 1 and pre[0] not in extra_first:
                continue
            if not any(o[0] == "T" for o in pre):
                continue  # nothing populated a cache before the final turn
            for last in TURNS:
                out.append(list(pre) + [last])
    return out


def run(run: Run) -> None:
    depth = 4 if run.thorough else 3
    # quick additionally explores the depth-4 histories that start with the kill switch (turn-level cache hits only occur
    # while the version does not move)
    hs = histories(depth, extra_first=() if run.thorough else (("KILL",),))
    items = [(cc, h) for cc in CACHE_CONFIGS for h in hs]
    run.notes["depth"] = depth
    run.notes["alphabet_size"] = len(OPS)
    run.notes["histories"] = len(items)
    run.rule = ("every history of <=%d operations over a %d-letter alphabet (turns, graph edits, memory additions, kill switch, "
                "config changes, cache-clock / logical-day advances, state switch) ending in a turn and containing an earlier turn, "
                "x 3 cache configurations; each executed with caches on and off in the same process; non-trivial = >=2 turns" % (depth, len(OPS)))
    # the harness must be deterministic: same history twice -> same observation
    a = execute(hs[0], "lru_ttl", True, run.scratch)
    b = execute(hs[0], "lru_ttl", True, run.scratch)
    if W.jd(a) != W.jd(b):
        raise HarnessError("harness nondeterministic on %r" % (hs[0],))
    run.pmap(_worker, items, extra=(run.scratch,), chunks=256 if run.thorough else 64)
    run.assume("approved delta lists are empty in these worlds (rule-based plans carry no deltas); apply still bumps the version and invalidates")
    run.assume("TTL expiry is driven through injected clocks for the LRU+TTL stage caches and the turn-level manager; byte-bounded caches have no TTL")


def replay(case):
    import tempfile
    d = tempfile.mkdtemp(prefix="c05r", dir="/dev/shm" if os.path.isdir("/dev/shm") else None)
    try:
        dd, leak, on, off = fails(case["history"], case["cache_cfg"], d)
        if dd is None and not leak:
            return []
        return [classify(case["history"], case["cache_cfg"], d)]
    finally:
        shutil.rmtree(d, ignore_errors=True)
