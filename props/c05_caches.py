"""C05 — caches are transparent: a hit equals a fresh computation.

Engine E1: every history (<= d operations, last one a turn) over the alphabet below is executed twice on fresh
worlds in the same process: once with the caches of the chosen cache configuration ON (process-global T1/T2 stage
caches, turn-level version-keyed manager), once with every cache disabled.  The (T1Result, T2Result) pair the
orchestrator hands to planning is captured at the `make_plan_bundle` seam in every turn and compared, apart from
the documented cache diagnostics.  Failing histories are minimised (no proper sub-history fails) and classified by
the cache layer that served the stale value (found by disabling one layer at a time).

Alphabet: turn(agent in {A,B}, text in {apple, pear fig}) | relabel node | upsert edge (same id, new weight) |
upsert edge (same id, redirected) | add edge | add episode(owner A|B; fresh id) | add episode under an id the index already
holds (a revised episode: same id, other text / vector / timestamp / importance) | toggle kill switch | config change
(k_retrieval, sim_threshold, ranking, owner_scope, exact_recent_days, t1.radius_cap, tiers) | cache clock += ttl+1
| logical day += 40 | logical clock +- 12 h | scheduler slice on/off | switch to an independent second state with the
same graph ids / sizes | an apply whose approved batch carries a graph edit among re-asserted nodes (the apply entry point of
graph edits; the first graph of both worlds is the surface graph apply writes) | renewal of the state in use: the state is
released and a brand-new one (equal ids / counts / version counters, other memories) is constructed at the recycled
addresses (state lifetimes that do not overlap; mc/recycle.py).

Second leg (configuration sweep, see SWEEP below): the same twin oracle over [turn, P, turn], [M, turn, turn] and
[M, turn, P, turn] for a catalogue of single-parameter changes P covering every t1.* / t2.* parameter the validator
accepts plus the perf.* / scheduler knobs the two stages read, M over the mode-selecting entries (quick) or the
whole catalogue (thorough); and over [M, turn, E, turn] for every graph edit E (each field of a node / edge, through the direct
upsert and through an apply-carried batch) and both renewals of the state (other memories / other graphs).  A turn in which the
engine raises is an observation, not a harness error.
"""
from __future__ import annotations

import copy
import itertools
import json
import math
import os
import shutil

import numpy as np

from mc.runner import Run, Stats, HarnessError
from mc import world as W
from mc.recycle import rebirth

from clematis.engine.cache import CacheManager, LRUCache, ThreadSafeCache
import clematis.engine.orchestrator as orch_pkg
from clematis.engine.orchestrator import core as orch_core
from clematis.engine.stages import t1 as t1_mod
from clematis.engine.stages.t2 import cache as t2c_mod
from clematis.engine.types import Node, Edge, T4Result
from clematis.graph.store import InMemoryGraphStore
from clematis.memory.index import InMemoryIndex

if not hasattr(orch_core, "make_plan_bundle"):
    raise HarnessError("seam missing: orchestrator.core.make_plan_bundle")

# ------------------------------------------------------------------ alphabet
TURNS = [("T", a, x) for a in ("A", "B") for x in ("apple", "pear fig")]
EDITS = [("RELABEL",), ("EDGE_W",), ("EDGE_DST",), ("EDGE_NEW",), ("EP", "A"), ("EP", "B"), ("EPR", "A")]
# EPR(owner): a memory addition whose id is already present in the index (the first stored episode of that owner is
# added again with other content - what a revision of an episode looks like to the index).  The statement quantifies over
# memory additions, not over additions with fresh ids: whether the index appends, replaces or ignores the re-added copy
# is its own business, but whatever it then answers must not depend on the caches.  The counterpart of the graph letters
# EDGE_W / EDGE_DST / RELABEL (same id, same counts, other content) on the memory side.
EP_CONTENT = ("apple pear fig", 0.5, "c1", 1.0)       # what EP adds (fresh id) and EPR re-adds (present id)
EPR_ALT_CONTENT = ("plum", 20.0, "c2", 0.0)           # second EPR on the same id: other content again
# the graph evolution layer (observe / tick / merge / promotion) rewrites the GEL edge weights in state["graph"] between
# turns; GEL_W is one such rewrite applied directly (asymmetric, so that a rerank that reads the edges changes order).
# It is not a letter of the BFS alphabet (inert unless the hybrid rerank is on); the sweep leg runs [M, turn, GEL_W, turn]
# under every mode entry M.  The sweep leg also runs [M, turn, EPR, turn] (an episode re-added under its id) under every M.
GEL_EDIT = ("GEL_W",)
EPR_EDIT = ("EPR", "A")
# --- graph edits through the apply step.  The statement quantifies over "graph edits ... applies"; an apply that carries
# approved deltas is the second entry point by which the concept graph changes (orchestrator.apply_changes ->
# store.apply_deltas, which writes the surface graph).  The first graph of both worlds therefore IS the surface graph, and
# AP(kind) = an apply whose approved batch re-asserts the nodes the graph already holds (what a turn's own T1 deltas look
# like: upsert_node for existing ids - no change) plus ONE real edit of the given kind.  The kinds range over every field a
# delta can change: a new node, a new edge, and for an edge that exists its weight, its endpoints and its relation type
# (each with the other fields kept).  The same kinds exist through the direct upsert entry point (RELABEL / EDGE_* /
# NODE_NEW); EDGE_REL re-types an edge there.  A relation type acts on propagation only through t1.edge_type_mult, a weight
# only where it crosses the contribution threshold, so every edit of both entry points also runs under every
# configuration M of the sweep leg ([M, turn, edit, turn]) - the catalogue holds the multiplier tables with a zero entry.
SURF = "g:surface"
AP_KINDS = ("W", "DST", "REL", "NEW_EDGE", "NEW_NODE")
# --- state lifetimes.  "independent engine states that live in the same process" need not live at the same time: RENEW
# ends the state in use (all references dropped, collected) and puts a brand-new state in its place, of which every
# identity-bearing object (state dict, graph store, memory index) is created after the release.  RENEW(mem): same graph
# content, the other world's episodes (equal number of additions => equal version counters); RENEW(graph): same episodes,
# the other world's graphs (equal ids / counts / number of mutations).  Environment answer owned by the harness: the
# allocator hands a new object the block of the released one (CPython does so routinely), i.e. id() of the new index /
# store / state equals that of the dead one; the harness asks for that answer (bounded retries, misses held alive) and
# counts how often it got it.
RENEW_KINDS = ("mem", "graph")
GRAPH_EDITS = [("RELABEL",), ("EDGE_W",), ("EDGE_DST",), ("EDGE_NEW",), ("EDGE_REL",), ("NODE_NEW",)] + [("AP", k) for k in AP_KINDS]
SWEEP_EDITS = [GEL_EDIT, EPR_EDIT] + GRAPH_EDITS + [("RENEW", k) for k in RENEW_KINDS]
# configurations under which the graph edits run in the quick tier in addition to the mode entries: the relation-type
# multiplier tables (a re-typed edge is observable only where two relation types carry different, threshold-crossing weight)
SWEEP_EDIT_MODES = ["mult_sup0", "mult_assoc0"]
CFGS = [("CFG", "k1"), ("CFG", "thr"), ("CFG", "rank"), ("CFG", "owner"), ("CFG", "days"), ("CFG", "radius"),
        ("CFG", "tiers"), ("CFG", "tiers_rev")]
MISC = [("KILL",), ("CLK",), ("DAY",), ("HALFDAY",), ("SWITCH",), ("SCHED",)]
# history alphabet: one apply-carried edit (an edge re-weighted inside a batch of re-asserted nodes) and the renewal of the
# state in use stand for their families in every position of the BFS; the whole families run in the sweep leg
LIFE = [("AP", "W"), ("RENEW", "mem")]
OPS = TURNS + EDITS + CFGS + MISC + LIFE

CFG_CHANGES = {
    "k1": {"t2": {"k_retrieval": 1}},
    "thr": {"t2": {"sim_threshold": 0.9}},
    "rank": {"t2": {"ranking": {"alpha_sim": 0.0, "beta_recency": 0.0, "gamma_importance": 1.0}}},
    "owner": {"t2": {"owner_scope": "agent"}},
    "days": {"t2": {"exact_recent_days": 1}},
    "radius": {"t1": {"radius_cap": 0}},
    "tiers": {"t2": {"tiers": ["archive"]}},
    "tiers_rev": {"t2": {"tiers": ["archive", "cluster_semantic", "exact_semantic"]}},
}

# ------------------------------------------------------------------ configuration-parameter sweep (second leg)
# The statement quantifies over ALL configuration changes between turns, the history alphabet above carries only a
# handful of them.  The sweep enumerates a catalogue of single-parameter changes covering the parameters the validator
# accepts for the two cached stages (t1.*, t2.*, the perf.* and scheduler knobs they read; the keys left out are listed
# with reasons in NOT_SWEPT and sweep_key_gaps() reports accepted keys nobody accounts for), each with values at which
# the parameter can bite on the small worlds (zero / one / extreme), and runs
#     [turn, change P, turn]                 (P alone)
#     [change M, turn, turn]                 (a plain hit under M)
#     [change M, turn, change P, turn]       (P changed while M is in force)
# with M over the "mode" entries (quick) or over the whole catalogue (thorough): a parameter that is inert under the
# default mode (t1.decay.alpha without attn_quad, hybrid weights without hybrid, perf caps without perf.enabled ...)
# is only a cache-key obligation in the mode that reads it.  This leg examines the two stage caches; the turn-level
# manager is off in both twin runs (see STAGE_ONLY).
_SCHED_BASE = {"enabled": True, "quantum_ms": 10 ** 9, "budgets": {"wall_ms": 10 ** 9, "t1_iters": 50, "t2_k": 64, "t3_ops": 8}}
_Q_ON = {"perf": {"enabled": True, "metrics": {"report_memory": True}}, "t2": {"quality": {"enabled": True}}}
SWEEP = {
    # --- T1 propagation
    "t1_iter0": {"t1": {"iter_cap": 0}},
    "t1_iter1": {"t1": {"iter_cap": 1}},
    "t1_queue1": {"t1": {"queue_budget": 1}},
    "t1_node_lo": {"t1": {"node_budget": 0.5}},
    "t1_radius1": {"t1": {"radius_cap": 1}},
    "decay_attn": {"t1": {"decay": {"mode": "attn_quad"}}},
    "decay_rate0": {"t1": {"decay": {"rate": 0.0}}},
    "decay_rate1": {"t1": {"decay": {"rate": 1.0}}},
    "decay_floor0": {"t1": {"decay": {"floor": 0.0}}},
    "decay_floor1": {"t1": {"decay": {"floor": 1.0}}},
    "decay_alpha0": {"t1": {"decay": {"alpha": 0.0}}},
    "decay_alpha_hi": {"t1": {"decay": {"alpha": 1.0e7}}},
    "mult_sup0": {"t1": {"edge_type_mult": {"supports": 0.0, "associates": 0.6, "contradicts": 0.8}}},
    "mult_assoc0": {"t1": {"edge_type_mult": {"supports": 1.0, "associates": 0.0, "contradicts": 0.8}}},
    # --- perf gates and the T1/T2 knobs behind them
    "perf_on": {"perf": {"enabled": True}},
    "perf_off": {"perf": {"enabled": False}},
    "metrics_on": {"perf": {"enabled": True, "metrics": {"report_memory": True}}},
    "frontier1": {"perf": {"t1": {"caps": {"frontier": 1}}}},
    "visited1": {"perf": {"t1": {"caps": {"visited": 1}}}},
    "dedupe1": {"perf": {"t1": {"dedupe_window": 1}}},
    "queue_cap1": {"perf": {"t1": {"queue_cap": 1}}},
    "par": {"perf": {"parallel": {"enabled": True, "t1": True, "t2": True, "max_workers": 2}}},
    "t2_fp16": {"perf": {"t2": {"embed_store_dtype": "fp16"}}},
    "t2_norms": {"perf": {"t2": {"precompute_norms": True}}},
    "t2_embed16": {"perf": {"t2": {"embed_dtype": "fp16"}}},
    # --- T2 retrieval
    "k2": {"t2": {"k_retrieval": 2}},
    "thr0": {"t2": {"sim_threshold": 0.0}},
    "days0": {"t2": {"exact_recent_days": 0}},
    "rank_sim": {"t2": {"ranking": {"alpha_sim": 1.0, "beta_recency": 0.0}}},
    "tiers_exact": {"t2": {"tiers": ["exact_semantic"]}},
    "tiers_cluster": {"t2": {"tiers": ["cluster_semantic"]}},
    "top_m1": {"t2": {"clusters_top_m": 1}},
    "top_m0": {"t2": {"clusters_top_m": 0}},
    "resid0": {"t2": {"residual_cap_per_turn": 0}},
    "resid1": {"t2": {"residual_cap_per_turn": 1}},
    "reader_auto": {"t2": {"reader": {"mode": "auto"}}},
    "reader_batch1": {"t2": {"reader_batch": 1}},
    "owner_world": {"t2": {"owner_scope": "world"}},
    "k_surface16": {"k_surface": 16},
    # --- T2 hybrid rerank
    "hyb_on": {"t2": {"hybrid": {"enabled": True}}},
    "hyb_lambda1": {"t2": {"hybrid": {"lambda_graph": 1.0}}},
    "hyb_anchor1": {"t2": {"hybrid": {"anchor_top_m": 1}}},
    "hyb_hops2": {"t2": {"hybrid": {"walk_hops": 2}}},
    "hyb_thr_hi": {"t2": {"hybrid": {"edge_threshold": 0.9}}},
    "hyb_damp0": {"t2": {"hybrid": {"damping": 0.0}}},
    "hyb_invdeg": {"t2": {"hybrid": {"degree_norm": "invdeg"}}},
    "hyb_bonus0": {"t2": {"hybrid": {"max_bonus": 0.0}}},
    "hyb_kmax1": {"t2": {"hybrid": {"k_max": 1}}},
    "hyb_nograph": {"t2": {"hybrid": {"use_graph": False}}},
    # --- T2 quality layer (fusion / MMR), switched on together with the gates it documents
    "q_on": _Q_ON,
    "q_fusion": W.deep_merge(_Q_ON, {"t2": {"quality": {"fusion": {"enabled": True, "alpha_semantic": 0.5}}}}),
    "q_fusion_lex": {"t2": {"quality": {"fusion": {"alpha_semantic": 0.0}}}},
    "q_mmr": W.deep_merge(_Q_ON, {"t2": {"quality": {"mmr": {"enabled": True, "lambda": 0.5, "k": 3}}}}),
    "q_mmr_div": {"t2": {"quality": {"mmr": {"lambda": 0.0}}}},
    "q_mmr_k1": {"t2": {"quality": {"mmr": {"k": 1}}}},
    "q_salt": {"t2": {"quality": {"cache": {"salt": "s2"}}}},
    "q_score_norm": {"t2": {"quality": {"fusion": {"score_norm": "minmax"}}}},
    "q_mmr_owner": {"t2": {"quality": {"mmr": {"diversity_by_owner": True}}}},
    "q_mmr_token": {"t2": {"quality": {"mmr": {"diversity_by_token": False}}}},
    "q_mmr_kfinal": {"t2": {"quality": {"mmr": {"k_final": 1}}}},
    "q_norm_off": {"t2": {"quality": {"normalizer": {"enabled": False}}}},
    "q_norm_minlen": {"t2": {"quality": {"normalizer": {"min_token_len": 5}}}},
    "q_norm_stem": {"t2": {"quality": {"normalizer": {"stemmer": "porter-lite"}}}},
    "q_norm_stop": {"t2": {"quality": {"normalizer": {"stopwords": "none"}}}},
    "q_lex_off": {"t2": {"quality": {"lexical": {"enabled": False}}}},
    "q_lex_stop": {"t2": {"quality": {"lexical": {"stopwords": "none"}}}},
    "q_bm25_k1": {"t2": {"quality": {"lexical": {"bm25": {"k1": 0.1}}}}},
    "q_bm25_b": {"t2": {"quality": {"lexical": {"bm25": {"b": 0.0}}}}},
    "q_bm25_floor": {"t2": {"quality": {"lexical": {"bm25": {"doclen_floor": 50}}}}},
    "q_alias_on": {"t2": {"quality": {"aliasing": {"enabled": True, "max_expansions_per_token": 1}}}},
    # --- scheduler slice budgets the stages clamp to
    "sched_on": {"scheduler": _SCHED_BASE},
    "sched_iters1": {"scheduler": W.deep_merge(_SCHED_BASE, {"budgets": {"t1_iters": 1}})},
    "sched_pops1": {"scheduler": W.deep_merge(_SCHED_BASE, {"budgets": {"t1_pops": 1}})},
    "sched_t2k1": {"scheduler": W.deep_merge(_SCHED_BASE, {"budgets": {"t2_k": 1}})},
    # --- graph evolution layer (feeds the hybrid rerank)
    "gel": W.CONFIG_MENU["gel"],
    # hybrid rerank over a graph that the evolution layer rewrites every turn
    "hyb_gel": W.deep_merge(W.CONFIG_MENU["gel"], {"t2": {"hybrid": {"enabled": True}}}),
}
# the history alphabet's own changes are swept as well
SWEEP_PARAMS = sorted(set(SWEEP) | {"k1", "thr", "rank", "owner", "days", "radius", "tiers", "tiers_rev"})
# entries that select an alternative code path of a stage (quick tier: first change ranges over these only)
SWEEP_MODES = ["decay_attn", "decay_floor0", "t1_node_lo", "perf_on", "metrics_on", "par", "owner", "hyb_on", "q_on",
               "q_fusion", "q_mmr", "sched_on", "gel", "hyb_gel"]
SWEEP_CACHE_CONFIGS = ("lru_ttl_stage", "bytes_stage")
CFG_CHANGES.update(SWEEP)


def _leaf_paths(d, pre=()):
    for k, v in d.items():
        if isinstance(v, dict) and v:
            yield from _leaf_paths(v, pre + (str(k),))
        else:
            yield pre + (str(k),)


def _stage_of(name):
    """which cached stage a catalogued change addresses: 't1', 't2' or 'both' (gates, scheduler, graph layer)"""
    tops = set()
    for p in _leaf_paths(CFG_CHANGES[name]):
        tops.add(p[0] if p[0] in ("t1", "t2") else (p[1] if p[0] == "perf" and len(p) > 1 and p[1] in ("t1", "t2") else "both"))
    stages = tops & {"t1", "t2"}   # a stage switch that brings its gates along (quality + perf gates) belongs to the stage
    return stages.pop() if len(stages) == 1 else "both"


# accepted keys that the sweep deliberately leaves out, with the reason (reported in the evidence notes)
NOT_SWEPT = {
    "t2.backend": "external store", "t2.lancedb": "external store", "t2.archive": "external store",
    "t2.embed_root": "on-disk embed store", "perf.t2.reader": "on-disk partitioned reader",
    "t2.quality.shadow": "trace writing only", "t2.quality.trace_dir": "trace writing only", "t2.quality.redact": "trace writing only",
    "t2.quality.aliasing.map_path": "needs an alias map file",
    "t2.quality.normalizer.case": "single legal value", "t2.quality.normalizer.unicode": "single legal value",
    "t2.quality.fusion.mode": "single legal value",
    "t2.quality.lexical.bm25_k1": "flat alias of lexical.bm25.k1", "t2.quality.lexical.bm25_b": "flat alias of lexical.bm25.b",
    "t2.quality.mmr.lambda_relevance": "alias of mmr.lambda",
    "perf.parallel.agents": "driver-level switch, not read by the stages",
}


def sweep_key_gaps():
    """accepted configuration keys of the two stages (per the validator's own tables) that neither the catalogue nor
    NOT_SWEPT accounts for; informational (a key added to the validator later shows up here)"""
    try:
        import configs.validate as V
    except Exception:
        return ["<validator tables not importable>"]
    want = []

    def need(prefix, table, skip=()):
        for k in sorted(getattr(V, table, ()) or ()):
            if k not in skip:
                want.append(prefix + "." + k)
    need("t1", "ALLOWED_T1", ("cache",))
    want.extend("t1.decay." + k for k in ("mode", "rate", "floor", "alpha"))
    need("t2", "ALLOWED_T2", ("cache",))
    need("t2.ranking", "ALLOWED_RANKING_FIELDS")
    need("t2.hybrid", "ALLOWED_T2_HYBRID")
    need("t2.reader", "ALLOWED_T2_READER")
    need("t2.quality", "ALLOWED_T2_QUALITY")
    need("t2.quality.normalizer", "ALLOWED_T2_QUALITY_NORMALIZER")
    need("t2.quality.aliasing", "ALLOWED_T2_QUALITY_ALIASING")
    need("t2.quality.lexical", "ALLOWED_T2_QUALITY_LEXICAL")
    need("t2.quality.lexical.bm25", "ALLOWED_T2_QUALITY_BM25")
    need("t2.quality.fusion", "ALLOWED_T2_QUALITY_FUSION")
    need("t2.quality.mmr", "ALLOWED_T2_QUALITY_MMR")
    need("t2.quality.cache", "ALLOWED_T2_QUALITY_CACHE")
    need("perf.t1", "ALLOWED_PERF_T1", ("cache",))
    need("perf.t1.caps", "ALLOWED_PERF_T1_CAPS")
    need("perf.t2", "ALLOWED_PERF_T2", ("cache",))
    need("perf.parallel", "ALLOWED_PERF_PARALLEL")
    covered = set()
    for name in SWEEP_PARAMS:
        for p in _leaf_paths(CFG_CHANGES[name]):
            for i in range(1, len(p) + 1):
                covered.add(".".join(p[:i]))
    return [w for w in want if w not in covered and w not in NOT_SWEPT]

# scheduler slice with a tight layer budget (time budgets out of reach): every seeded turn yields at the T1 boundary,
# its T1 result is still observed; toggled on/off by the SCHED operation
SCHED_ON = {"scheduler": {"enabled": True, "quantum_ms": 10 ** 9, "budgets": {"wall_ms": 10 ** 9, "t1_iters": 1, "t2_k": 64, "t3_ops": 8}}}

CACHE_CONFIGS = {
    # name -> (config with caches on, which layers exist)
    "lru_ttl": {},
    "bytes": {"perf": {"enabled": True, "t1": {"cache": {"max_entries": 8, "max_bytes": 100000}},
                       "t2": {"cache": {"max_entries": 8, "max_bytes": 1000000}}}},
    "turnlevel_only": {"t1": {"cache": {"enabled": False}}, "t2": {"cache": {"enabled": False}}},
}
# the sweep leg examines the two stage caches: the turn-level manager is off in both twin runs there (its blindness to
# configuration changes while the state version does not move - kill switch off, or a scheduler slice that yields
# before apply - is the listed known finding and is not re-derived per parameter)
STAGE_ONLY = {"t4": {"cache": {"enabled": False}}}
ALL_CACHE_CONFIGS = dict(CACHE_CONFIGS)
ALL_CACHE_CONFIGS["lru_ttl_stage"] = W.deep_merge(CACHE_CONFIGS["lru_ttl"], STAGE_ONLY)
ALL_CACHE_CONFIGS["bytes_stage"] = W.deep_merge(CACHE_CONFIGS["bytes"], STAGE_ONLY)
# turn-level manager alone with cache_bust_mode "none": nothing invalidates on apply, coherence rests on the version in the
# key alone (explored to depth 3 in both tiers)
ALL_CACHE_CONFIGS["turnlevel_version_keyed"] = W.deep_merge(CACHE_CONFIGS["turnlevel_only"], {"t4": {"cache_bust_mode": "none"}})
OFF = {"t1": {"cache": {"enabled": False}}, "t2": {"cache": {"enabled": False}}, "t4": {"cache": {"enabled": False}}}
LAYER_OFF = {
    "t1": {"t1": {"cache": {"enabled": False}}, "perf": {"t1": {"cache": {"max_entries": 0, "max_bytes": 0}}}},
    "t2stage": {"t2": {"cache": {"enabled": False}}, "perf": {"t2": {"cache": {"max_entries": 0, "max_bytes": 0}}}},
    "turnlevel": {"t4": {"cache": {"enabled": False}}},
}


def off_cfg(base):
    o = W.deep_merge(base, OFF)
    if "perf" in base:
        o = W.deep_merge(o, {"perf": {"t1": {"cache": {"max_entries": 0, "max_bytes": 0}},
                                      "t2": {"cache": {"max_entries": 0, "max_bytes": 0}}}})
    return o


class FakeClock:
    def __init__(self):
        self.t = 1000.0

    def time(self):
        return self.t


def _as_surface(st):
    """the first graph of a world is the surface graph (the graph the apply step writes): same content, id SURF"""
    gs = st["store"]._graphs
    if "g1" in gs:
        items = [((SURF if k == "g1" else k), g) for k, g in gs.items()]
        gs.clear()
        for k, g in items:
            g.graph_id = k
            gs[k] = g
    st["active_graphs"] = [(SURF if g == "g1" else g) for g in st.get("active_graphs", [])]
    return st


def _graphs_b(store):
    W._graph(store, SURF,
             [("n1", "apple"), ("n2", "pear"), ("n3", "fig")],
             [("e1", "n1", "n3", 0.9, "supports"), ("e2", "n2", "n3", 0.7, "supports")])
    W._graph(store, "g2", [("m1", "plum"), ("m2", "apple"), ("m3", "fig")],
             [("f1", "m2", "m3", 1.0, "supports"), ("f2", "m3", "m1", 0.5, "supports"), ("f3", "m1", "m1", 0.5, "supports")])
    W._graph(store, "g3", [("k1", "pear"), ("k2", "quince")], [("h1", "k2", "k1", 0.5, "supports")])


def _eps_b():
    return [W._ep("ep1", "B", "fig tart", 1, "c1", 0.2),
            W._ep("ep2", "A", "pear pear", 2, "c2", 0.9),
            W._ep("ep3", "A", "apple fig crumble", 3, "c1", 0.5),
            W._ep("ep4", "world", "plum", 50, None, None),
            W._ep("ep5", "A", "apple", 4, "c3", 0.1),
            W._ep("ep6", "B", "pear apple", 6, "c3", 0.7),
            W._ep("ep7", "world", "fig fig", 45, None, None)]


def world_b():
    """Independent second state: same graph ids, same node/edge/episode counts, different content."""
    st = W.make_world("W0")
    _graphs_b(st["store"])
    st["active_graphs"] = [SURF, "g2", "g3"]
    for e in _eps_b():
        st["mem_index"].add(e)
    return st


def world_a():
    """First state: world W2 (three graphs, two of them match "apple": per-graph cache entries), first graph = surface graph"""
    return _as_surface(W.make_world("W2"))


WORLD_KINDS = ("a", "b")
_BUILD = {"a": world_a, "b": world_b}


def renew_state(states, cur, kinds, which):
    """End the state in use and put a brand-new one in its place (see RENEW_KINDS).  kinds[cur] = [graph world, memory world].
    The caller holds no reference to the state besides states[cur].  Returns mc.recycle's report."""
    gk, mk = kinds[cur]
    other = {"a": "b", "b": "a"}
    if which == "mem":
        mk = other[mk]
    else:
        gk = other[gk]
    # content of the new state, built while the old one is still alive (so that none of these helpers takes its blocks)
    g_src = _BUILD[gk]()
    m_src = g_src if mk == gk else _BUILD[mk]()
    old = states[cur]
    states[cur] = None
    box = [old, [("index", old["mem_index"], InMemoryIndex), ("store", old["store"], InMemoryGraphStore)]]
    del old
    new, objs, report = rebirth(box)
    idx, store = objs["index"], objs["store"]
    for gid, g in g_src["store"]._graphs.items():      # through the public API, in the builders' order (nodes, then edges)
        store.upsert_nodes(gid, list(g.nodes.values()))
        if g.edges:
            store.upsert_edges(gid, list(g.edges.values()))
    for e in m_src["mem_index"]._eps:
        idx.add(e)
    for k, v in g_src.items():
        if k not in ("store", "mem_index"):
            new[k] = v
    new["store"] = store
    new["mem_index"] = idx
    new["_boot_loaded"] = True
    states[cur] = new
    kinds[cur] = [gk, mk]
    return report


_CFG_MEMO = {}


def cfg_for(over, snap_dir):
    k = json.dumps(over, sort_keys=True) + snap_dir
    c = _CFG_MEMO.get(k)
    if c is None:
        if len(_CFG_MEMO) > 4000:
            _CFG_MEMO.clear()
        c = _CFG_MEMO[k] = W.make_cfg(over, snap_dir=snap_dir)
    return c


def _t1_obs(t1):
    m = dict(getattr(t1, "metrics", {}) or {})
    for k in ("cache_hits", "cache_misses", "cache_used", "cache_enabled", "max_delta", "t1.cache_evictions", "t1.cache_bytes"):
        m.pop(k, None)
    # perf counters that exist only under perf.enabled + perf.metrics.report_memory and, like max_delta, are measured on a
    # fresh computation only (a hit reports 0): diagnostics, not judged
    for k in ("t1_frontier_evicted", "t1_dedup_hits", "t1_visited_evicted"):
        m.pop(k, None)
    return {"deltas": list(getattr(t1, "graph_deltas", []) or []), "metrics": m}


def _t2_obs(t2):
    m = dict(getattr(t2, "metrics", {}) or {})
    for k in list(m):
        # cache diagnostics, and the namespaced reporting block (t2.* / t2q.*: echoes of perf / quality settings) that exists
        # only under perf.enabled + perf.metrics.report_memory: the statement's observation points are the retrieved
        # ids / order / scores, the residual deltas and k_used, so a cached result carrying the echoes of the turn that
        # computed it is not judged
        if k.startswith("cache_") or k.startswith("t2.") or k.startswith("t2q."):
            m.pop(k)
    items = [(str(getattr(r, "id", None)), round(float(getattr(r, "score", 0.0)), 9)) for r in (getattr(t2, "retrieved", []) or [])]
    return {"items": items, "residual": list(getattr(t2, "graph_deltas_residual", []) or []), "metrics": m}


def _other_rel(rel):
    return "associates" if rel == "supports" else "supports"


def _ap_delta(g, kind):
    """the one real edit of an apply batch (dict form, as store.apply_deltas reads it); same targets and values as the direct letters"""
    if kind == "W":
        e = g.edges["e1"]
        return {"op": "upsert_edge", "id": "e1", "src": e.src, "dst": e.dst, "weight": (0.0 if e.weight > 0.01 else 0.8), "rel": e.rel}
    if kind == "DST":
        e = g.edges["e2"]
        return {"op": "upsert_edge", "id": "e2", "src": "n1", "dst": ("n3" if e.dst != "n3" or e.src != "n1" else "n2"), "weight": 1.0, "rel": "supports"}
    if kind == "REL":
        e = g.edges["e1"]
        return {"op": "upsert_edge", "id": "e1", "src": e.src, "dst": e.dst, "weight": e.weight, "rel": _other_rel(e.rel)}
    if kind == "NEW_EDGE":
        return {"op": "upsert_edge", "id": "x%d" % (len(g.edges) + 1), "src": "n3", "dst": "n1", "weight": 1.0, "rel": "supports"}
    if kind == "NEW_NODE":
        return {"op": "upsert_node", "id": "nx%d" % (len(g.nodes) + 1), "label": "pear"}
    raise HarnessError("unknown apply kind %r" % (kind,))


def execute(history, cache_cfg, caches_on, scratch, extra_off=None, env=None):
    """Runs one history; returns list of per-turn observations."""
    W.reset_globals()
    ex = W.Exec(scratch, "c05")
    ex.activate()
    fake = FakeClock()
    base = copy.deepcopy(ALL_CACHE_CONFIGS[cache_cfg])
    if not caches_on:
        base = off_cfg(base)
    if extra_off:
        base = W.deep_merge(base, extra_off)
        if "perf" not in ALL_CACHE_CONFIGS[cache_cfg]:
            base.pop("perf", None)
    dyn = {}
    states = [world_a(), world_b()]   # world a = W2: three graphs, two of them match "apple" (per-graph cache entries)
    kinds = [["a", "a"], ["b", "b"]]  # per state: [graph world, memory world]
    for s in states:
        s["_boot_loaded"] = True
    cur = 0
    kill = False
    sched = False
    day = 0.0
    obs = []
    captured = {}
    real_mpb = orch_core.make_plan_bundle
    had_t1 = "t1_propagate" in vars(orch_pkg)
    old_t1 = vars(orch_pkg).get("t1_propagate")
    real_t1 = t1_mod.t1_propagate

    def spy(ctx, state, t1, t2):
        captured["t1"], captured["t2"] = t1, t2
        return real_mpb(ctx, state, t1, t2)

    def spy_t1(ctx, state, text):
        r = real_t1(ctx, state, text)
        captured["t1"] = r
        return r

    orch_core.make_plan_bundle = spy
    orch_pkg.t1_propagate = spy_t1
    try:
        # inject clocks where the configuration builds TTL caches
        c0 = cfg_for(base, ex.snap_dir)
        t1c = c0.get("t1", {}).get("cache", {}) or {}
        t2c = c0.get("t2", {}).get("cache", {}) or {}
        perf_on = bool((c0.get("perf") or {}).get("enabled", False))
        if not perf_on:
            if bool(t1c.get("enabled", True)):
                me, ttl = int(t1c.get("max_entries", 512)), int(t1c.get("ttl_s", 300))
                t1_mod._T1_CACHE = ThreadSafeCache(LRUCache(max_entries=me, ttl_s=ttl, time_fn=fake.time))
                t1_mod._T1_CACHE_CFG = ("lru", me, ttl)
                t1_mod._T1_CACHE_KIND = "lru"
            if bool(t2c.get("enabled", True)):
                me, ttl = int(t2c.get("max_entries", 512)), int(t2c.get("ttl_s", 300))
                t2c_mod._T2_CACHE = ThreadSafeCache(LRUCache(max_entries=me, ttl_s=ttl, time_fn=fake.time))
                t2c_mod._T2_CACHE_CFG = ("lru", me, ttl)
                t2c_mod._T2_CACHE_KIND = "lru"
        t4c = (c0.get("t4", {}) or {}).get("cache", {}) or {}

        def attach_mgr(s):
            if bool(t4c.get("enabled", True)):
                s["_cache_mgr"] = CacheManager(max_entries=int(t4c.get("max_entries", 512)),
                                               ttl_sec=int(t4c.get("ttl_sec", 600)), time_fn=fake.time)
        for s in states:
            attach_mgr(s)
        s = None
        turn = 0
        last_cfg = None
        for op in history:
            kind = op[0]
            st = states[cur]
            if kind == "T":
                turn += 1
                over = W.deep_merge(base, dyn)
                if kill:
                    over = W.deep_merge(over, {"t4": {"enabled": False}})
                if sched:
                    over = W.deep_merge(over, SCHED_ON)
                try:
                    cfg = cfg_for(over, ex.snap_dir)
                except HarnessError:
                    raise
                except Exception as e:
                    # the validator refuses this combination of changes: not a cache matter; the turn is not run
                    # (same in the twin run, whose configuration differs in the cache switches only)
                    obs.append({"t1": {"cfg_rejected": type(e).__name__}, "t2": None, "line": None})
                    continue
                last_cfg = cfg
                now = W._ts(-day)
                ctx = W.make_ctx(cfg, op[1], turn, now=now)
                captured.clear()
                try:
                    res = orch_core.run_turn(ctx, st, op[2])
                except HarnessError:
                    raise
                except Exception as e:
                    # the engine raised: observed like any other outcome, so that "raises with caches on, answers with
                    # caches off" (or the reverse) is a reported difference and not a harness crash
                    err = "%s: %s" % (type(e).__name__, str(e)[:160])
                    obs.append({"t1": (_t1_obs(captured["t1"]) if "t1" in captured else {"raised": err}),
                                "t2": (_t2_obs(captured["t2"]) if "t2" in captured else None), "line": {"raised": err}})
                    continue
                if "t1" not in captured:
                    raise HarnessError("t1 seam not reached")
                # a turn that yields at the T1 boundary never computes T2: observed as None in both twin runs
                o = {"t1": _t1_obs(captured["t1"]), "t2": (_t2_obs(captured["t2"]) if "t2" in captured else None), "line": res.line}
                # owner-scope invariant (independent of the twin run)
                if o["t2"] is not None and str(cfg.get("t2", {}).get("owner_scope", "any")) == "agent":
                    owners = {str(e["id"]): e.get("owner") for e in st["mem_index"]._eps}
                    o["leak"] = sorted(i for i, _ in o["t2"]["items"] if owners.get(i) != op[1])
                obs.append(o)
            elif kind == "RELABEL":
                g = st["store"].get_graph(SURF)
                n = g.nodes["n3"]
                st["store"].upsert_nodes(SURF, [Node(id="n3", label="plum" if n.label != "plum" else "fig")])
            elif kind == "EDGE_W":
                e = st["store"].get_graph(SURF).edges["e1"]
                st["store"].upsert_edges(SURF, [Edge(id="e1", src=e.src, dst=e.dst, weight=(0.0 if e.weight > 0.01 else 0.8), rel=e.rel)])
            elif kind == "EDGE_WSET":
                # the same edit as EDGE_W with an explicit new weight (finest-edit leg: the two weights are neighbours)
                e = st["store"].get_graph(SURF).edges["e1"]
                st["store"].upsert_edges(SURF, [Edge(id="e1", src=e.src, dst=e.dst, weight=float(op[1]), rel=e.rel)])
            elif kind == "EDGE_DST":
                e = st["store"].get_graph(SURF).edges["e2"]
                st["store"].upsert_edges(SURF, [Edge(id="e2", src="n1", dst=("n3" if e.dst != "n3" or e.src != "n1" else "n2"), weight=1.0, rel="supports")])
            elif kind == "EDGE_NEW":
                k = len(st["store"].get_graph(SURF).edges) + 1
                st["store"].upsert_edges(SURF, [Edge(id="x%d" % k, src="n3", dst="n1", weight=1.0, rel="supports")])
            elif kind == "EDGE_REL":
                e = st["store"].get_graph(SURF).edges["e1"]
                st["store"].upsert_edges(SURF, [Edge(id="e1", src=e.src, dst=e.dst, weight=e.weight, rel=_other_rel(e.rel))])
            elif kind == "NODE_NEW":
                k = len(st["store"].get_graph(SURF).nodes) + 1
                st["store"].upsert_nodes(SURF, [Node(id="nx%d" % k, label="pear")])
            elif kind == "AP":
                # an apply between two turns: the approved batch re-asserts the nodes the surface graph holds and carries one
                # real edit; through the orchestrator's own apply seam, under the configuration in force
                over = W.deep_merge(base, dyn)
                try:
                    acfg = cfg_for(over, ex.snap_dir)
                except HarnessError:
                    raise
                except Exception:
                    acfg = last_cfg if last_cfg is not None else c0
                actx = W.make_ctx(acfg, "A", turn, now=W._ts(-day))
                batch = [{"op": "upsert_node", "id": nid} for nid in sorted(st["store"].get_graph(SURF).nodes)]
                batch.append(_ap_delta(st["store"].get_graph(SURF), op[1]))
                try:
                    orch_core.apply_changes(actx, st, T4Result(approved_deltas=batch, rejected_ops=[], reasons=[], metrics={}))
                except HarnessError:
                    raise
                except Exception as e:
                    obs.append({"t1": {"apply_raised": "%s: %s" % (type(e).__name__, str(e)[:160])}, "t2": None, "line": None})
            elif kind == "RENEW":
                st = None
                rep = renew_state(states, cur, kinds, op[1])
                attach_mgr(states[cur])
                if env is not None:
                    env.append(rep)
            elif kind == "GEL_W":
                ge = (st.get("graph") or {}).get("edges") or {}
                for k_, w_ in (("ep1→ep2", -0.5), ("ep2→ep4", 0.75), ("ep1→ep4", 0.0)):
                    if k_ in ge:
                        ge[k_]["weight"] = (w_ if ge[k_]["weight"] != w_ else 0.25)
            elif kind == "EP":
                k = len(st["mem_index"]._eps) + 1
                while any(str(e.get("id")) == "new%d" % k for e in st["mem_index"]._eps):
                    k += 1   # an index that replaces a re-added episode does not grow: keep the id fresh all the same
                st["mem_index"].add(W._ep("new%d" % k, op[1], *EP_CONTENT))
            elif kind == "EPR":
                mine = [e for e in st["mem_index"]._eps if e.get("owner") == op[1]]
                if not mine:
                    raise HarnessError("EPR: no stored episode of owner %r" % (op[1],))
                eid = mine[0]["id"]
                cur_text = [e for e in mine if e["id"] == eid][-1].get("text")
                st["mem_index"].add(W._ep(eid, op[1], *(EP_CONTENT if cur_text != EP_CONTENT[0] else EPR_ALT_CONTENT)))
            elif kind == "CFG":
                ch = CFG_CHANGES[op[1]]
                dyn = W.deep_merge(dyn, ch)
            elif kind == "KILL":
                kill = not kill
            elif kind == "CLK":
                fake.t += 601.0
            elif kind == "DAY":
                day += 40
            elif kind == "HALFDAY":
                day += 0.5 if (day % 1.0) == 0.0 else -0.5
            elif kind == "SCHED":
                sched = not sched
            elif kind == "SWITCH":
                cur = 1 - cur
            else:
                raise HarnessError("unknown op %r" % (op,))
        return obs
    finally:
        orch_core.make_plan_bundle = real_mpb
        if had_t1:
            orch_pkg.t1_propagate = old_t1
        else:
            try:
                delattr(orch_pkg, "t1_propagate")
            except Exception:
                pass
        ex.close()


def _first_diff(a, b):
    for j, (x, y) in enumerate(zip(a, b)):
        for part in ("t1", "t2", "line"):
            if W.jd(x[part]) != W.jd(y[part]):
                return j, part
    return None


def fails(history, cache_cfg, scratch, extra_off=None, env=None):
    on = execute(history, cache_cfg, True, scratch, extra_off=extra_off, env=env)
    off = execute(history, cache_cfg, False, scratch)
    d = _first_diff(on, off)
    leak = [j for j, o in enumerate(on) if o.get("leak")]
    return d, leak, on, off


def _section(name):
    """configuration section a catalogued change belongs to (t1.decay, t2.hybrid, perf.t1, scheduler, ...)"""
    paths = set()

    def walk(d, pre):
        for k, v in d.items():
            if isinstance(v, dict) and v:
                walk(v, pre + (str(k),))
            else:
                paths.add(pre + (str(k),))
    walk(CFG_CHANGES[name], ())
    secs = {".".join(p[:2] if p[0] in ("t1", "t2", "perf") else p[:1]) for p in paths}
    return max(secs)


def classify(history, cache_cfg, scratch):
    """(signature, what) for a failing, already minimal history."""
    d, leak, on, off = fails(history, cache_cfg, scratch)
    layers = []
    for layer, over in LAYER_OFF.items():
        d2, leak2, _, _ = fails(history, cache_cfg, scratch, extra_off=over)
        if d2 is None and not leak2:
            layers.append(layer)
    layer = "+".join(layers) if layers else "multi"
    kinds = []
    agents = [op[1] for op in history if op[0] == "T"]
    texts = [op[2] for op in history if op[0] == "T"]
    swept = any(op[0] == "CFG" and op[1] in SWEEP for op in history)
    for op in history:
        if op[0] == "T":
            continue
        if swept and op[0] == "CFG":
            kinds.append("CFG[%s]" % _section(op[1]))   # sweep leg: one signature per configuration section, not per value
        else:
            kinds.append(op[0] if op[0] not in ("CFG", "EP", "EPR", "AP", "RENEW") else "%s(%s)" % (op[0], op[1]))
    if len(set(agents)) > 1:
        kinds.append("agent_switch")
    if len(set(texts)) > 1:
        kinds.append("text_change")
    sig = "%s:%s" % (layer, "+".join(kinds) if kinds else "repeat")
    if leak:
        sig += ":owner-leak"
    j, part = d if d else (leak[0], "t2")
    what = "cache config %s, history %s: turn %d %s with caches on = %s, with caches off = %s" % (
        cache_cfg, json.dumps(history), j + 1, part, W.jd(on[j][part])[:300], W.jd(off[j][part])[:300])
    return sig, what


AP_DIRECT = {"W": ("EDGE_W",), "DST": ("EDGE_DST",), "REL": ("EDGE_REL",), "NEW_EDGE": ("EDGE_NEW",), "NEW_NODE": ("NODE_NEW",)}


def is_minimal(history, cache_cfg, scratch):
    """No proper sub-history fails, and neither does the variant with one agent / one text throughout, nor the variant
    in which a re-added episode gets a fresh id instead, nor the variant in which an apply-carried edit is made through
    the direct upsert instead (those variants are in the enumeration themselves and are reported there; a failure that
    survives the fresh id / the direct upsert has nothing to do with the re-use of the id / the apply path)."""
    cands = []
    for i in range(len(history)):
        sub = history[:i] + history[i + 1:]
        if sub and sub[-1][0] == "T" and sum(1 for o in sub if o[0] == "T") >= 2:
            cands.append(sub)
    turns = [o for o in history if o[0] == "T"]
    if len({o[1] for o in turns}) > 1:
        for a in ("A", "B"):
            cands.append([([o[0], a, o[2]] if o[0] == "T" else o) for o in history])
    if len({o[2] for o in turns}) > 1:
        for x in sorted({o[2] for o in turns}):
            cands.append([([o[0], o[1], x] if o[0] == "T" else o) for o in history])
    for i, o in enumerate(history):
        if o[0] == "EPR":
            cands.append(history[:i] + [["EP", o[1]]] + history[i + 1:])
        if o[0] == "AP":
            # the same edit through the direct upsert entry point: a failure that survives it is not about the apply path
            cands.append(history[:i] + [list(AP_DIRECT[o[1]])] + history[i + 1:])
    for sub in cands:
        d, leak, _, _ = fails(sub, cache_cfg, scratch)
        if d is not None or leak:
            return False
    return True


def _judge(history, cache_cfg, st: Stats, scratch):
    """One history through the twin oracle; returns the caches-off observations."""
    env = []
    d, leak, on, off = fails(history, cache_cfg, scratch, env=env)
    for rep in env:
        st.add("renewals")
        for k_, v_ in sorted(rep.items()):
            if v_["same_address"]:
                st.add("renewals_new_%s_at_the_address_of_the_dead_one" % k_)
            if v_["dead_still_referenced"]:
                st.add("renewals_dead_%s_still_referenced" % k_)
    nt = sum(1 for o in history if o[0] == "T")
    st.add("transitions", 2 * len(history))
    st.add("validated", nt)
    st.add("histories")
    st.distinct("states", (cache_cfg, W.jd(on[-1]["t1"]), W.jd(on[-1]["t2"])))
    if on[-1]["t2"] is None:
        st.add("turns_yielded_at_t1")
    if any("raised" in (o.get("line") or {}) for o in on + off if isinstance(o.get("line"), dict)):
        st.add("histories_with_a_raising_turn")
    if nt >= 2:
        st.add("nontrivial")
    if d is None and not leak:
        st.distinct("outcomes", ("ok", cache_cfg, W.jd((on[-1]["t2"] or {}).get("items"))))
        return off
    st.add("failing_histories")
    if not is_minimal(history, cache_cfg, scratch):
        st.add("failing_non_minimal")
        return off
    sig, what = classify(history, cache_cfg, scratch)
    st.distinct("outcomes", ("fail", sig))
    st.violation(sig, what, {"cache_cfg": cache_cfg, "history": history})
    return off


def _worker(chunk, st: Stats, scratch):
    import logging
    logging.disable(logging.CRITICAL)
    for cache_cfg, history in chunk:
        _judge([list(o) for o in history], cache_cfg, st, scratch)
    if chunk:
        st.sample({"cache_cfg": chunk[0][0], "history": chunk[0][1]})


def _stage_obs(o):
    return W.jd([o["t1"], o["t2"]])


def _sweep_worker(chunk, st: Stats, scratch):
    """One item = (cache configuration, first change M or None, text, changes P): the plain repetition under M, then
    every listed catalogue change P between the two turns."""
    import logging
    logging.disable(logging.CRITICAL)
    for cache_cfg, m, text, params in chunk:
        t = ["T", "A", text]
        pre = [["CFG", m]] if m is not None else []
        base_off = None
        if m is not None:
            base_off = _judge(pre + [t, t], cache_cfg, st, scratch)
            st.add("sweep_histories")
            # the GEL layer's state is an input of the rerank: a rewrite of its edge weights between two turns
            off_g = _judge(pre + [t, list(GEL_EDIT), t], cache_cfg, st, scratch)
            st.add("sweep_histories")
            if _stage_obs(off_g[-1]) != _stage_obs(base_off[-1]):
                st.distinct("sweep_params_biting", "GEL_W under " + m)
            # the stored episodes are an input of every retrieval mode (cosine tiers, lexical fusion, MMR, rerank, sharded
            # search): an episode re-added under its id between two turns
            off_r = _judge(pre + [t, list(EPR_EDIT), t], cache_cfg, st, scratch)
            st.add("sweep_histories")
            if _stage_obs(off_r[-1]) != _stage_obs(base_off[-1]):
                st.distinct("sweep_params_biting", "EPR under " + m)
        # the concept graph and the state's identity are inputs of both stages under every configuration: every graph edit
        # through both entry points (direct upsert, apply-carried batch) and both renewals of the state between two turns
        for ed in GRAPH_EDITS + [("RENEW", k) for k in RENEW_KINDS]:
            off_e = _judge(pre + [t, list(ed), t], cache_cfg, st, scratch)
            st.add("sweep_histories")
            ref = base_off[-1] if base_off is not None else off_e[0]
            if _stage_obs(off_e[-1]) != _stage_obs(ref):
                name = ed[0] if len(ed) == 1 else "%s(%s)" % ed
                st.distinct("sweep_edits_biting", name)
                st.distinct("sweep_params_biting", "%s under %s" % (name, m or "default"))
        for p in params:
            h = pre + [t, ["CFG", p], t]
            off = _judge(h, cache_cfg, st, scratch)
            st.add("sweep_histories")
            if any("cfg_rejected" in (o["t1"] or {}) for o in off):
                st.add("sweep_histories_cfg_rejected_by_validator")
                continue
            # anti-vacuity: with caches off, the change visibly alters the second turn in this context
            ref = base_off[-1] if base_off is not None else off[0]
            if _stage_obs(off[-1]) != _stage_obs(ref):
                st.distinct("sweep_params_biting", p)
                st.add("sweep_histories_where_the_change_bites")
    if chunk and chunk[0][3]:
        cc, m, text, params = chunk[0]
        st.sample({"cache_cfg": cc, "history": ([["CFG", m]] if m else []) + [["T", "A", text], ["CFG", params[0]], ["T", "A", text]]})


def sweep_groups(thorough):
    """work items of the sweep leg.  quick: P alone under both stage-cache kinds, and under every mode entry M the
    changes P that address the same stage as M (all of them when M is a gate / scheduler / graph-layer entry), text
    'pear fig' (seeds in all three graphs), LRU+TTL caches.  thorough: every ordered pair (M, P) of the catalogue,
    both texts, both stage-cache kinds."""
    texts = ("apple", "pear fig") if thorough else ("pear fig",)
    allp = tuple(SWEEP_PARAMS)
    groups = [(cc, None, x, allp) for cc in SWEEP_CACHE_CONFIGS for x in texts]
    if thorough:
        groups += [(cc, m, x, allp) for cc in SWEEP_CACHE_CONFIGS for m in allp for x in texts]
    else:
        for m in SWEEP_MODES:
            sm = _stage_of(m)
            ps = allp if sm == "both" else tuple(p for p in allp if _stage_of(p) in (sm, "both"))
            groups += [(SWEEP_CACHE_CONFIGS[0], m, x, ps) for x in texts]
        groups += [(SWEEP_CACHE_CONFIGS[0], m, x, ()) for m in SWEEP_EDIT_MODES for x in texts]   # edits only
    return groups


# ---- finest-edit leg ---------------------------------------------------------------------------------------------------
# The coarse edit EDGE_W moves the weight of e1 between FINE_LO and FINE_HI.  The statement quantifies over every edge upsert,
# also one that moves the weight by the smallest representable amount; such an edit matters to the result exactly where the
# fresh computation has a discontinuity in the weight (a budget / epsilon / cap threshold, a rounding step of a reported
# value).  The leg locates those places deterministically by bisection on the caches-off engine between the two coarse
# weights - once on the full T1 observation, once on its structure (floats blanked: which nodes, which counters) - down to
# two ADJACENT floats (w-, w+) with different fresh results, and then runs [set w-, turn, set w+, turn] and the reverse
# through the twin oracle, also with the pair widened by FINE_WIDEN on both sides (edit sizes from 1 ulp to 1e-3).
FINE_LO, FINE_HI = 0.0, 0.8
FINE_WIDEN = (0.0, 1e-13, 1e-10, 1e-8, 1e-6, 1e-4, 1e-3)
FINE_CACHE_CONFIGS = ("lru_ttl", "bytes")


def _blank_floats(x):
    if isinstance(x, float):
        return None
    if isinstance(x, dict):
        return {k: _blank_floats(v) for k, v in x.items()}
    if isinstance(x, (list, tuple)):
        return [_blank_floats(v) for v in x]
    return x


def _fine_bisect(pre, turn_op, view, scratch, st):
    """adjacent floats (lo, hi) in [FINE_LO, FINE_HI] with view(fresh T1 result) different, or None"""
    def f(w):
        st.add("fine_bisection_runs")
        o = execute(pre + [["EDGE_WSET", w], turn_op], "lru_ttl", False, scratch)[-1]
        return W.jd(view(o["t1"]))
    lo, hi = FINE_LO, FINE_HI
    flo = f(lo)
    if f(hi) == flo:
        return None
    while math.nextafter(lo, hi) < hi:
        mid = lo + (hi - lo) / 2.0
        if not (lo < mid < hi):
            mid = math.nextafter(lo, hi)
        if f(mid) == flo:
            lo = mid
        else:
            hi = mid
    return lo, hi


def _fine_worker(chunk, st: Stats, scratch):
    import logging
    logging.disable(logging.CRITICAL)
    for pre, turn_op, widen in chunk:
        pre = [list(o) for o in pre]
        turn_op = list(turn_op)
        pairs = []
        for name, view in (("value", lambda x: x), ("structure", _blank_floats)):
            p_ = _fine_bisect(pre, turn_op, view, scratch, st)
            if p_ is None:
                st.add("fine_no_discontinuity_%s" % name)
                continue
            st.add("fine_discontinuities_%s" % name)
            if p_ not in pairs:
                pairs.append(p_)
        for lo, hi in pairs:
            for d in widen:
                a, b = max(lo - d, 0.0), hi + d
                for x, y in ((a, b), (b, a)):
                    h = pre + [["EDGE_WSET", x], turn_op, ["EDGE_WSET", y], turn_op]
                    for cc in FINE_CACHE_CONFIGS:
                        off = _judge(h, cc, st, scratch)
                        if _stage_obs(off[-1]) != _stage_obs(off[-2]):
                            st.add("fine_edits_biting")
                        st.add("fine_histories")
    if chunk:
        c = chunk[0]
        st.sample({"cache_cfg": "lru_ttl", "history": [list(o) for o in c[0]] + [["EDGE_WSET", FINE_LO], list(c[1]), ["EDGE_WSET", FINE_HI], list(c[1])]})


def fine_items(thorough):
    pres = [[], [["SWITCH"]]]
    turns = [["T", a, x] for a in (("A", "B") if thorough else ("A",)) for x in ("apple", "pear fig")]
    widen = FINE_WIDEN if thorough else FINE_WIDEN[:1] + FINE_WIDEN[2::2]
    return [(pre, t, widen) for pre in pres for t in turns]


def histories(depth, extra_first=()):
    """all histories of <= depth ops ending in a turn with an earlier turn; plus depth+1 histories whose first op is in extra_first"""
    out = []
    for d in range(2, depth + 2):
        for pre in itertools.product(OPS, repeat=d - 1):
            if d == depth + 1 and pre[0] not in extra_first:
                continue
            if not any(o[0] == "T" for o in pre):
                continue  # nothing populated a cache before the final turn
            for last in TURNS:
                out.append(list(pre) + [last])
    return out


def run(run: Run) -> None:
    depth = 4 if run.thorough else 3
    # quick additionally explores the depth-4 histories that start with the kill switch (turn-level cache hits only occur
    # while the version does not move)
    hs = histories(depth, extra_first=() if run.thorough else (("KILL",),))
    items = [(cc, h) for cc in CACHE_CONFIGS for h in hs]
    items += [("turnlevel_version_keyed", h) for h in (hs if depth == 3 else histories(3)) if len(h) <= 3]
    run.notes["depth"] = depth
    run.notes["alphabet_size"] = len(OPS)
    run.notes["histories"] = len(items)
    run.rule = ("every history of <=%d operations over a %d-letter alphabet (turns, graph edits by direct upsert and one carried by an apply with a non-empty approved batch, memory additions under a fresh id and under an id the index already holds, kill switch, "
                "config changes, cache-clock / logical-day advances, switch to a second live state, renewal of the state in use - released, then a brand-new state with equal ids / counts "
                "and other memories constructed at the recycled addresses) ending in a turn and containing an earlier turn, "
                "x 3 cache configurations (LRU+TTL stage caches, byte-bounded stage caches, turn-level manager alone), plus the <=3-operation "
                "histories under the turn-level manager with cache_bust_mode none (version-keyed only); each executed with caches on and off "
                "in the same process; non-trivial = >=2 turns" % (depth, len(OPS)))
    # the harness must be deterministic: same history twice -> same observation
    a = execute(hs[0], "lru_ttl", True, run.scratch)
    b = execute(hs[0], "lru_ttl", True, run.scratch)
    if W.jd(a) != W.jd(b):
        raise HarnessError("harness nondeterministic on %r" % (hs[0],))
    run.pmap(_worker, items, extra=(run.scratch,), chunks=256 if run.thorough else 64)
    # second leg: configuration-parameter sweep (see SWEEP)
    groups = sweep_groups(run.thorough)
    run.notes["sweep_catalogue"] = len(SWEEP_PARAMS)
    run.notes["sweep_first_changes"] = len({g[1] for g in groups if g[1] is not None})
    run.notes["sweep_keys_left_out_on_purpose"] = dict(NOT_SWEPT)
    run.notes["sweep_accepted_keys_unaccounted"] = sweep_key_gaps()
    run.rule += ("; plus the configuration sweep: for each of %d catalogued single-parameter changes P (the t1.* / t2.* keys the "
                 "validator accepts, the perf.* and scheduler knobs the two stages read, at zero / one / extreme values; keys left out "
                 "are listed with reasons) the histories [turn, P, turn] under both stage-cache kinds and [M, turn, turn], "
                 "[M, turn, P, turn] (and, with the GEL edge rewrite resp. an episode re-added under its id in place of P, [M, turn, GEL_W, turn] and [M, turn, EPR, turn]; "
                 "likewise [M, turn, E, turn] and [turn, E, turn] for E over the %d graph edits - relabel / new node / new edge / edge re-weighted / redirected / re-typed, each by direct upsert and "
                 "carried by an apply among re-asserted nodes - and the two renewals of the state, other memories or other graphs) for M over %s; same twin oracle; a change counts as exercised only where it alters the "
                 "caches-off result (distinct_sweep_params_biting)"
                 % (len(SWEEP_PARAMS), len(GRAPH_EDITS), "the whole catalogue x both stage-cache kinds x both texts" if run.thorough else
                    "the %d mode-selecting entries with P addressing the same stage, the edits E also under the %d relation-multiplier tables (LRU+TTL caches, text 'pear fig')"
                    % (len(SWEEP_MODES), len(SWEEP_EDIT_MODES))))
    run.pmap(_sweep_worker, groups, extra=(run.scratch,), chunks=len(groups))
    # third leg: finest edits (see FINE_*)
    fitems = fine_items(run.thorough)
    run.notes["fine_items"] = len(fitems)
    run.rule += ("; plus the finest-edit leg: for each of %d (state, turn) combinations the weight of edge e1 is bisected on the caches-off "
                 "engine between the two weights of the coarse re-weighting (%r, %r) down to two ADJACENT floats whose fresh T1 results differ "
                 "(once comparing the whole result, once its structure with floats blanked), and the histories [set w-, turn, set w+, turn] and "
                 "the reverse - also with the pair widened by %s on both sides - go through the same twin oracle under the LRU+TTL and the "
                 "byte-bounded stage caches (with the turn-level manager on)" % (len(fitems), FINE_LO, FINE_HI, list(fitems[0][2])))
    run.pmap(_fine_worker, fitems, extra=(run.scratch,), chunks=len(fitems))
    run.assume("finest-edit leg: the weight edits are direct upserts of edge e1 of the surface graph (the apply-carried form of a re-weighting is "
               "in the history alphabet with coarse weights only); where the bisection finds no weight between the coarse ones at which the fresh "
               "result changes (n_fine_no_discontinuity_*) that combination contributes nothing; n_fine_edits_biting counts the histories whose two "
               "caches-off turns differ")
    run.assume("configuration sweep: examines the two stage caches; the turn-level manager is switched off in both twin runs of that leg, because "
               "its blindness to configuration changes while the state version does not move is the listed known finding and is not re-derived per parameter")
    run.assume("not judged: the reporting fields that exist only under perf.enabled + perf.metrics.report_memory (T2 metrics t2.* / t2q.*, T1 counters "
               "t1_frontier_evicted / t1_dedup_hits / t1_visited_evicted) - a cached result carries those of the turn that computed it")
    run.assume("a turn in which the engine raises is an observation like any other (compared between the twin runs); a combination of changes "
               "the validator refuses is skipped in both twin runs and counted")
    run.assume("a re-added episode (EPR) re-uses the id of the first stored episode of owner A, with the content of a fresh addition on the first "
               "re-add and a second content on the next; what the index does with the earlier copy (append / replace) is not judged, only that "
               "caches on and off agree afterwards; a failing history that still fails with a fresh id in place of the re-used one is reported "
               "under the fresh-id history only")
    run.assume("the approved delta lists of the turns themselves are empty in these worlds (rule-based plans carry no deltas; apply still bumps the version "
               "and invalidates); an apply that carries deltas is the operation AP(kind): orchestrator.apply_changes called between two turns under the "
               "configuration in force with a batch that re-asserts the nodes the surface graph holds plus one real edit (dict-form deltas, as "
               "store.apply_deltas reads them).  The first graph of both worlds is the surface graph 'g:surface', the only graph apply writes")
    run.assume("a failing history with an apply-carried edit that still fails with the same edit made by direct upsert is reported under the direct-upsert "
               "history only; a re-typed edge toggles supports <-> associates and is observable only through t1.edge_type_mult (threshold crossings under "
               "the default table; the zero-entry tables mult_sup0 / mult_assoc0 of the catalogue)")
    run.assume("renewal of a state (RENEW): the state dict, its graph store and its memory index are released and their successors constructed at the "
               "SAME addresses (mc/recycle.py: an allocator answer CPython gives routinely, here obtained deterministically; "
               "n_renewals_new_*_at_the_address_of_the_dead_one counts it - where it is lower than n_renewals the recycling was not exercised in that many "
               "cases); the new state has the builders' graph ids / node / edge / episode counts and numbers of mutations, so every version counter "
               "and - for RENEW(mem) - every graph etag and label equals the dead state's; it gets its own turn-level manager, as a new session would")
    run.assume("TTL expiry is driven through injected clocks for the LRU+TTL stage caches and the turn-level manager; byte-bounded caches have no TTL")


def replay(case):
    import tempfile
    d = tempfile.mkdtemp(prefix="c05r", dir="/dev/shm" if os.path.isdir("/dev/shm") else None)
    try:
        dd, leak, on, off = fails(case["history"], case["cache_cfg"], d)
        if dd is None and not leak:
            return []
        return [classify(case["history"], case["cache_cfg"], d)]
    finally:
        shutil.rmtree(d, ignore_errors=True)
