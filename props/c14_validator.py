"""C14 — the config validator is total, pure and consistent across its API variants and the CLI;
an accepted configuration satisfies the documented ranges and the engine can run turns under it.

Engine E2 (k-deviation enumeration).  The *v1 key tree* is read at run time from the ``ALLOWED_*`` tables of
``configs/validate.py`` (plus the few sub-trees that have no table: scheduler, t1.decay, t1.edge_type_mult,
t4.cooldowns, t2.lancedb.partitions, budgets, flags).  An input is ``{}`` plus at most k *deviations*:

  set   a node of the tree (leaf or whole section) to one value of the 17-value alphabet
        {None, True, 0, -1, 1, .5, NaN, +inf, -inf, 10**400, "", "x", "1", [], [1], {}, {"k":1}}
        plus, for every node, the boolean False (the base alphabet holds True only) and, for every node with a documented
        FINITE domain, each member of that domain (DOMAIN alphabet, read off the clause-(d) table: the members of every
        enumeration; for list-valued enumerations each one-member list and the list of all members).  The base
        alphabet holds only strings that are outside every enumeration, so without DOMAIN no enumeration leaf would
        ever be accepted with a non-default member and no engine branch selected by one would ever run.
  key   add, in the dict at one level of the tree, one special key (value 1): an unknown string key, a
        near-miss of an allowed key, or one of the non-string keys 5, None, ("a","b")
  root  replace the whole input by a non-dict root
  echo  user-controlled TEXT that the validator echoes into its messages, carrying one member of the
        text-layer alphabet ECHO: every line boundary of the Unicode text model (LF CR CRLF VT FF FS GS RS NEL LS PS),
        the other separators that whitespace-splitting routines cut at (US TAB NBSP) and the metacharacters of
        the two string-formatting mini-languages and of escape decoding ("{", "{0}", "%s", backslash-n).
        As a key: at every dict level an unknown key with the member in its middle (value 1 and value -1, so
        that free-key maps echo it too) and an allowed key with the member appended (the did-you-mean path);
        as a value: every node set to the string "a<member>b" and to the one-element list of it.
        Messages are one per line (LF-joined in the ConfigError text, one stdout line each in the CLI); a
        shape that cuts or rewrites messages at any other code point no longer reports the same messages.

  typo  the SAME near-miss text at every dict level: for each key name that is allowed at two or more levels of the
        tree (enabled, cache, max_entries, mode, ...) one fixed typo of it (last character dropped) as an added key at
        every level - where the name is allowed the nearest key is the name, elsewhere another key or none
  mix   dict levels that hold keys of different kinds at once (two deviations in one dict): at every level every pair
        out of {an allowed key, an unknown string key, the non-string keys 5 / None / ("a","b")}, in both insertion
        orders (a single special key always sits alone in its dict)

quick: k <= 1 (every single deviation incl. False and the DOMAIN members; echo keys with all of ECHO, echo values with the 5 representatives ECHO_REPS),
plus every typo and every mix input.
thorough: additionally every pair of *sibling* deviations (same parent dict, full alphabet + False + DOMAIN members on both sides,
so a non-default enumeration member meets every value of every sibling knob), every pair of deviations below the same
top-level section that are not siblings (reduced 8-value alphabet + DOMAIN members), every single deviation x every value of ``version``, echo values with the full
ECHO alphabet, and every (allowed key + ECHO member) x every sibling node x the reduced alphabet (an echoed message
next to a second message).

History leg (both tiers).  The validator is a function of its input: what a process validated BEFORE must not change the
outcome (the CLI is always a fresh process, an embedding application is not, and the two must report the same).  A
*fresh-process outcome* F(x) is obtained for every input x of the leg in a fork of a fresh interpreter that imported the
validator and never called it (several inputs share one fork only while the validator modules' reachable state - globals,
closures, function attributes, memo caches - still equals the state right after import; a new fork is taken as soon as it
does not).  Explored histories, each in its own such process, every step compared with F:
  * every history of length 2 over the hand-picked inputs of the CLI subset (one or more per class of outcome; thorough:
    plus the tie keys), A then B through the same entry point, for each of 5 entry points (incl. A = B: "second call")
  * every history of length 2 that puts the same typo text at two dict levels (quick: the key names shared by >= 6
    levels; thorough: all shared key names)
  * two long histories over ALL single deviations + typo + mix inputs (thorough: + all echo singles): the list forward
    twice in one process, and the list backward in another (so for any two inputs there is a run in which the one
    precedes the other and a run in which it does not, and every input is validated a second time)

Oracle, evaluated on every input (each API shape gets its own freshly built input object):
 (a) totality      only ConfigError may escape validate_config / validate_config_verbose; nothing may escape
                   validate_config_api, the compat-kwargs form and the script's main()
 (b) purity        the input is deep-identical afterwards (NaN-aware, same container identities, same key order)
 (c) consistency   same verdict, same messages, same normalised config and same warnings through all shapes, and the
                   same as in a fresh process whatever was validated before (history leg);
                   main(): exit code and stdout lines agree (also with --strict); a fixed subset goes through
                   the real CLI as subprocesses (script module, ``clematis validate -- --config F``,
                   ``clematis validate --json``); their stdout is read as bytes and cut at LF only (no
                   universal-newline translation in the harness); four multi-key inputs carry all of ECHO
 (d) ranges        on an accepted input an independent table of the documented ranges / enumerations /
                   cross-field constraints holds on the normalised output (NaN fails every range)
 (e) runnable      for every distinct accepted normalised config, two real turns on the worlds W0/W1/W2
                   complete without raising (plans carry scripted deltas so that T4/apply do work too);
                   thorough: the configs reached by sibling pairs and by (single x version); configs reached
                   only by the reduced-alphabet non-sibling pairs are checked for (a)-(d) only

Signatures (every violation is minimised by dropping deviations first):
  a:raises:<ExcType>:<key path | nonstr-key | unknown-key | nearmiss-key | echo-key | root>
  b:mutates-input:<top-level key of the mutated container | <root>>
  c:<shape>:raises-instead-of-returning     c:disagree:<shape>:<verdict|messages|normalized|warnings|exit-code|first-line>
  c:cli:<form>:<traceback|exit-code|first-line|messages|warnings|normalized|stdout-not-json>
  c:history:<raises|verdict|messages|normalized|warnings|exit-code|stdout>:<kind of the input whose outcome changed:
             default | set | root | unknown-key | nearmiss-key | nonstr-key | echo-key>   (witness shrunk to a short history)
  (c: signatures of an input that carries ECHO text end in :echo-<line-boundary|whitespace|format>)
  d:range:<key path or cross-field constraint>:<nan|out-of-range>
  e:engine-raises:<default | key path(s) | nonstr-key@<level> (alone or mixed with string keys of that level)
                   | unknown-key@<level> | <level>.*>
"""
from __future__ import annotations

import contextlib
import io
import itertools
import json
import math
import os
import shutil
import signal
import subprocess
import sys
import traceback
import types
from typing import Any, Dict, List, Optional, Tuple

from mc.runner import HarnessError, REPO, Run, Stats, h64

import configs.validate as V
from clematis.errors import ConfigError
import clematis.scripts.validate as SV

# ------------------------------------------------------------------------------------------------
# alphabet
# ------------------------------------------------------------------------------------------------
HUGE = 10 ** 400

VAL = {
    "null": lambda: None,
    "true": lambda: True,
    "0": lambda: 0,
    "-1": lambda: -1,
    "1": lambda: 1,
    "0.5": lambda: 0.5,
    "nan": lambda: float("nan"),
    "inf": lambda: float("inf"),
    "-inf": lambda: float("-inf"),
    "huge": lambda: HUGE,
    "str-empty": lambda: "",
    "str-x": lambda: "x",
    "str-1": lambda: "1",
    "list-empty": lambda: [],
    "list-1": lambda: [1],
    "dict-empty": lambda: {},
    "dict-k": lambda: {"k": 1},
}
VALUES = list(VAL)  # the 17-value alphabet of the k-deviation enumeration (the echo values below are singles only)
# reduced alphabet for the non-sibling pairs of the thorough tier (one representative per class)
VALUES_REDUCED = ["null", "-1", "1", "0.5", "nan", "huge", "str-x", "dict-empty"]
ROOT_VALUES = ["null", "true", "0", "1", "nan", "huge", "str-empty", "str-x", "list-empty", "list-1"]

KEY_TOKENS = ["?unknown", "?near", "#5", "#null", "#tuple"]
_KEY_CLASS = {"?unknown": "unknown-key", "?near": "nearmiss-key", "?tie": "nearmiss-key", "#5": "nonstr-key", "#null": "nonstr-key",
              "#tuple": "nonstr-key"}

# text-layer alphabet for user-controlled text that is echoed into messages (see module docstring, "echo")
ECHO = {
    # line boundaries of the Unicode text model (exactly the set str.splitlines / universal newlines know)
    "lf": "\n", "cr": "\r", "crlf": "\r\n", "vt": "\x0b", "ff": "\x0c", "fs": "\x1c", "gs": "\x1d", "rs": "\x1e",
    "nel": "\x85", "ls": "\u2028", "ps": "\u2029",
    # further cut points of whitespace splitting / stripping
    "us": "\x1f", "tab": "\t", "nbsp": "\xa0",
    # metacharacters of str.format, %-formatting and escape decoding
    "lbrace": "{", "fmt0": "{0}", "pct": "%s", "bsn": "\\n",
}
# representatives for the value forms in the quick tier: the message separator itself, an ASCII and a non-ASCII
# line boundary that is not the separator, one metacharacter of each formatting mini-language
ECHO_REPS = ["lf", "cr", "ls", "lbrace", "pct"]
ECHO_CLASS = {}
for _m in ("lf", "cr", "crlf", "vt", "ff", "fs", "gs", "rs", "nel", "ls", "ps"):
    ECHO_CLASS[_m] = "line-boundary"
for _m in ("us", "tab", "nbsp"):
    ECHO_CLASS[_m] = "whitespace"
for _m in ("lbrace", "fmt0", "pct", "bsn"):
    ECHO_CLASS[_m] = "format"
# clause (e) in the quick tier: accepted configs that carry an ECHO member run real turns for these members only
ECHO_ENGINE_QUICK = ["cr", "lbrace", "pct"]
ECHO_KEY_FORMS = [("?e:", None), ("?e:", "-1"), ("?en:", None)]   # (token prefix, value carried by the key)


class _KeyClass:
    def __getitem__(self, tok):
        if tok.startswith("?e:") or tok.startswith("?en:"):
            return "echo-key"
        if tok.startswith("?typo:"):
            return "nearmiss-key"
        return _KEY_CLASS[tok]


KEY_CLASS = _KeyClass()


# ------------------------------------------------------------------------------------------------
# key tree
# ------------------------------------------------------------------------------------------------
def _tree() -> Dict[Tuple[str, ...], List[str]]:
    """section path -> sorted child keys, taken from the validator's own ALLOWED_* tables."""
    names = {
        (): "ALLOWED_TOP",
        ("t1",): "ALLOWED_T1",
        ("t1", "cache"): "ALLOWED_CACHE_FIELDS",
        ("t2",): "ALLOWED_T2",
        ("t2", "cache"): "ALLOWED_CACHE_FIELDS",
        ("t2", "ranking"): "ALLOWED_RANKING_FIELDS",
        ("t2", "hybrid"): "ALLOWED_T2_HYBRID",
        ("t2", "reader"): "ALLOWED_T2_READER",
        ("t2", "quality"): "ALLOWED_T2_QUALITY",
        ("t2", "quality", "normalizer"): "ALLOWED_T2_QUALITY_NORMALIZER",
        ("t2", "quality", "aliasing"): "ALLOWED_T2_QUALITY_ALIASING",
        ("t2", "quality", "lexical"): "ALLOWED_T2_QUALITY_LEXICAL",
        ("t2", "quality", "lexical", "bm25"): "ALLOWED_T2_QUALITY_BM25",
        ("t2", "quality", "fusion"): "ALLOWED_T2_QUALITY_FUSION",
        ("t2", "quality", "mmr"): "ALLOWED_T2_QUALITY_MMR",
        ("t2", "quality", "cache"): "ALLOWED_T2_QUALITY_CACHE",
        ("t3",): "ALLOWED_T3",
        ("t3", "llm"): "ALLOWED_T3_LLM",
        ("t3", "llm", "fixtures"): "ALLOWED_T3_LLM_FIXTURES",
        ("t3", "reflection"): "ALLOWED_T3_REFLECTION",
        ("t3", "dialogue"): "ALLOWED_T3_DIALOGUE",
        ("t3", "policy"): "ALLOWED_T3_POLICY",
        ("t4",): "ALLOWED_T4",
        ("t4", "cache"): "ALLOWED_CACHE_FIELDS",
        ("graph",): "ALLOWED_GRAPH",
        ("graph", "update"): "ALLOWED_GRAPH_UPDATE",
        ("graph", "decay"): "ALLOWED_GRAPH_DECAY",
        ("graph", "merge"): "ALLOWED_GRAPH_MERGE",
        ("graph", "split"): "ALLOWED_GRAPH_SPLIT",
        ("graph", "promotion"): "ALLOWED_GRAPH_PROMOTION",
        ("perf",): "ALLOWED_PERF",
        ("perf", "t1"): "ALLOWED_PERF_T1",
        ("perf", "t1", "cache"): "ALLOWED_PERF_T1_CACHE",
        ("perf", "t1", "caps"): "ALLOWED_PERF_T1_CAPS",
        ("perf", "t2"): "ALLOWED_PERF_T2",
        ("perf", "t2", "cache"): "ALLOWED_PERF_T2_CACHE",
        ("perf", "t2", "reader"): "ALLOWED_PERF_T2_READER",
        ("perf", "t2", "reader", "partitions"): "ALLOWED_PERF_T2_READER_PARTITIONS",
        ("perf", "snapshots"): "ALLOWED_PERF_SNAP",
        ("perf", "metrics"): "ALLOWED_PERF_METRICS",
        ("perf", "parallel"): "ALLOWED_PERF_PARALLEL",
    }
    tree: Dict[Tuple[str, ...], List[str]] = {}
    for path, nm in names.items():
        tab = getattr(V, nm, None)
        if not isinstance(tab, (set, frozenset)) or not tab:
            raise HarnessError("seam missing: configs.validate.%s" % nm)
        tree[path] = sorted(tab)
    # sub-trees without an ALLOWED_* table: keys as documented in DEFAULTS / read by the validator
    sched = V.DEFAULTS.get("scheduler")
    if not isinstance(sched, dict):
        raise HarnessError("seam missing: configs.validate.DEFAULTS['scheduler']")
    tree[("scheduler",)] = sorted(sched)
    tree[("scheduler", "budgets")] = sorted(sched["budgets"])
    tree[("scheduler", "fairness")] = sorted(sched["fairness"])
    tree[("t1", "decay")] = ["alpha", "floor", "mode", "rate"]
    tree[("t1", "edge_type_mult")] = ["supports"]
    tree[("t4", "cooldowns")] = ["EditGraph"]
    tree[("t2", "lancedb")] = ["partitions"]
    tree[("t2", "lancedb", "partitions")] = ["by", "shard_order"]
    tree[("budgets",)] = ["time_ms"]
    tree[("flags",)] = ["allow_reflection"]
    for path in tree:
        if path and path[-1] not in tree[path[:-1]]:
            raise HarnessError("key tree out of date: %s not allowed under %s" % (path[-1], ".".join(path[:-1]) or "<root>"))
    return tree


TREE = _tree()
NODES: List[Tuple[str, ...]] = sorted(p + (k,) for p, ks in TREE.items() for k in ks)


def _echo_text(c: str) -> str:
    return "a" + ECHO[c] + "b"


for _c in ECHO:
    VAL["str-e:" + _c] = (lambda c=_c: _echo_text(c))
    VAL["list-e:" + _c] = (lambda c=_c: [_echo_text(c)])


def _near_miss(section: Tuple[str, ...]) -> str:
    """a key at edit distance 1 of an allowed key of this section that is itself not allowed"""
    keys = TREE[section]
    for k in keys:
        cand = k + "x"
        if cand not in keys:
            return cand
    raise HarnessError("no near-miss key for %r" % (section,))


def _lev(a: str, b: str) -> int:
    prev = list(range(len(b) + 1))
    for i, ca in enumerate(a, 1):
        cur = [i]
        for j, cb in enumerate(b, 1):
            cur.append(min(prev[j] + 1, cur[j - 1] + 1, prev[j - 1] + (ca != cb)))
        prev = cur
    return prev[-1]


def _tie_key(section: Tuple[str, ...]) -> Optional[str]:
    """an unknown key whose smallest edit distance (<= 2, the suggestion radius) is reached by two or more
    allowed keys of this section: which one the message suggests must not depend on set iteration order"""
    keys = list(TREE[section])
    cands = []
    for k in keys:
        for i in range(len(k)):
            cands.append(k[:i] + "z" + k[i + 1:])
            cands.append(k[:i] + k[i + 1:])
        cands.append(k + "z")
    for c in sorted(set(cands), key=lambda x: (len(x), x)):
        if not c or c in keys:
            continue
        ds = sorted(_lev(c, k) for k in keys)
        if len(ds) >= 2 and ds[0] <= 2 and ds[0] == ds[1]:
            return c
    return None


def tie_sections() -> List[Tuple[str, ...]]:
    return [sec for sec in sorted(TREE) if len(TREE[sec]) >= 2 and _tie_key(sec) is not None]


def shared_typos(min_levels: int = 2) -> List[Tuple[str, str]]:
    """[(key name, typo)] for every key name that is allowed at >= min_levels dict levels of the tree (most widely
    shared first).  The typo is ONE fixed string at edit distance 1 of the name (last character dropped, else 'x'
    appended) that is not an allowed key anywhere; placed at different levels the same text has different nearest
    allowed keys (the name itself where it is allowed, another key or none elsewhere)."""
    count: Dict[str, int] = {}
    everywhere = set()
    for ks in TREE.values():
        everywhere.update(ks)
        for k in ks:
            count[k] = count.get(k, 0) + 1
    out, seen = [], set()
    for name in sorted(count, key=lambda k: (-count[k], k)):
        if count[name] < min_levels:
            continue
        for cand in (name[:-1], name + "x"):
            if cand and cand not in everywhere and cand not in seen:
                seen.add(cand)
                out.append((name, cand))
                break
    return out


_TYPO = dict(shared_typos(2))


def _key_obj(section: Tuple[str, ...], token: str):
    if token == "?unknown":
        return "zzz_unknown_key"
    if token.startswith("?typo:"):   # the same near-miss text wherever it is placed (see shared_typos)
        return _TYPO[token[6:]]
    if token == "?tie":
        k = _tie_key(section)
        if k is None:
            raise HarnessError("no tie key for %r" % (section,))
        return k
    if token == "?near":
        return _near_miss(section)
    if token.startswith("?e:"):      # unknown key, far from every allowed key, ECHO member in the middle
        return "zzz" + ECHO[token[3:]] + "unknown_key"
    if token.startswith("?en:"):     # allowed key + ECHO member (within the suggestion radius for 1-2 code points)
        return TREE[section][0] + ECHO[token[4:]]
    if token == "#5":
        return 5
    if token == "#null":
        return None
    if token == "#tuple":
        return ("a", "b")
    raise HarnessError("bad key token %r" % token)


# ------------------------------------------------------------------------------------------------
# deviations.  JSON forms:  {"op":"set","path":[..],"v":name} | {"op":"key","at":[..],"k":token} | {"op":"root","v":name}
# ------------------------------------------------------------------------------------------------
def dev_set(path, v):
    return {"op": "set", "path": list(path), "v": v}


def dev_key(at, tok, v=None):
    d = {"op": "key", "at": list(at), "k": tok}
    if v is not None:
        d["v"] = v  # value carried by the added key (default 1)
    return d


def dev_root(v):
    return {"op": "root", "v": v}


def echo_member(d) -> Optional[str]:
    """the ECHO member a deviation carries (None for the deviations of the base alphabet)"""
    if d["op"] == "key":
        k = d["k"]
        return k[3:] if k.startswith("?e:") else (k[4:] if k.startswith("?en:") else None)
    v = d.get("v", "")
    return v.split(":", 1)[1] if (v.startswith("str-e:") or v.startswith("list-e:")) else None


def echo_suffix(devs) -> str:
    """signature component: the class of echoed text the failing input carries"""
    cl = set(ECHO_CLASS[m] for m in (echo_member(d) for d in devs) if m)
    return ":echo-" + cl.pop() if len(cl) == 1 else ""


def dev_parent(d) -> Tuple[str, ...]:
    return tuple(d["path"][:-1]) if d["op"] == "set" else tuple(d["at"])


def dev_top(d) -> Optional[str]:
    p = d["path"] if d["op"] == "set" else d["at"]
    return p[0] if p else None


def dev_class(d) -> str:
    """signature component of one deviation: the key path (set), the kind of special key, or 'root'"""
    if d["op"] == "set":
        return ".".join(d["path"])
    if d["op"] == "key":
        return KEY_CLASS[d["k"]]
    return "root"


def devs_class(devs, levels: bool = False) -> str:
    """signature component of a set of deviations.  With levels=True (clause e) a special key carries the dict
    level it was added at, near-miss keys count as unknown keys, and a set-deviation that is a sibling of a
    special key is abbreviated to '<level>.*' (the defect then is about the mix of keys, not about that leaf);
    next to a NON-STRING key at the same level, sibling deviations are dropped from the signature altogether"""
    if not devs:
        return "default"
    if not levels:
        return "+".join(sorted(set(dev_class(d) for d in devs)))
    key_levels = set(tuple(d["at"]) for d in devs if d["op"] == "key")
    nonstr_levels = set(tuple(d["at"]) for d in devs if d["op"] == "key" and KEY_CLASS[d["k"]] == "nonstr-key")
    out = set()
    for d in devs:
        if d["op"] == "key":
            lvl = tuple(d["at"])
            if KEY_CLASS[d["k"]] == "nonstr-key":
                out.add("nonstr-key@%s" % (".".join(lvl) or "<root>"))
            elif lvl not in nonstr_levels:  # a string key next to a non-string key: the mix is the input class
                out.add("unknown-key@%s" % (".".join(lvl) or "<root>"))
        elif d["op"] == "set" and tuple(d["path"][:-1]) in nonstr_levels:
            continue
        elif d["op"] == "set" and tuple(d["path"][:-1]) in key_levels:
            out.add("%s.*" % (".".join(d["path"][:-1]) or "<root>"))
        else:
            out.add(dev_class(d))
    return "+".join(sorted(out))


def compatible(a, b) -> bool:
    """two deviations can be combined into one input without one overwriting the other"""
    if a["op"] == "root" or b["op"] == "root":
        return False
    if a["op"] == "set" and b["op"] == "set":
        pa, pb = a["path"], b["path"]
        n = min(len(pa), len(pb))
        return pa[:n] != pb[:n]
    if a["op"] == "key" and b["op"] == "key":
        return not (a["at"] == b["at"] and a["k"] == b["k"])
    s, k = (a, b) if a["op"] == "set" else (b, a)
    ps, at = s["path"], k["at"]
    # the set must not replace the dict (or an ancestor of the dict) that receives the special key
    return not (len(ps) <= len(at) and at[: len(ps)] == ps)


def build(devs):
    """a FRESH input object for the given deviations"""
    for d in devs:
        if d["op"] == "root":
            return VAL[d["v"]]()
    root: Dict[Any, Any] = {}
    for d in devs:
        if d["op"] == "set":
            cur = root
            for k in d["path"][:-1]:
                cur = cur.setdefault(k, {})
            cur[d["path"][-1]] = VAL[d["v"]]()
        else:
            cur = root
            for k in d["at"]:
                cur = cur.setdefault(k, {})
            cur[_key_obj(tuple(d["at"]), d["k"])] = VAL[d.get("v", "1")]()
    return root


def singles() -> List[List[dict]]:
    out: List[List[dict]] = [[]]
    for p in NODES:
        for v in node_values(p, VALUES):
            out.append([dev_set(p, v)])
    for sec in sorted(TREE):
        for tok in KEY_TOKENS:
            out.append([dev_key(sec, tok)])
    for v in ROOT_VALUES:
        out.append([dev_root(v)])
    return out


def echo_singles(deep: bool) -> List[List[dict]]:
    """every single deviation that puts one member of ECHO into echoed text (key forms: all members at every
    level; value forms: representatives in the quick tier, all members in the thorough tier)"""
    out: List[List[dict]] = []
    for sec in sorted(TREE):
        for c in ECHO:
            for pref, v in ECHO_KEY_FORMS:
                out.append([dev_key(sec, pref + c, v)])
    for p in NODES:
        for c in (list(ECHO) if deep else ECHO_REPS):
            out.append([dev_set(p, "str-e:" + c)])
            out.append([dev_set(p, "list-e:" + c)])
    return out


def typo_singles() -> List[List[dict]]:
    """the SAME near-miss text at every dict level: for every key name shared by >= 2 levels its typo, at each level"""
    return [[dev_key(sec, "?typo:" + name)] for name, _ in shared_typos(2) for sec in sorted(TREE)]


MIX_TOKENS = ["?unknown", "#5", "#null", "#tuple"]


def mixed_key_inputs() -> List[List[dict]]:
    """dict levels that hold keys of DIFFERENT kinds at once: at every level every pair out of {an allowed key (value 1),
    an unknown string key, the non-string keys 5 / None / ("a","b")}, in both insertion orders.  A single special key
    always sits alone in its dict (the base input is {}), so nothing that relates two keys of one dict to each other
    (ordering, comparing, merging, de-duplicating them) ever meets keys of two types without these."""
    out: List[List[dict]] = []
    for sec in sorted(TREE):
        kids = [dev_set(sec + (TREE[sec][0],), "1")] + [dev_key(sec, t) for t in MIX_TOKENS]
        for a, b in itertools.combinations(kids, 2):
            if compatible(a, b):
                out.append([a, b])
                out.append([b, a])
    return out


def _devs_of_node(p, values):
    return [dev_set(p, v) for v in values]


def pair_groups() -> List[Tuple[str, Any, Any]]:
    """work items for the thorough tier; each item expands (inside the worker) into many pairs"""
    items: List[Tuple[str, Any, Any]] = []
    # (1) sibling pairs: children of one dict (set x set, set x key, key x key), full alphabet
    for sec in sorted(TREE):
        kids = [("n", sec + (k,)) for k in TREE[sec]] + [("k", tok) for tok in KEY_TOKENS]
        for a, b in itertools.combinations(kids, 2):
            items.append(("sib", [list(sec), a], [list(sec), b]))
    # (2) non-sibling pairs below one top-level section, reduced alphabet
    by_top: Dict[str, List[Tuple[str, ...]]] = {}
    for p in NODES:
        by_top.setdefault(p[0], []).append(p)
    for top in sorted(by_top):
        ps = by_top[top]
        for a, b in itertools.combinations(ps, 2):
            if a[:-1] == b[:-1]:
                continue  # siblings: done above
            n = min(len(a), len(b))
            if a[:n] == b[:n]:
                continue  # ancestor / descendant
            items.append(("sec", list(a), list(b)))
    # (3) every single deviation x version
    for p in NODES:
        if p == ("version",):
            continue
        items.append(("ver", list(p), None))
    for sec in sorted(TREE):
        items.append(("verkey", list(sec), None))
    # (4) an echoed key next to a second deviation of the same dict: (allowed key + ECHO member) x sibling node
    for sec in sorted(TREE):
        for k in TREE[sec]:
            items.append(("echo", list(sec), list(sec + (k,))))
    return items


def expand_group(item) -> List[List[dict]]:
    kind, a, b = item
    out: List[List[dict]] = []
    if kind == "sib":
        def devs(x):
            sec, (t, what) = x
            if t == "n":
                return _devs_of_node(tuple(what), node_values(what, VALUES))
            return [dev_key(sec, what)]
        for da in devs(a):
            for db in devs(b):
                if compatible(da, db):
                    out.append([da, db])
                    if da["op"] == "key" or db["op"] == "key":
                        out.append([db, da])  # insertion order of a mixed-key level (see mixed_key_inputs)
    elif kind == "sec":
        for va in VALUES_REDUCED + DOMAIN.get(tuple(a), []):
            for vb in VALUES_REDUCED + DOMAIN.get(tuple(b), []):
                out.append([dev_set(a, va), dev_set(b, vb)])
    elif kind == "ver":
        for v in node_values(a, VALUES):
            for vv in node_values(("version",), VALUES):
                da, db = dev_set(a, v), dev_set(("version",), vv)
                if compatible(da, db):
                    out.append([da, db])
    elif kind == "echo":
        for c in ECHO:
            for v in VALUES_REDUCED:
                da, db = dev_key(a, "?en:" + c), dev_set(b, v)
                if compatible(da, db):
                    out.append([da, db])
    elif kind == "verkey":
        for tok in KEY_TOKENS:
            for vv in node_values(("version",), VALUES):
                da, db = dev_key(a, tok), dev_set(("version",), vv)
                if compatible(da, db):
                    out.append([da, db])
    return out


# ------------------------------------------------------------------------------------------------
# NaN-aware canonical forms
# ------------------------------------------------------------------------------------------------
def _leaf(o):
    return (type(o).__name__, repr(o))


def fingerprint(o):
    """structure + container identities + key order (purity check)"""
    if isinstance(o, dict):
        return ("d", id(o), tuple((fingerprint(k) if isinstance(k, tuple) else _leaf(k), fingerprint(v)) for k, v in o.items()))
    if isinstance(o, list):
        return ("l", id(o), tuple(fingerprint(v) for v in o))
    if isinstance(o, tuple):
        return ("t", tuple(fingerprint(v) for v in o))
    return _leaf(o)


def canon(o):
    """identity-free, order-free (dict keys), NaN-aware canonical value; JSON-able"""
    if isinstance(o, dict):
        return {"d": sorted(([repr(k), canon(v)] for k, v in o.items()), key=lambda kv: kv[0])}
    if isinstance(o, (list, tuple)):
        return {"l": [canon(v) for v in o]}
    return [type(o).__name__, repr(o)]


def deq(a, b) -> bool:
    """NaN-aware, type-strict deep equality (1, 1.0 and True are different; dict key order is irrelevant)"""
    if type(a) is not type(b):
        return False
    if isinstance(a, dict):
        if len(a) != len(b):
            return False
        for k, va in a.items():
            if k not in b:
                return False
            if not deq(va, b[k]):
                return False
        # keys that are == but of another type (1 / True / 1.0)
        return sorted(map(repr, a.keys())) == sorted(map(repr, b.keys())) if any(not isinstance(k, str) for k in a) else True
    if isinstance(a, (list, tuple)):
        return len(a) == len(b) and all(deq(x, y) for x, y in zip(a, b))
    if isinstance(a, float):
        return a == b or (a != a and b != b)
    return a == b


def norm_hash(norm) -> int:
    """stable digest of a normalised config (NaN-aware, distinguishes 1 / 1.0 / True)"""
    try:
        return h64(json.dumps(norm, sort_keys=True, ensure_ascii=False).encode("utf-8", "surrogatepass"))
    except Exception:
        return h64(canon(norm))


def _first_diff(a, b, path=()):
    """path (tuple of keys) of the first container whose fingerprint differs"""
    if a == b:
        return None
    if a[0] == "d" and b[0] == "d" and a[1] == b[1]:
        ka = [k for k, _ in a[2]]
        kb = [k for k, _ in b[2]]
        if ka != kb:
            return path
        for (k, va), (_, vb) in zip(a[2], b[2]):
            r = _first_diff(va, vb, path + (str(k[1]).strip("'") if isinstance(k, tuple) and len(k) == 2 else str(k),))
            if r is not None:
                return r
        return path
    return path


# ------------------------------------------------------------------------------------------------
# the API shapes
# ------------------------------------------------------------------------------------------------
class _Outcome:
    __slots__ = ("shape", "escaped", "verdict", "errs", "norm", "warnings", "rc", "stdout")

    def __init__(self, shape):
        self.shape = shape
        self.escaped = None  # exception instance that escaped (incl. ConfigError)
        self.verdict = None  # "accept" | "reject" | None
        self.errs = None
        self.norm = None
        self.warnings = None
        self.rc = None
        self.stdout = None


def _msgs(text: str) -> List[str]:
    return sorted(m.strip() for m in str(text).split("\n") if m.strip())


def _call_main(inp, argv):
    if not hasattr(SV, "_load_config") or not hasattr(SV, "main"):
        raise HarnessError("seam missing: clematis.scripts.validate._load_config/main")
    orig = SV._load_config
    SV._load_config = lambda path: inp
    buf = io.StringIO()
    ebuf = io.StringIO()
    try:
        with contextlib.redirect_stdout(buf), contextlib.redirect_stderr(ebuf):
            rc = SV.main(argv)
    finally:
        SV._load_config = orig
    return rc, buf.getvalue()


SHAPES = ["validate_config", "validate_config_api", "validate_config_verbose", "validate_config(strict=,verbose=)",
          "script.main", "script.main --strict"]


def run_shape(shape: str, inp) -> _Outcome:
    o = _Outcome(shape)
    try:
        if shape == "validate_config":
            o.norm = V.validate_config(inp)
            o.verdict = "accept"
        elif shape == "validate_config_api":
            ok, errs, norm = V.validate_config_api(inp)
            o.verdict = "accept" if ok else "reject"
            o.errs = _msgs("\n".join(str(e) for e in errs)) if not ok else []
            o.norm = norm
            if ok and errs:
                o.verdict = "malformed"
        elif shape == "validate_config_verbose":
            o.norm, w = V.validate_config_verbose(inp)
            o.warnings = sorted(str(x) for x in w)
            o.verdict = "accept"
        elif shape == "validate_config(strict=,verbose=)":
            errs, w = V.validate_config(inp, strict=False, verbose=True)
            o.verdict = "reject" if errs else "accept"
            o.errs = _msgs("\n".join(str(e) for e in errs))
            o.warnings = sorted(str(x) for x in w)
        elif shape == "script.main":
            o.rc, o.stdout = _call_main(inp, ["validate_config.py", "in-memory.yaml"])
        elif shape == "script.main --strict":
            o.rc, o.stdout = _call_main(inp, ["validate_config.py", "--strict", "in-memory.yaml"])
        else:
            raise HarnessError("unknown shape " + shape)
    except HarnessError:
        raise
    except ConfigError as e:
        o.escaped = e
        o.verdict = "reject"
        o.errs = _msgs(str(e))
    except BaseException as e:  # noqa  (SystemExit from argparse would also be a finding)
        if isinstance(e, KeyboardInterrupt):
            raise
        o.escaped = e
        o.verdict = None
    return o


# ------------------------------------------------------------------------------------------------
# (d) independent table of the documented ranges (transcribed from the constraint texts, not from the checks)
# ------------------------------------------------------------------------------------------------
MISSING = object()


def _get(d, path):
    cur = d
    for k in path:
        if not isinstance(cur, dict) or k not in cur:
            return MISSING
        cur = cur[k]
    return cur


def _isnum(v):
    return isinstance(v, (int, float)) and not (isinstance(v, float) and math.isnan(v))


def _rng(lo=None, hi=None, lo_open=False, hi_open=False, integer=False):
    def pred(v):
        if not _isnum(v):
            return "nan" if isinstance(v, float) else "type"
        if lo is not None and (v <= lo if lo_open else v < lo):
            return "below"
        if hi is not None and (v >= hi if hi_open else v > hi):
            return "above"
        return None
    return pred


def _enum(*allowed):
    def pred(v):
        return None if (isinstance(v, str) and v in allowed) else "enum"
    pred.members = tuple(allowed)  # the documented domain; also feeds the DOMAIN alphabet (see _domains)
    return pred


def _nonempty_str(v):
    return None if (isinstance(v, str) and v.strip()) else "type"


def _str_list(v):
    return None if (isinstance(v, list) and all(isinstance(x, str) for x in v)) else "type"


def _finite(v):
    if not _isnum(v):
        return "nan" if isinstance(v, float) else "type"
    return None if abs(v) != float("inf") else "above"


def _opt(pred):
    return lambda v: None if v is None else pred(v)


I = dict(integer=True)
RANGES: List[Tuple[Tuple[str, ...], Any]] = [
    (("version",), _enum("v1")),
    (("k_surface",), _rng(1, 65536, **I)),
    (("t1", "cache", "max_entries"), _rng(0, **I)),
    (("t1", "cache", "ttl_s"), _rng(0, **I)),
    (("t1", "iter_cap"), _rng(0, **I)),
    (("t1", "queue_budget"), _rng(0, **I)),
    (("t1", "node_budget"), _rng(0, lo_open=True)),
    (("t1", "radius_cap"), _rng(0, **I)),
    (("t1", "decay", "mode"), _enum("exp_floor", "attn_quad")),
    (("t1", "decay", "rate"), _rng(0, float("inf"), hi_open=True)),
    (("t1", "decay", "floor"), _rng(0, float("inf"), hi_open=True)),
    (("t1", "decay", "alpha"), _rng(0, float("inf"), hi_open=True)),
    (("t2", "backend"), _enum("inmemory", "lancedb")),
    (("t2", "k_retrieval"), _rng(1, **I)),
    (("t2", "sim_threshold"), _rng(-1.0, 1.0)),
    (("t2", "tiers"), _str_list),
    (("t2", "exact_recent_days"), _rng(0, 36500, **I)),
    (("t2", "clusters_top_m"), _rng(0, **I)),
    (("t2", "residual_cap_per_turn"), _rng(0, **I)),
    (("t2", "reader_batch"), _rng(1, **I)),
    (("t2", "embed_root"), _nonempty_str),
    (("t2", "cache", "max_entries"), _rng(0, **I)),
    (("t2", "cache", "ttl_s"), _rng(0, **I)),
    (("t2", "ranking", "alpha_sim"), _rng(0, 1)),
    (("t2", "ranking", "beta_recency"), _rng(0, 1)),
    (("t2", "ranking", "gamma_importance"), _rng(0, 1)),
    (("t2", "hybrid", "anchor_top_m"), _rng(1, **I)),
    (("t2", "hybrid", "walk_hops"), _rng(1, 2, **I)),
    (("t2", "hybrid", "edge_threshold"), _rng(0, 1)),
    (("t2", "hybrid", "lambda_graph"), _rng(0, 1)),
    (("t2", "hybrid", "damping"), _rng(0, 1)),
    (("t2", "hybrid", "degree_norm"), _enum("none", "invdeg")),
    (("t2", "hybrid", "max_bonus"), _rng(0)),
    (("t2", "hybrid", "k_max"), _rng(1, **I)),
    (("t2", "reader", "mode"), _enum("flat", "partition", "auto")),
    (("t2", "lancedb", "partitions", "by"), _str_list),
    (("t2", "lancedb", "partitions", "shard_order"), _enum("lex", "score")),
    (("t2", "quality", "trace_dir"), _nonempty_str),
    (("t2", "quality", "normalizer", "case"), _enum("lower")),
    (("t2", "quality", "normalizer", "unicode"), _enum("NFKC")),
    (("t2", "quality", "normalizer", "stopwords"), _nonempty_str),
    (("t2", "quality", "normalizer", "stemmer"), _enum("none", "porter-lite")),
    (("t2", "quality", "normalizer", "min_token_len"), _rng(1, **I)),
    (("t2", "quality", "aliasing", "map_path"), _nonempty_str),
    (("t2", "quality", "aliasing", "max_expansions_per_token"), _rng(0, **I)),
    (("t2", "quality", "lexical", "bm25", "doclen_floor"), _rng(0, **I)),
    (("t2", "quality", "lexical", "stopwords"), _enum("none", "en-basic")),
    (("t2", "quality", "fusion", "mode"), _enum("score_interp")),
    (("t2", "quality", "fusion", "score_norm"), _enum("zscore", "minmax")),
    (("t2", "quality", "mmr", "lambda"), _rng(0, 1)),
    (("t2", "quality", "mmr", "k"), _rng(1, **I)),
    (("t2", "quality", "mmr", "k_final"), _rng(1, **I)),
    (("t3", "max_rag_loops"), _rng(0, 1, **I)),
    (("t3", "max_ops_per_turn"), _rng(1, 16, **I)),
    (("t3", "backend"), _enum("rulebased", "llm")),
    (("t3", "tokens"), _rng(1, **I)),
    (("t3", "temp"), _rng(0, 1)),
    (("t3", "dialogue", "template"), _nonempty_str),
    (("t3", "dialogue", "include_top_k_snippets"), _rng(0, **I)),
    (("t3", "policy", "tau_high"), _rng(0, 1)),
    (("t3", "policy", "tau_low"), _rng(0, 1)),
    (("t3", "policy", "epsilon_edit"), _rng(0, 1)),
    (("t3", "reflection", "backend"), _enum("rulebased", "llm")),
    (("t3", "reflection", "summary_tokens"), _rng(0, **I)),
    (("t3", "reflection", "topk_snippets"), _rng(0, **I)),
    (("t3", "llm", "provider"), _enum("fixture", "ollama")),
    (("t3", "llm", "model"), _nonempty_str),
    (("t3", "llm", "endpoint"), _nonempty_str),
    (("t3", "llm", "max_tokens"), _rng(1, **I)),
    (("t3", "llm", "temp"), _rng(0, 1)),
    (("t3", "llm", "timeout_ms"), _rng(1, **I)),
    (("t4", "delta_norm_cap_l2"), _rng(0, lo_open=True)),
    (("t4", "novelty_cap_per_node"), _rng(0, 1, lo_open=True)),
    (("t4", "churn_cap_edges"), _rng(0, **I)),
    (("t4", "weight_min"), _rng(-1, 1)),
    (("t4", "weight_max"), _rng(-1, 1)),
    (("t4", "snapshot_every_n_turns"), _rng(1, **I)),
    (("t4", "snapshot_dir"), _nonempty_str),
    (("t4", "cache_bust_mode"), _enum("none", "on-apply")),
    (("t4", "cache", "max_entries"), _rng(0, **I)),
    (("t4", "cache", "ttl_sec"), _rng(0, **I)),
    (("t4", "cache", "namespaces"), _str_list),
    (("graph", "coactivation_threshold"), _rng(0, 1)),
    (("graph", "observe_top_k"), _rng(1, **I)),
    (("graph", "pair_cap_per_obs"), _rng(0, **I)),
    (("graph", "update", "mode"), _enum("additive", "proportional")),
    (("graph", "update", "alpha"), _rng(0, lo_open=True)),
    (("graph", "decay", "half_life_turns"), _rng(1, **I)),
    (("graph", "decay", "floor"), _rng(0)),
    (("graph", "merge", "min_size"), _rng(2, **I)),
    (("graph", "merge", "min_avg_w"), _rng(0, 1)),
    (("graph", "merge", "max_diameter"), _rng(1, **I)),
    (("graph", "merge", "cap_per_turn"), _rng(0, **I)),
    (("graph", "split", "weak_edge_thresh"), _rng(0, 1)),
    (("graph", "split", "min_component_size"), _rng(2, **I)),
    (("graph", "split", "cap_per_turn"), _rng(0, **I)),
    (("graph", "promotion", "label_mode"), _enum("lexmin", "concat_k")),
    (("graph", "promotion", "topk_label_ids"), _rng(1, **I)),
    (("graph", "promotion", "attach_weight"), _rng(-1, 1)),
    (("graph", "promotion", "cap_per_turn"), _rng(0, **I)),
    (("scheduler", "policy"), _enum("round_robin", "fair_queue")),
    (("scheduler", "quantum_ms"), _rng(1, **I)),
    (("scheduler", "budgets", "t1_pops"), _opt(_rng(0, **I))),
    (("scheduler", "budgets", "t1_iters"), _opt(_rng(0, **I))),
    (("scheduler", "budgets", "t2_k"), _opt(_rng(0, **I))),
    (("scheduler", "budgets", "t3_ops"), _opt(_rng(0, **I))),
    (("scheduler", "budgets", "time_ms_reflection"), _opt(_rng(1, **I))),
    (("scheduler", "budgets", "ops_reflection"), _opt(_rng(0, **I))),
    (("scheduler", "budgets", "wall_ms"), _opt(_rng(1, **I))),
    (("scheduler", "fairness", "max_consecutive_turns"), _rng(1, **I)),
    (("scheduler", "fairness", "aging_ms"), _rng(0, **I)),
    (("perf", "t1", "caps", "frontier"), _rng(1, **I)),
    (("perf", "t1", "caps", "visited"), _rng(1, **I)),
    (("perf", "t1", "queue_cap"), _rng(1, **I)),
    (("perf", "t1", "dedupe_window"), _rng(1, **I)),
    (("perf", "t1", "cache", "max_entries"), _rng(0, **I)),
    (("perf", "t1", "cache", "max_bytes"), _rng(0, **I)),
    (("perf", "t2", "embed_dtype"), _enum("fp32", "fp16")),
    (("perf", "t2", "embed_store_dtype"), _enum("fp32", "fp16")),
    (("perf", "t2", "cache", "max_entries"), _rng(0, **I)),
    (("perf", "t2", "cache", "max_bytes"), _rng(0, **I)),
    (("perf", "t2", "reader", "partitions", "layout"), _enum("owner_quarter", "none")),
    (("perf", "t2", "reader", "partitions", "path"), _nonempty_str),
    (("perf", "snapshots", "compression"), _enum("none", "zstd")),
    (("perf", "snapshots", "level"), _rng(1, 19, **I)),
    (("perf", "snapshots", "every_n_turns"), _rng(1, **I)),
    (("perf", "parallel", "max_workers"), _rng(0, **I)),
]


# ------------------------------------------------------------------------------------------------
# DOMAIN alphabet: every leaf with a documented FINITE domain takes every member of that domain
# ------------------------------------------------------------------------------------------------
# list-valued leaves whose elements come from a documented finite set (clause (d) checks the same sets)
LIST_DOMAINS: Dict[Tuple[str, ...], Tuple[str, ...]] = {
    ("t4", "cache", "namespaces"): ("t2:semantic",),
    ("perf", "t2", "reader", "partitions", "by"): ("owner", "quarter"),
}
BOOL_OTHER = "false"  # the member of the boolean domain that the base alphabet lacks (it has True only)
VAL[BOOL_OTHER] = lambda: False


def _domains() -> Dict[Tuple[str, ...], List[str]]:
    """node -> value names of the documented members of its domain, read off the clause-(d) table: each member of an
    enumeration, and for list-valued enumerations each one-member list and the list of all members.  The base alphabet
    only holds values that are OUTSIDE every enumeration ("x", "1", ""), so without these an enumeration leaf is
    never accepted with anything but its default, and no engine branch selected by a non-default member ever runs."""
    nodeset = set(NODES)
    dom: Dict[Tuple[str, ...], List[str]] = {}
    for path, pred in RANGES:
        ms = getattr(pred, "members", None)
        if not ms or path not in nodeset:
            continue
        for m in ms:
            name = "enum:" + m
            VAL[name] = (lambda m=m: m)
            if name not in dom.setdefault(path, []):
                dom[path].append(name)
    for path, ms in LIST_DOMAINS.items():
        if path not in nodeset:
            continue
        combos = [[m] for m in ms] + ([list(ms)] if len(ms) > 1 else [])
        for c in combos:
            name = "enumlist:" + "|".join(c)
            VAL[name] = (lambda c=c: list(c))
            dom.setdefault(path, []).append(name)
    return dom


DOMAIN = _domains()


def node_values(p, base) -> List[str]:
    """the value alphabet of one node: the given base alphabet + the other boolean + the members of its documented domain"""
    return list(base) + [BOOL_OTHER] + DOMAIN.get(tuple(p), [])


def check_ranges(norm) -> List[Tuple[str, str]]:
    """[(path, failure class)] of documented constraints violated by an ACCEPTED normalised config"""
    bad: List[Tuple[str, str]] = []
    if not isinstance(norm, dict):
        return [("<root>", "type")]
    for path, pred in RANGES:
        v = _get(norm, path)
        if v is MISSING:
            continue
        r = pred(v)
        if r:
            bad.append((".".join(path), r))
    # sections that must be objects when present
    for path in (("perf",), ("t2", "quality"), ("t1", "decay"), ("t1", "edge_type_mult")):
        v = _get(norm, path)
        if v is not MISSING and v is not None and not isinstance(v, dict):  # "must be an object" (or null)
            bad.append((".".join(path), "type"))
    # free-key maps
    em = _get(norm, ("t1", "edge_type_mult"))
    if isinstance(em, dict):
        for k, v in em.items():
            r = _finite(v)
            if r:
                bad.append(("t1.edge_type_mult.*", r))
    cd = _get(norm, ("t4", "cooldowns"))
    if isinstance(cd, dict):
        for k, v in cd.items():
            if not isinstance(k, str):
                bad.append(("t4.cooldowns.<key>", "type"))
            r = _rng(0, integer=True)(v)
            if r:
                bad.append(("t4.cooldowns.*", r))
    ns = _get(norm, ("t4", "cache", "namespaces"))
    if isinstance(ns, list) and any(x not in ("t2:semantic",) for x in ns):
        bad.append(("t4.cache.namespaces", "enum"))
    by = _get(norm, ("perf", "t2", "reader", "partitions", "by"))
    if by is not MISSING:
        if not (isinstance(by, (list, tuple)) and by and all(isinstance(x, str) and x in ("owner", "quarter") for x in by)):
            bad.append(("perf.t2.reader.partitions.by", "enum"))

    # cross-field constraints (each comparison is False for NaN)
    def both(a, b):
        x, y = _get(norm, a), _get(norm, b)
        return (x, y) if (x is not MISSING and y is not MISSING and x is not None and y is not None) else None

    def numeric(p):  # NaN / non-numbers are reported by the per-key ranges, not again by the order constraints
        return all(_isnum(v) for v in p)

    p = both(("t4", "weight_min"), ("t4", "weight_max"))
    if p and numeric(p) and not (p[0] < p[1]):
        bad.append(("t4.weight_min/weight_max", "order"))
    p = both(("graph", "update", "clamp_min"), ("graph", "update", "clamp_max"))
    if p and not (numeric(p) and p[0] < p[1]):
        bad.append(("graph.update.clamp_min/clamp_max", "order"))
    p = both(("graph", "decay", "floor"), ("graph", "update", "clamp_max"))
    if p and numeric(p) and not (p[0] <= p[1]):
        bad.append(("graph.decay.floor<=clamp_max", "order"))
    p = both(("t3", "policy", "tau_high"), ("t3", "policy", "tau_low"))
    if p and numeric(p) and not (p[0] >= p[1]):
        bad.append(("t3.policy.tau_high>=tau_low", "order"))
    p = both(("graph", "split", "weak_edge_thresh"), ("graph", "merge", "min_avg_w"))
    if p and numeric(p) and not (p[0] <= p[1]):
        bad.append(("graph.split.weak_edge_thresh<=merge.min_avg_w", "order"))
    p = both(("scheduler", "budgets", "wall_ms"), ("scheduler", "quantum_ms"))
    if p and numeric(p) and not (p[0] >= p[1]):
        bad.append(("scheduler.budgets.wall_ms>=quantum_ms", "order"))
    fx = _get(norm, ("t3", "llm", "fixtures"))
    if isinstance(fx, dict) and fx.get("enabled") is True:
        if _nonempty_str(fx.get("path")):
            bad.append(("t3.llm.fixtures.path", "type"))
    if _get(norm, ("t3", "allow_reflection")) is True and _get(norm, ("t3", "reflection", "backend")) == "llm":
        if not (isinstance(fx, dict) and fx.get("enabled") is True and not _nonempty_str(fx.get("path"))):
            bad.append(("t3.llm.fixtures(reflection=llm)", "type"))
    return bad


# ------------------------------------------------------------------------------------------------
# clauses (a)-(d) on one input
# ------------------------------------------------------------------------------------------------
def check_input(devs, strict_shape=True):
    """returns (viols, info). viols = [(sigkind, detail, what)], info = dict(verdict, errs, norm, warnings, calls)"""
    viols: List[Tuple[str, str, str]] = []
    outs: Dict[str, _Outcome] = {}
    shapes = SHAPES if strict_shape else SHAPES[:-1]
    desc = _describe(devs)
    for sh in shapes:
        inp = build(devs)
        before = fingerprint(inp)
        o = run_shape(sh, inp)
        outs[sh] = o
        after = fingerprint(inp)
        # (b) purity
        if after != before:
            where = _first_diff(before, after) or ()
            top = str(where[0]) if where else "<root>"
            viols.append(("b:mutates-input", top, "%s mutated its input %s at %s" % (sh, desc, ".".join(map(str, where)) or "<root>")))
        # (a) totality
        if o.escaped is not None:
            if isinstance(o.escaped, ConfigError):
                if sh not in ("validate_config", "validate_config_verbose"):
                    viols.append(("c:raises-instead-of-returning", sh,
                                  "%s let ConfigError escape instead of returning it, input %s" % (sh, desc)))
            else:
                viols.append(("a:raises", type(o.escaped).__name__,
                              "%s raised %s: %s for input %s" % (sh, type(o.escaped).__name__, str(o.escaped)[:120], desc)))

    ref = outs["validate_config"]
    info = {"verdict": ref.verdict, "errs": ref.errs, "norm": ref.norm, "warnings": None, "calls": len(shapes)}
    if ref.verdict is None:
        return viols, info  # reference shape crashed: reported above under (a)

    def disagree(sh, aspect, got, exp):
        viols.append(("c:disagree", "%s:%s" % (sh, aspect),
                      "%s disagrees with validate_config on %s for input %s: %s vs %s" % (sh, aspect, desc, _short(got), _short(exp))))

    warn_ref = None
    for sh in ("validate_config_api", "validate_config_verbose", "validate_config(strict=,verbose=)"):
        o = outs[sh]
        if o.verdict is None:
            continue
        if o.verdict != ref.verdict:
            disagree(sh, "verdict", o.verdict, ref.verdict)
            continue
        if ref.verdict == "reject":
            if o.errs != ref.errs:
                disagree(sh, "messages", o.errs, ref.errs)
        else:
            if o.norm is not None and not deq(o.norm, ref.norm):
                disagree(sh, "normalized", "<differs>", "<normalized>")
            if o.warnings is not None:
                if warn_ref is None:
                    warn_ref = o.warnings
                elif o.warnings != warn_ref:
                    disagree(sh, "warnings", o.warnings, warn_ref)
    info["warnings"] = warn_ref

    # script main(): exit code + stdout
    for sh in ("script.main", "script.main --strict"):
        o = outs.get(sh)
        if o is None or o.escaped is not None:
            continue
        lines = (o.stdout or "").split("\n")
        while lines and lines[-1] == "":
            lines.pop()
        first = lines[0] if lines else ""
        if ref.verdict == "reject":
            if o.rc != 1:
                disagree(sh, "exit-code", o.rc, 1)
            elif first != "CONFIG INVALID":
                disagree(sh, "first-line", first, "CONFIG INVALID")
            elif sorted(m.strip() for m in lines[1:] if m.strip()) != ref.errs:
                disagree(sh, "messages", lines[1:], ref.errs)
        else:
            wexp = warn_ref if warn_ref is not None else []
            if sh.endswith("--strict") and wexp:
                if o.rc != 1:
                    disagree(sh, "exit-code", o.rc, "1 (warnings under --strict)")
                elif not first.startswith("CONFIG WARNINGS"):
                    disagree(sh, "first-line", first, "CONFIG WARNINGS ...")
                elif warn_ref is not None and sorted(lines[1:]) != wexp:
                    disagree(sh, "warnings", lines[1:], wexp)
            else:
                if o.rc != 0:
                    disagree(sh, "exit-code", o.rc, 0)
                elif first != "OK":
                    disagree(sh, "first-line", first, "OK")
                elif warn_ref is not None and sorted(l for l in lines if l.startswith("W[")) != wexp:
                    disagree(sh, "warnings", [l for l in lines if l.startswith("W[")], wexp)

    # (d) documented ranges on the accepted output
    if ref.verdict == "accept":
        for path, cls in check_ranges(ref.norm):
            v = _get(ref.norm, tuple(path.split("."))) if "*" not in path and "/" not in path and "<" not in path else "?"
            viols.append(("d:range", "%s:%s" % (path, "nan" if cls == "nan" else "out-of-range"),
                          "input %s is accepted but the normalised config violates the documented constraint on %s (%s): %s" % (
                              desc, path, cls, _short(v))))
    return viols, info


def _short(x, n=160):
    s = repr(x)
    return s if len(s) <= n else s[: n - 3] + "..."


def _describe(devs) -> str:
    try:
        return _short(build(devs), 200)
    except Exception:
        return json.dumps(devs)


# ------------------------------------------------------------------------------------------------
# (e) real turns
# ------------------------------------------------------------------------------------------------
_ENG: Dict[str, Any] = {}


def _engine_mods():
    if _ENG:
        return _ENG
    import clematis.engine.orchestrator as orch_pkg
    import clematis.engine.orchestrator.core as core
    import clematis.engine.stages.t1 as t1m
    import clematis.engine.stages.t2.cache as t2c
    from clematis.engine import gel
    from clematis.graph.store import InMemoryGraphStore, Node, Edge
    from clematis.memory.index import InMemoryIndex
    from clematis.adapters.embeddings import BGEAdapter
    from clematis.engine.types import ProposedDelta, EditGraphOp
    for m, names in ((t1m, ("_T1_CACHE", "_T1_CACHE_CFG")), (t2c, ("_T2_CACHE", "_T2_CACHE_CFG"))):
        for n in names:
            if not hasattr(m, n):
                raise HarnessError("seam missing: %s.%s" % (m.__name__, n))
    if not hasattr(core, "deliberate") or not hasattr(core, "Orchestrator"):
        raise HarnessError("seam missing: orchestrator.core.deliberate / Orchestrator")
    _ENG.update(orch_pkg=orch_pkg, core=core, t1m=t1m, t2c=t2c, gel=gel, Store=InMemoryGraphStore, Node=Node, Edge=Edge,
                Index=InMemoryIndex, Enc=BGEAdapter, ProposedDelta=ProposedDelta, EditGraphOp=EditGraphOp)
    return _ENG


class _AttrDict(dict):
    """what run_smoke_turn wraps a validated config in (dict + attribute access)"""

    def __getattr__(self, name):
        try:
            return self[name]
        except KeyError as e:
            raise AttributeError(name) from e

    def __setattr__(self, name, value):
        self[name] = value


def _to_attrdict(o):
    if isinstance(o, dict):
        return _AttrDict({k: _to_attrdict(v) for k, v in o.items()})
    if isinstance(o, list):
        return [_to_attrdict(v) for v in o]
    return o


WORLDS = ["W0", "W1", "W2"]
TEXTS = ["apple", "pear fig"]
NOW = "2025-06-01T00:00:00Z"


def _episodes(E, norm, rows):
    dim = norm.get("k_surface", 32)
    try:
        dim = int(dim)
    except Exception:
        dim = 32
    enc = E["Enc"](dim=dim)
    idx = E["Index"]()
    for row in rows:
        i, owner, text, ts, imp = row[:5]
        vec = enc.encode([text])[0]
        if len(row) > 5 and row[5] == "zero":
            vec = vec * 0.0
        ep = {"id": i, "owner": owner, "text": text, "vec_full": vec, "aux": {"importance": imp}}
        if ts:
            ep["ts"] = ts
        idx.add(ep)
    return idx


def make_world(name: str, norm) -> Dict[str, Any]:
    """small worlds whose node labels occur in the input texts and in the episode texts"""
    E = _engine_mods()
    if name == "W0":
        return {"version_etag": "0"}
    Node, Edge = E["Node"], E["Edge"]
    store = E["Store"]()
    if name == "W1":
        store.ensure("g1")
        store.upsert_nodes("g1", [Node(id="n1", label="apple"), Node(id="n2", label="pear"),
                                  Node(id="n3", label="fig", attrs={"tags": ["fruit"]})])
        store.upsert_edges("g1", [Edge(id="e1", src="n1", dst="n2", weight=0.75, rel="supports"),
                                  Edge(id="e2", src="n2", dst="n3", weight=0.5, rel="associates")])
        idx = _episodes(E, norm, [
            ("ep1", "A", "apple pie with pear", "2025-05-30T00:00:00Z", 0.5),
            ("ep2", "A", "fig jam", "2025-05-01T00:00:00Z", 1.0),
            ("ep3", "B", "apple", "2020-01-01T00:00:00Z", 0.0),
            ("ep4", "world", "pear fig apple", None, 0.25),
        ])
        return {"store": store, "active_graphs": ["g1"], "mem_index": idx, "mem_backend": "inmemory", "version_etag": "0"}
    if name == "W2":
        store.ensure("g1")
        store.ensure("g2")
        store.upsert_nodes("g1", [Node(id="a", label="apple"), Node(id="b", label="pear"), Node(id="c", label="fig")])
        store.upsert_edges("g1", [
            Edge(id="e1", src="a", dst="b", weight=0.75, rel="supports"),
            Edge(id="e2", src="b", dst="c", weight=0.5, rel="associates"),
            Edge(id="e3", src="c", dst="a", weight=-0.5, rel="contradicts"),  # closes a cycle, negative
            Edge(id="e4", src="a", dst="a", weight=0.25, rel="supports"),     # self loop
            Edge(id="e5", src="a", dst="b", weight=0.0, rel="mystery"),       # parallel, zero weight, unknown relation
        ])
        store.upsert_nodes("g2", [Node(id="x", label="pear"), Node(id="y", label="plum", attrs={"tags": ["fig", 7]})])
        store.upsert_edges("g2", [Edge(id="f1", src="x", dst="y", weight=1.0, rel="supports")])
        idx = _episodes(E, norm, [
            ("m1", "A", "apple tart", "2025-05-31T00:00:00Z", 1.0),
            ("m2", "A", "apple tart", "2025-05-31T00:00:00Z", 0.0),    # bit-identical vector
            ("m3", "B", "pear and fig", "2025-04-01T00:00:00Z", 0.5),
            ("m4", "world", "plum", "1999-12-31T00:00:00Z", 0.5),
            ("m5", "A", "nothing", None, 0.5, "zero"),                   # zero vector, no timestamp
            ("m6", "B", "fig apple pear", "2025-06-01T00:00:00Z", -1.0),
        ])
        gel = E["gel"]
        edges = {}
        for (i, j, w) in (("m1", "m2", 0.5), ("m1", "m3", 0.25), ("m3", "m6", -0.25)):
            key, src, dst = gel._edge_key(i, j)
            edges[key] = {"id": key, "src": src, "dst": dst, "weight": w, "rel": "coact", "updated_at": None,
                          "attrs": {"coact": 1, "last_seen_turn": 0}}
        graph = {"nodes": {k: {"id": k} for k in ("m1", "m2", "m3", "m6")}, "edges": edges, "meta": {"schema": "v1"}}
        return {"store": store, "active_graphs": ["g1", "g2"], "mem_index": idx, "mem_backend": "inmemory",
                "version_etag": "0", "graph": graph}
    raise HarnessError("unknown world " + name)


def _scripted_deliberate(ctx, state, bundle):
    """the real rule-based planner, plus one EditGraph op carrying four deltas (dyadic values) so that the
    meta-filter and apply have something to do under the configuration under test"""
    E = _engine_mods()
    plan = E["core"].deliberate(bundle)
    PD, EG = E["ProposedDelta"], E["EditGraphOp"]
    ops = list(getattr(plan, "ops", []) or [])
    ops.append(EG(kind="EditGraph", edits=[{"op": "upsert_node", "id": "n1"}], cap=4))
    plan.ops = ops
    k = len(ops) - 1
    plan.deltas = [PD("node", "n:n1", "weight", 0.5, op_idx=k, idx=0), PD("node", "n:n2", "weight", -0.25, op_idx=k, idx=1),
                   PD("edge", "e:n1|supports|n2", "weight", 0.25, op_idx=k, idx=2),
                   PD("node", "n:n1", "weight", 0.25, op_idx=None, idx=3)]
    return plan


class _Timeout(Exception):
    pass


def _on_alarm(signum, frame):
    raise _Timeout("engine run exceeded 60 s")


def reset_caches():
    E = _engine_mods()
    E["t1m"]._T1_CACHE = None
    E["t1m"]._T1_CACHE_CFG = None
    E["t2c"]._T2_CACHE = None
    E["t2c"]._T2_CACHE_CFG = None


def engine_run(norm, world: str, workdir: str):
    """two turns under the normalised config `norm`.  Returns None or (exc, where, trace)"""
    E = _engine_mods()
    shutil.rmtree(workdir, ignore_errors=True)
    os.makedirs(workdir)
    os.environ["CLEMATIS_LOG_DIR"] = os.path.join(workdir, "logs")
    os.environ["CLEMATIS_SNAPSHOT_DIR"] = os.path.join(workdir, "snaps-env")
    old_cwd = os.getcwd()
    os.chdir(workdir)  # relative snapshot_dir / trace_dir values land in the scratch directory
    reset_caches()
    pkg = E["orch_pkg"]
    had = hasattr(pkg, "t3_deliberate")
    old = getattr(pkg, "t3_deliberate", None)
    pkg.t3_deliberate = _scripted_deliberate
    old_handler = signal.signal(signal.SIGALRM, _on_alarm)
    signal.alarm(60)
    lines = []
    try:
        cfg = _to_attrdict(norm)
        state = make_world(world, norm)
        for i, text in enumerate(TEXTS):
            ctx = types.SimpleNamespace(turn_id=str(i + 1), agent_id="A", scene_tags=[], now=NOW, now_ms=1000 * (i + 1),
                                        cfg=cfg, config=cfg)
            res = E["core"].Orchestrator().run_turn(ctx, state, text)
            lines.append(getattr(res, "line", None))
        return None, lines
    except HarnessError:
        raise
    except Exception as e:  # noqa
        tb = traceback.extract_tb(e.__traceback__)
        where = "?"
        for fr in reversed(tb):
            if "/clematis/" in fr.filename or "/configs/" in fr.filename:
                where = "%s:%s" % (os.path.basename(fr.filename), fr.name)
                break
        return (e, where, "".join(traceback.format_exception_only(type(e), e)).strip()[:200]), lines
    finally:
        signal.alarm(0)
        signal.signal(signal.SIGALRM, old_handler)
        if had:
            pkg.t3_deliberate = old
        else:
            try:
                delattr(pkg, "t3_deliberate")
            except Exception:
                pass
        os.chdir(old_cwd)
        reset_caches()


def engine_check(devs, workdir, worlds=WORLDS):
    """[(exc type, where, what, world)] for an accepted input; [] if rejected / all worlds run"""
    try:
        norm = V.validate_config(build(devs))
    except Exception:
        return [], 0
    fails = []
    turns = 0
    for w in worlds:
        r, lines = engine_run(norm, w, workdir)
        turns += len(TEXTS)
        if r is not None:
            e, where, msg = r
            fails.append((type(e).__name__, where, msg, w))
    return fails, turns


# ------------------------------------------------------------------------------------------------
# workers
# ------------------------------------------------------------------------------------------------
def _sig(kind, detail, devs):
    if kind in ("a:raises",):
        return "a:raises:%s:%s" % (detail, devs_class(devs))
    if kind == "b:mutates-input":
        return "b:mutates-input:%s" % detail
    if kind == "c:raises-instead-of-returning":
        return "c:%s:raises-instead-of-returning" % detail
    if kind == "c:disagree":
        return "c:disagree:%s%s" % (detail, echo_suffix(devs))
    if kind == "d:range":
        return "d:range:%s" % detail
    return "%s:%s" % (kind, detail)


def _minimise(devs, kind, detail):
    """drop deviations while the same (kind, detail) violation persists"""
    cur = list(devs)
    changed = True
    while changed and cur:
        changed = False
        for i in range(len(cur)):
            cand = cur[:i] + cur[i + 1:]
            v, _ = check_input(cand)
            if any(k == kind and d == detail for k, d, _ in v):
                cur = cand
                changed = True
                break
    return cur


def _case(devs, **kw):
    c = {"kind": "api", "devs": devs}
    c.update(kw)
    return c


def _outcome_class(info):
    if info["verdict"] == "accept":
        return "accept"
    if info["verdict"] == "reject":
        errs = info["errs"] or []
        tail = errs[0].split(" ", 1)[1] if errs and " " in errs[0] else (errs[0] if errs else "")
        tail = tail.split(", got")[0].split("(did you mean")[0].strip()
        return "reject:%d:%s" % (min(len(errs), 3), tail[:40])
    return "crash"


def _validate_worker(chunk, st: Stats, mode, accfile_dir, default_norm_c):
    """chunk: list of devs (mode 'devs') or list of pair groups (mode 'groups')"""
    acc_path = os.path.join(accfile_dir, "acc-%d-%d.jsonl" % (os.getpid(), h64(json.dumps(chunk[0], sort_keys=True)) % 10 ** 9))
    seen_norm = set()
    with open(acc_path, "a", encoding="utf-8") as accf:
        for item in chunk:
            inputs = [item] if mode == "devs" else expand_group(item)
            for devs in inputs:
                strict = (mode == "devs")  # pairs: plain main() only (cost); singles: also --strict
                viols, info = check_input(devs, strict_shape=strict)
                st.add("transitions", info["calls"])
                st.add("validated", info["calls"])
                st.add("inputs")
                st.distinct("states", json.dumps(devs, sort_keys=True))
                st.distinct("outcomes", _outcome_class(info))
                if info["verdict"] == "accept":
                    st.add("accepted")
                    nc = norm_hash(info["norm"])
                    if devs and nc != default_norm_c:
                        st.add("nontrivial")
                    if nc not in seen_norm:
                        seen_norm.add(nc)
                        accf.write(json.dumps({"h": nc, "devs": devs}, sort_keys=True) + "\n")
                elif info["verdict"] == "reject":
                    st.add("rejected")
                    if devs:
                        st.add("nontrivial")
                for kind, detail, what in viols:
                    mdevs = _minimise(devs, kind, detail) if len(devs) > 0 else devs
                    st.violation(_sig(kind, detail, mdevs), what if mdevs == devs else what + " [minimised to %s]" % _describe(mdevs),
                                 _case(mdevs))


def _engine_worker(chunk, st: Stats, scratch, base_fail_types):
    workdir = os.path.join(scratch, "eng-%d" % os.getpid())
    for devs in chunk:
        fails, turns = engine_check(devs, workdir)
        st.add("transitions", turns)
        st.add("validated", len(WORLDS))
        st.add("engine_configs")
        st.distinct("outcomes", "engine:" + ("ok" if not fails else "raises"))
        if not fails:
            continue
        for etype, where, msg, world in fails:
            mdevs = devs
            if etype in base_fail_types:
                mdevs = []  # the default config already fails this way: report the minimal witness
            else:
                for i in range(len(devs)):
                    cand = devs[:i] + devs[i + 1:]
                    f2, t2 = engine_check(cand, workdir, worlds=[world])
                    st.add("transitions", t2)
                    if any(x[0] == etype for x in f2):
                        mdevs = cand
                        break
            sig = "e:engine-raises:%s" % devs_class(mdevs, levels=True)
            st.violation(sig, "accepted config %s: turn on world %s raised %s at %s" % (_describe(mdevs), world, msg, where),
                         _case(mdevs, engine=True))
    shutil.rmtree(workdir, ignore_errors=True)


# ------------------------------------------------------------------------------------------------
# real CLI (subprocess) subset
# ------------------------------------------------------------------------------------------------
def _yaml():
    try:
        import yaml  # type: ignore
        return yaml
    except Exception:
        return None


def cli_fixed() -> List[List[dict]]:
    """hand-picked single-deviation inputs, one or more per class of outcome (also the base alphabet of the history leg)"""
    return [
        [],
        [dev_set(("t2", "backend"), "str-x")],                  # message with braces
        [dev_set(("t4", "cache", "namespaces"), "list-empty")],  # accepted without warnings
        [dev_set(("scheduler", "budgets", "t1_iters"), "0")],
        [dev_set(("t1", "node_budget"), "nan")],
        [dev_set(("t4", "delta_norm_cap_l2"), "nan")],
        [dev_set(("graph", "decay", "floor"), "nan")],
        [dev_set(("t2", "hybrid", "max_bonus"), "nan")],
        [dev_set(("t1", "cache", "max_entries"), "huge")],
        [dev_set(("perf",), "1")],
        [dev_set(("t2", "quality"), "list-1")],
        [dev_set(("t1", "decay"), "1")],
        [dev_set(("t2", "tiers"), "null")],
        [dev_set(("t2", "residual_cap_per_turn"), "str-x")],
        [dev_set(("k_surface",), "str-x")],
        [dev_set(("version",), "str-x")],
        [dev_set(("perf", "snapshots", "delta_mode"), "true")],
        [dev_key((), "#5")], [dev_key((), "#null")], [dev_key(("t1",), "#5")], [dev_key(("t4", "cache"), "#null")],
        [dev_key((), "?unknown")], [dev_key(("t2",), "?near")], [dev_key(("graph", "merge"), "?unknown")],
        [dev_root("list-1")], [dev_root("str-x")], [dev_root("0")],
    ]


def cli_subset() -> List[List[dict]]:
    """a fixed list of ~60 single-deviation inputs covering every class of outcome"""
    fixed = cli_fixed()
    allsingles = [d for d in singles() if d and d[0]["op"] == "set"]
    stride = max(1, len(allsingles) // 36)
    out = list(fixed) + [[dev_key(sec, "?tie")] for sec in tie_sections()]
    seen = set(json.dumps(d, sort_keys=True) for d in out)
    for d in allsingles[7::stride]:
        k = json.dumps(d, sort_keys=True)
        if k not in seen:
            seen.add(k)
            out.append(d)
    return out + cli_echo_cases()


ECHO_CLI_GROUPS = [
    ["lf", "cr", "crlf", "vt", "ff", "fs", "gs", "rs"],   # line boundaries, ASCII
    ["nel", "ls", "ps"],                                    # line boundaries beyond ASCII
    ["us", "tab", "nbsp"],                                  # further whitespace cut points
    ["lbrace", "fmt0", "pct", "bsn"],                       # formatting / escape metacharacters
]


def cli_echo_cases() -> List[List[dict]]:
    """four inputs (one per class) that together carry every member of ECHO through the real CLI: each member sits in an unknown
    key of its own dict level (levels taken round-robin from the key tree), so one subprocess per CLI form sees
    one echoed message per member"""
    if sorted(c for g in ECHO_CLI_GROUPS for c in g) != sorted(ECHO):
        raise HarnessError("ECHO_CLI_GROUPS does not cover ECHO")
    secs = sorted(TREE)
    out = []
    i = 0
    for grp in ECHO_CLI_GROUPS:
        devs = []
        for c in grp:
            devs.append(dev_key(secs[(5 * i) % len(secs)], "?e:" + c))
            i += 1
        out.append(devs)
    return out


CLI_FORMS = ["script", "script --strict", "wrapper -- --config", "wrapper --json"]
HASH_SEEDS = ["0", "1", "2", "3", "4", "5", "6", "7"]


def _cli_cmd(form):
    py = sys.executable
    if form == "script":
        return [py, "-m", "clematis.scripts.validate", os.path.join("configs", "config.yaml")]
    if form == "script --strict":
        return [py, "-m", "clematis.scripts.validate", "--strict", os.path.join("configs", "config.yaml")]
    if form == "wrapper -- --config":  # docs/operator-guide.md
        return [py, "-m", "clematis", "validate", "--", "--config", os.path.join(".", "configs", "config.yaml")]
    if form == "wrapper --json":  # docs/m8/cli.md ; reads ./configs/config.yaml
        return [py, "-m", "clematis", "validate", "--json"]
    raise HarnessError("bad form")


def cli_check(devs, scratch):
    """returns (viols [(sig, what)], n_subprocesses, skipped_reason)"""
    yaml = _yaml()
    if yaml is None:
        return [], 0, "no-yaml"
    inp = build(devs)
    text = back = None
    try:
        text = yaml.safe_dump(inp, default_flow_style=False, allow_unicode=True)
        back = yaml.safe_load(text)
    except Exception:
        text = None
    if text is None or canon(back) != canon(inp):
        # the emitter cannot express it (e.g. NEL inside a quoted scalar): try the JSON spelling of the same
        # input, which the script's loader reads through the same YAML parser
        was = "not-yaml-expressible" if text is None else "not-yaml-roundtrippable"
        try:
            text = json.dumps(inp, ensure_ascii=True, allow_nan=False)
            back = yaml.safe_load(text)
        except Exception:
            return [], 0, was
        if canon(back) != canon(inp):
            return [], 0, was
    eff = back or {}  # the loader substitutes {} for a falsy document
    # reference through the API on the object the CLI will see
    try:
        norm, warns = V.validate_config_verbose(yaml.safe_load(text) or {})
        verdict, errs, warns = "accept", [], sorted(warns)
    except ConfigError as e:
        verdict, errs, norm, warns = "reject", _msgs(str(e)), None, []
    except Exception:
        return [], 0, "api-crash"  # reported by clause (a)
    d = os.path.join(scratch, "cli-%d" % os.getpid())
    shutil.rmtree(d, ignore_errors=True)
    os.makedirs(os.path.join(d, "configs"))
    with open(os.path.join(d, "configs", "config.yaml"), "w", encoding="utf-8") as f:
        f.write(text)
    env = dict(os.environ)
    env["PYTHONPATH"] = REPO
    env["PYTHONIOENCODING"] = "utf-8"  # the locale of the CLI process is not part of the explored space
    env["CLEMATIS_LOG_DIR"] = os.path.join(d, "logs")
    env["CLEMATIS_SNAPSHOT_DIR"] = os.path.join(d, "snaps")
    env.pop("CLEMATIS_CONFIG", None)
    viols = []
    n = 0
    desc = _short(eff, 160)
    # the string-hash seed of the CLI process is part of the environment the verdict and messages must not
    # depend on: each form runs under its own seed; inputs with an added key (the "did you mean" path) run the
    # script form under every seed of HASH_SEEDS
    plan = [(form, str(i + 1)) for i, form in enumerate(CLI_FORMS)]
    if any(dv["op"] == "key" and dv["k"] in ("?tie", "?near", "?unknown") for dv in devs):
        plan += [("script", hs) for hs in HASH_SEEDS if hs != "1"]
    for form, hseed in plan:
        env["PYTHONHASHSEED"] = hseed
        try:
            # bytes, not text=True: universal-newline decoding in the harness would itself turn CR into LF
            pr = subprocess.run(_cli_cmd(form), cwd=d, env=env, capture_output=True, timeout=120)
        except subprocess.TimeoutExpired:
            raise HarnessError("CLI subprocess timed out (%s)" % form)
        n += 1
        out, err, rc = pr.stdout.decode("utf-8", "replace"), pr.stderr.decode("utf-8", "replace"), pr.returncode
        tag = form.replace(" ", "")
        esf = echo_suffix(devs)
        if "Traceback (most recent call last)" in err or "Traceback (most recent call last)" in out:
            last = [l for l in err.strip().split("\n") if l.strip()][-1:] or [""]
            viols.append((("c:cli:%s:traceback" % tag) + esf, "`%s` on config %s ends in a Python traceback (%s), verdict through the API: %s" % (
                " ".join(_cli_cmd(form)[1:]), desc, last[0][:120], verdict)))
            continue
        strict = form.endswith("--strict")
        exp_rc = 1 if (verdict == "reject" or (strict and warns)) else 0
        if rc != exp_rc:
            viols.append((("c:cli:%s:exit-code" % tag) + esf, "`%s` on config %s: exit %s, expected %s (API verdict %s, %d warnings); stdout %s stderr %s" % (
                " ".join(_cli_cmd(form)[1:]), desc, rc, exp_rc, verdict, len(warns), _short(out, 80), _short(err, 80))))
            continue
        lines = [l for l in out.split("\n") if l.strip()]
        if form == "wrapper --json":
            if verdict == "accept":
                try:
                    got = json.loads(out)
                except Exception:
                    viols.append((("c:cli:%s:stdout-not-json" % tag) + esf, "`validate --json` on %s: stdout is not JSON: %s" % (desc, _short(out, 100))))
                    continue
                if isinstance(got, dict) and "normalized" in got and "t1" not in got:
                    got = got["normalized"]
                exp = json.loads(json.dumps(norm))
                if canon(got) != canon(exp):
                    viols.append((("c:cli:%s:normalized" % tag) + esf, "`validate --json` on %s prints a different normalised config than the API" % desc))
            else:
                allmsg = set(m.strip() for m in (out + "\n" + err).split("\n"))
                if not all(m in allmsg for m in errs):
                    viols.append((("c:cli:%s:messages" % tag) + esf, "`validate --json` on %s does not report the API's messages %s: %s" % (
                        desc, _short(errs, 100), _short(out + err, 120))))
            continue
        first = lines[0] if lines else ""
        if verdict == "reject":
            if first != "CONFIG INVALID":
                viols.append((("c:cli:%s:first-line" % tag) + esf, "`%s` on %s: first stdout line %r, expected 'CONFIG INVALID'" % (form, desc, first)))
            elif sorted(m.strip() for m in lines[1:]) != errs:
                viols.append((("c:cli:%s:messages" % tag) + esf, "`%s` on %s: messages %s differ from the API's %s" % (form, desc, _short(lines[1:], 100), _short(errs, 100))))
        elif strict and warns:
            if not first.startswith("CONFIG WARNINGS") or sorted(lines[1:]) != warns:
                viols.append((("c:cli:%s:warnings" % tag) + esf, "`%s` on %s: stdout %s, expected the %d warnings" % (form, desc, _short(lines, 100), len(warns))))
        else:
            if first != "OK":
                viols.append((("c:cli:%s:first-line" % tag) + esf, "`%s` on %s: first stdout line %r, expected 'OK'" % (form, desc, first)))
            elif sorted(l for l in lines if l.startswith("W[")) != warns:
                viols.append((("c:cli:%s:warnings" % tag) + esf, "`%s` on %s: warnings differ from the API's" % (form, desc)))
    shutil.rmtree(d, ignore_errors=True)
    return viols, n, None


def _cli_worker(chunk, st: Stats, scratch):
    for devs in chunk:
        viols, n, skipped = cli_check(devs, scratch)
        st.add("transitions", n)
        st.add("validated", n)
        st.add("cli_subprocesses", n)
        if skipped:
            st.add("cli_skipped_" + skipped)
            continue
        st.add("cli_cases")
        st.distinct("outcomes", "cli:" + ("ok" if not viols else "differs"))
        if viols and len(devs) > 1:
            # minimise a multi-deviation CLI case: a single deviation that shows the same signature replaces it
            base = lambda sg: sg.split(":echo-")[0]  # noqa: E731  (the echo suffix depends on the set of deviations)
            left = set(base(sg) for sg, _ in viols)
            for dv in devs:
                if not left:
                    break
                v1, n1, sk1 = cli_check([dv], scratch)
                st.add("transitions", n1)
                st.add("cli_subprocesses", n1)
                for sig, what in v1:
                    if base(sig) in left:
                        left.discard(base(sig))
                        st.violation(sig, what, _case([dv], cli=True))
            viols = [(sg, w) for sg, w in viols if base(sg) in left]
        for sig, what in viols:
            st.violation(sig, what, _case(devs, cli=True))


# ------------------------------------------------------------------------------------------------
# history leg: the validator is a function of its input, so the outcome of an input must not depend on which inputs
# THIS PROCESS validated before (the CLI is always a fresh process, an embedding application is not)
# ------------------------------------------------------------------------------------------------
_VERIF_DIR = os.path.dirname(os.path.dirname(os.path.abspath(__file__)))
HIST_SHAPE = "validate_config_verbose"   # returns everything a caller can observe: verdict, messages, normalised config, warnings
HIST_SHAPES = ["validate_config", "validate_config_api", "validate_config_verbose", "validate_config(strict=,verbose=)", "script.main"]


def _step_outcome(shape, devs) -> dict:
    o = run_shape(shape, build(devs))
    x = None
    if o.escaped is not None and not isinstance(o.escaped, ConfigError):
        x = type(o.escaped).__name__
    return {"v": o.verdict, "e": o.errs, "n": (norm_hash(o.norm) if o.norm is not None else None), "w": o.warnings, "x": x,
            "rc": o.rc, "so": o.stdout}


def _state_fp():
    """the state the validator's modules keep between calls, as far as it is reachable from their globals: containers,
    function closures / defaults / attributes, memo caches of functools wrappers, class and instance attributes
    (container reprs are deep; identity-based reprs are stable inside one process and its forks)"""
    out = []
    for mname in sorted(sys.modules):
        if not (mname == "configs" or mname.startswith("configs.") or mname == "clematis" or mname.startswith("clematis.")):
            continue
        mod = sys.modules[mname]
        for name, val in sorted(getattr(mod, "__dict__", {}).items()):
            if name.startswith("__") or isinstance(val, types.ModuleType):
                continue
            try:
                if isinstance(val, (dict, list, set, frozenset, tuple, bytearray)):
                    out.append((mname, name, repr(val)))
                elif isinstance(val, types.FunctionType):
                    if getattr(val, "__module__", None) != mname:
                        continue
                    cells = tuple(repr(c.cell_contents) for c in (val.__closure__ or ())
                                  if isinstance(getattr(c, "cell_contents", None), (dict, list, set, bytearray)))
                    if cells or val.__dict__ or val.__defaults__ or val.__kwdefaults__:
                        out.append((mname, name, cells, repr(val.__dict__), repr(val.__defaults__), repr(val.__kwdefaults__)))
                elif hasattr(val, "cache_info") and callable(getattr(val, "cache_info")):
                    out.append((mname, name, repr(val.cache_info())))
                elif isinstance(val, type):
                    if getattr(val, "__module__", None) == mname:
                        out.append((mname, name, repr(sorted((k, repr(v)) for k, v in vars(val).items()
                                                             if not k.startswith("__") and not callable(v)
                                                             and not isinstance(v, (staticmethod, classmethod, property))))))
                elif hasattr(val, "__dict__") and not callable(val):
                    out.append((mname, name, repr(vars(val))))
            except Exception:  # noqa  (an unprintable object: not comparable, treated as unchanged)
                continue
    return out


def _zygote_child(hists, fp0, wfd):
    try:
        res = []
        for idx, steps in enumerate(hists):
            if idx > 0 and _state_fp() != fp0:
                break  # this process is no longer in its initial state: the next history needs a new fork
            res.append([_step_outcome(sh, devs) for sh, devs in steps])
        data = json.dumps({"ok": res}).encode("utf-8", "surrogatepass")
    except BaseException as e:  # noqa
        data = json.dumps({"harness": "%s: %s" % (type(e).__name__, str(e)[:300])}).encode()
    off = 0
    while off < len(data):
        off += os.write(wfd, data[off:off + 65536])


def _zygote_main():
    """runs in a FRESH interpreter that has imported the validator but never called it.  Per request line (a JSON list of
    histories, each a list of [shape, devs] steps) it forks; the child executes the histories one after the other AS LONG
    AS its validator-module state (_state_fp) still equals the state right after import, and a new child is forked for
    the rest as soon as it does not.  One JSON line of outcomes answers each request."""
    out_fd = os.dup(1)
    dn = os.open(os.devnull, os.O_WRONLY)
    os.dup2(dn, 1)  # nothing the validator prints may reach the protocol channel
    inp = sys.stdin.buffer
    fp0 = _state_fp()
    while True:
        line = inp.readline()
        if not line:
            break
        hists = json.loads(line)
        results, forks, err = [], 0, None
        while len(results) < len(hists) and err is None:
            r, w = os.pipe()
            pid = os.fork()
            if pid == 0:
                code = 0
                try:
                    os.close(r)
                    _zygote_child(hists[len(results):], fp0, w)
                except BaseException:  # noqa
                    code = 3
                os._exit(code)
            os.close(w)
            forks += 1
            buf = []
            while True:
                c = os.read(r, 1 << 20)
                if not c:
                    break
                buf.append(c)
            os.close(r)
            _, status = os.waitpid(pid, 0)
            try:
                ans = json.loads(b"".join(buf))
            except Exception:
                ans = {"harness": "history child ended with status %d and no answer" % status}
            if "ok" not in ans or not ans["ok"]:
                err = ans.get("harness", "history child made no progress")
            else:
                results.extend(ans["ok"])
        data = (json.dumps({"harness": err} if err else {"ok": results, "forks": forks}) + "\n").encode("utf-8", "surrogatepass")
        off = 0
        while off < len(data):
            off += os.write(out_fd, data[off:off + 65536])


class Zygote:
    """handle on one fresh interpreter; run_many(histories) executes each history in (a fork of) its pristine state"""

    def __init__(self):
        env = dict(os.environ)
        env["PYTHONPATH"] = REPO + os.pathsep + _VERIF_DIR
        env.setdefault("PYTHONHASHSEED", "0")
        self.forks = 0
        self.p = subprocess.Popen([sys.executable, "-c", "import props.c14_validator as M; M._zygote_main()"],
                                  stdin=subprocess.PIPE, stdout=subprocess.PIPE, env=env, cwd=_VERIF_DIR)

    def run_many(self, hists) -> List[List[dict]]:
        if not hists:
            return []
        try:
            self.p.stdin.write(json.dumps(hists).encode("utf-8") + b"\n")
            self.p.stdin.flush()
            line = self.p.stdout.readline()
        except Exception as e:  # noqa
            raise HarnessError("history process: %s" % e)
        if not line:
            raise HarnessError("history process ended (exit %s)" % self.p.poll())
        r = json.loads(line)
        if "ok" not in r:
            raise HarnessError("history process: %s" % r.get("harness"))
        self.forks += r.get("forks", 0)
        return r["ok"]

    def run(self, steps) -> List[dict]:
        return self.run_many([steps])[0]

    def take_forks(self) -> int:
        n, self.forks = self.forks, 0
        return n

    def close(self):
        try:
            self.p.stdin.close()
            self.p.wait(timeout=30)
        except Exception:
            self.p.kill()
            self.p.wait()


_ZYG: Dict[int, Zygote] = {}


def zygote() -> Zygote:
    """one fresh interpreter per worker process (it ends by itself when the worker's end of its stdin closes)"""
    z = _ZYG.get(os.getpid())
    if z is None or z.p.poll() is not None:
        z = _ZYG[os.getpid()] = Zygote()
    return z


def _hkey(shape, devs) -> str:
    return json.dumps([shape, devs], sort_keys=True)


def _hist_diff(got: dict, fresh: dict) -> Optional[str]:
    """the first observable aspect in which the outcome inside a history differs from the fresh-process outcome"""
    for aspect, k in (("raises", "x"), ("verdict", "v"), ("messages", "e"), ("normalized", "n"), ("warnings", "w"),
                      ("exit-code", "rc"), ("stdout", "so")):
        if got.get(k) != fresh.get(k):
            return aspect
    return None


def _coarse(devs) -> str:
    if not devs:
        return "default"
    return "+".join(sorted(set(KEY_CLASS[d["k"]] if d["op"] == "key" else d["op"] for d in devs)))


def _hist_show(o: dict) -> str:
    if o.get("x"):
        return "raises " + o["x"]
    if o.get("rc") is not None:
        return "exit %s, stdout %s" % (o["rc"], _short(o.get("so"), 120))
    return "%s %s%s" % (o.get("v"), _short(o.get("e"), 140) if o.get("v") == "reject" else "norm#%s" % o.get("n"),
                        (" warnings %s" % _short(o.get("w"), 80)) if o.get("w") else "")


def history_list(deep: bool) -> List[List[dict]]:
    """the inputs of the two long histories"""
    return singles() + typo_singles() + mixed_key_inputs() + (echo_singles(True) if deep else [])


def history_items(deep: bool):
    """work items of the history leg: ('pair', shape, A, B) and ('chain', name)"""
    items: List[Any] = [("chain", "forward-twice"), ("chain", "reverse")]
    # every history of length 2 over the hand-picked inputs, through each entry point
    base = cli_fixed() + ([[dev_key(sec, "?tie")] for sec in tie_sections()] if deep else [])
    for sh in HIST_SHAPES:
        for a in base:
            for b in base:
                items.append(("pair", sh, a, b))
    # every history of length 2 that puts the same near-miss text at two dict levels
    for name, _ in shared_typos(2 if deep else 6):
        for sa in sorted(TREE):
            for sb in sorted(TREE):
                items.append(("pair", HIST_SHAPE, [dev_key(sa, "?typo:" + name)], [dev_key(sb, "?typo:" + name)]))
    return items


def history_fresh_needed(deep: bool) -> List[Tuple[str, List[dict]]]:
    seen, out = set(), []
    for devs in history_list(deep):
        k = _hkey(HIST_SHAPE, devs)
        if k not in seen:
            seen.add(k)
            out.append((HIST_SHAPE, devs))
    for it in history_items(deep):
        if it[0] == "pair":
            for devs in (it[2], it[3]):
                k = _hkey(it[1], devs)
                if k not in seen:
                    seen.add(k)
                    out.append((it[1], devs))
    return out


FRESH: Dict[str, dict] = {}   # filled by run() before the history workers fork


def _fresh_worker(chunk, st: Stats, outdir):
    z = zygote()
    res = z.run_many([[[sh, devs]] for sh, devs in chunk])
    with open(os.path.join(outdir, "fresh-%d-%d.jsonl" % (os.getpid(), h64(_hkey(*chunk[0])) % 10 ** 9)), "w", encoding="utf-8") as f:
        for (sh, devs), r in zip(chunk, res):
            st.add("transitions")
            f.write(json.dumps({"k": _hkey(sh, devs), "o": r[0]}) + "\n")
    st.add("history_forks", z.take_forks())


def _hist_reduce(z: Zygote, prefix, last, fresh_last, aspect):
    """shrink the history before `last` while its outcome still differs from the fresh one in the same aspect"""
    cur = list(prefix)
    while len(cur) > 1:
        half = len(cur) // 2
        for cand in (cur[half:], cur[:half]):
            if _hist_diff(z.run(cand + [last])[-1], fresh_last) == aspect:
                cur = cand
                break
        else:
            break
    return cur


def _hist_report(st: Stats, z: Zygote, steps, i, got, fresh, aspect, reported):
    sh, devs = steps[i]
    sig = "c:history:%s:%s" % (aspect, _coarse(devs))
    st.add("history_differences")
    if sig in reported:
        return
    reported.add(sig)
    pre = _hist_reduce(z, steps[:i], steps[i], fresh, aspect)
    hist = pre + [steps[i]]
    got = z.run(hist)[-1]
    what = ("%s on input %s answers {%s} in a fresh process but {%s} after this process validated %s" % (
        sh, _describe(devs), _hist_show(fresh), _hist_show(got),
        "; ".join(_describe(d) for _, d in pre[:3]) + (" ... (%d inputs)" % len(pre) if len(pre) > 3 else "")))
    st.violation(sig, what, {"kind": "history", "steps": hist})


def _history_worker(chunk, st: Stats, deep):
    z = zygote()
    reported = set()
    hists = []
    for it in chunk:
        if it[0] == "pair":
            hists.append([[it[1], it[2]], [it[1], it[3]]])
        else:
            L = [[HIST_SHAPE, d] for d in history_list(deep)]
            hists.append((L + L) if it[1] == "forward-twice" else list(reversed(L)))
    results = z.run_many(hists)
    for it, steps, res in zip(chunk, hists, results):
        st.add("transitions", len(steps))
        st.add("histories")
        st.distinct("states", "H:" + (json.dumps(steps, sort_keys=True) if it[0] == "pair" else it[1]))
        same = True
        for i, (sh, devs) in enumerate(steps):
            fresh = FRESH.get(_hkey(sh, devs))
            if fresh is None:
                raise HarnessError("no fresh-process outcome for %s" % _hkey(sh, devs))
            st.add("validated")
            aspect = _hist_diff(res[i], fresh)
            if aspect is not None:
                same = False
                _hist_report(st, z, steps, i, res[i], fresh, aspect, reported)
        st.add("nontrivial", 1 if any(d for _, d in steps) else 0)
        st.distinct("outcomes", "history:" + ("same" if same else "differs"))
    st.add("history_forks", z.take_forks())


def history_leg(run: Run):
    deep = run.thorough
    need = history_fresh_needed(deep)
    outdir = os.path.join(run.scratch, "fresh")
    os.makedirs(outdir, exist_ok=True)
    run.pmap(_fresh_worker, need, extra=(outdir,), chunks=32)
    FRESH.clear()
    for fn in sorted(os.listdir(outdir)):
        with open(os.path.join(outdir, fn), "r", encoding="utf-8") as f:
            for line in f:
                rec = json.loads(line)
                FRESH[rec["k"]] = rec["o"]
    shutil.rmtree(outdir, ignore_errors=True)
    if len(FRESH) != len(need):
        raise HarnessError("fresh-process outcomes: %d of %d" % (len(FRESH), len(need)))
    items = history_items(deep)
    run.notes["history_fresh_inputs"] = len(need)
    run.notes["history_chain_length"] = len(history_list(deep))
    run.notes["history_pairs"] = sum(1 for it in items if it[0] == "pair")
    run.notes["history_shared_typos"] = ["%s->%s" % nt for nt in shared_typos(2 if deep else 6)]
    run.pmap(_history_worker, items, extra=(deep,), chunks=48)


# ------------------------------------------------------------------------------------------------
# run / replay
# ------------------------------------------------------------------------------------------------
def _collect_accepted(accdir) -> List[List[dict]]:
    best: Dict[int, str] = {}
    for fn in sorted(os.listdir(accdir)):
        with open(os.path.join(accdir, fn), "r", encoding="utf-8") as f:
            for line in f:
                rec = json.loads(line)
                s = json.dumps(rec["devs"], sort_keys=True)
                old = best.get(rec["h"])
                if old is None or (len(s), s) < (len(old), old):
                    best[rec["h"]] = s
        os.unlink(os.path.join(accdir, fn))
    return [json.loads(best[h]) for h in sorted(best)]


def run(run: Run) -> None:
    _engine_mods()
    run.rule = ("inputs = {} plus <=1 (quick) / <=2 (thorough) deviations over the v1 key tree of configs/validate.py "
                "(set node to one of 17 values, to False, or - for each of the %d nodes with a documented finite domain - to each of its "
                "members (every enumeration member; one-member and full lists for list-valued enumerations; %d values in all) | add unknown / near-miss / non-string key at a dict level | non-dict root), plus "
                "every single 'echo' deviation: user text that the messages echo (an unknown key at every dict level with value 1 "
                "and -1, an allowed key + suffix at every level, every node set to a string and to a one-string list) carrying one "
                "member of the text-layer alphabet ECHO = 11 Unicode line boundaries, 3 further whitespace cut points, 4 "
                "format/escape metacharacters (keys: all 18 members; values: 5 representatives quick, all 18 thorough; "
                "thorough also (allowed key + member) x sibling node x 8 values); "
                "plus, at every dict level, the same near-miss text (one typo per key name shared by >= 2 levels: %d names) and every "
                "pair out of {allowed key, unknown string key, 5, None, ('a','b')} in one dict in both insertion orders; "
                "every input goes through 4 API shapes + script main() (+ --strict); history leg: each step of each explored "
                "history (all length-2 histories over the hand-picked CLI-subset inputs per entry point; all length-2 histories "
                "of one typo text at two dict levels - quick: names shared by >= 6 levels, thorough: all; the whole list of "
                "single/typo/mix inputs forward twice and backward) must equal the outcome of the same input in a fresh "
                "process; non-trivial = a deviating input that is "
                "rejected, or accepted with a normalised config different from the default one; every distinct accepted "
                "normalised config runs 2 real turns on each of the worlds W0/W1/W2 (quick tier: of the accepted configs that carry an "
                "ECHO member only those with CR, '{' or '%%s'; thorough: all)") % (len(DOMAIN), sum(len(v) for v in DOMAIN.values()), len(shared_typos(2)))
    run.assume("only JSON/YAML-shaped inputs (dict/list/scalars, tuple as the only non-YAML key type); objects with __dict__ are not enumerated")
    run.assume("in-process script main() reads the input through a seam on its _load_config (no file); the real file/YAML path is covered by the CLI subprocess subset only")
    run.assume("clause (d) checks the constraints for which the validator documents an error message; out-of-range values that are documented as warnings only (t2.quality.fusion.alpha_semantic) and keys without any documented constraint (t2.owner_scope, surface_method, budgets.*, flags.*, t2.quality.lexical.bm25.{k1,b}) are not range-checked")
    run.assume("clause (e): worlds W0 (empty state), W1 (one graph, 4 episodes), W2 (two graphs incl. cycle/self-loop/parallel/zero/negative/unknown-relation edges, 6 episodes, GEL edges); 2 turns, texts 'apple', 'pear fig'; episode vectors are embedded with the config's k_surface; plans carry 4 scripted deltas; the enumeration members that name optional back ends (t2.backend=lancedb, t3.backend / t3.reflection.backend=llm, t3.llm.provider=ollama, perf.snapshots.compression=zstd) ARE set, each alone (quick) or next to one sibling (thorough), and the turn must still complete; no LanceDB table, LLM endpoint or fixture file exists in the worlds, and t3_deliberate is the scripted rule-based planner in every run")
    run.assume("clause (e) runs once per distinct normalised config (the engine only sees the normalised config)")
    run.notes["tree_sections"] = len(TREE)
    run.notes["tree_nodes"] = len(NODES)
    run.notes["value_alphabet"] = VALUES
    run.notes["domain_alphabet"] = {".".join(p): v for p, v in sorted(DOMAIN.items())}
    run.assume("DOMAIN alphabet: the finite domains are those of the clause-(d) table (enumerations the validator documents in an "
               "error message, plus the two list-valued ones t4.cache.namespaces and perf.t2.reader.partitions.by); free-text "
               "leaves whose meaning the engine interprets (t2.tiers members, t2.owner_scope, surface_method) get no members")
    run.notes["echo_alphabet"] = {k: ascii(v) for k, v in ECHO.items()}
    run.notes["echo_value_members"] = list(ECHO) if run.thorough else ECHO_REPS
    run.assume("messages are compared as the multiset of LF-separated, whitespace-trimmed lines of each shape's error list / "
               "ConfigError text / stdout: a message that itself contains LF counts as several lines in every shape alike, and "
               "leading/trailing whitespace of a line is not compared")
    run.assume("real-CLI subprocesses run with PYTHONIOENCODING=utf-8 and their stdout is decoded by the harness without newline "
               "translation; the ECHO members reach the real CLI in 4 multi-key inputs only (all other echo inputs go through "
               "the in-process main())")

    run.assume("history leg: histories are sequences of validator calls in one process (no engine turns, no threads in between); "
               "a 'fresh process' is a fork of a new interpreter that imported configs.validate / clematis.scripts.validate and "
               "never called them; consecutive histories share one fork only while the reachable state of the loaded "
               "configs.* / clematis.* modules (globals, closures, function attributes, functools caches, class attributes) is "
               "unchanged since import - state kept anywhere else would make two histories run back to back (a longer "
               "history), never a false report, since every report is a difference between two real outcomes of one input")
    run.assume("history leg compares verdict, messages, digest of the normalised config, warnings (and exit code / stdout of "
               "main()); beyond length 2 only the two long histories are explored, not all orders")
    accdir = os.path.join(run.scratch, "acc")
    os.makedirs(accdir, exist_ok=True)

    # k = 0: the harness itself must be deterministic; the default config is the reference for "non-trivial"
    v0, info0 = check_input([])
    if info0["verdict"] != "accept":
        default_norm_c = 0
    else:
        default_norm_c = norm_hash(info0["norm"])
    wd = os.path.join(run.scratch, "eng-base")
    base_fail_types = set()
    if info0["verdict"] == "accept":
        r1 = [engine_run(info0["norm"], w, wd) for w in WORLDS]
        r2 = [engine_run(info0["norm"], w, wd) for w in WORLDS]
        if [(x[0] is None, x[1]) for x in r1] != [(x[0] is None, x[1]) for x in r2]:
            raise HarnessError("engine replay of the default config is not deterministic: %r vs %r" % (r1, r2))
        base_fail_types = set(type(x[0][0]).__name__ for x in r1 if x[0] is not None)
        run.add("transitions", 2 * len(WORLDS) * len(TEXTS))
    shutil.rmtree(wd, ignore_errors=True)

    import time as _t
    _t0 = _t.time()

    def _ph(name):
        run.notes["wall_s_" + name] = round(_t.time() - _t0, 1)

    _ph("base")
    run.sample({"devs": [], "input": "{}", "verdict": info0["verdict"], "warnings": info0["warnings"]})
    for devs in ([dev_set(("t1", "node_budget"), "nan")], [dev_key(("t2", "hybrid"), "#5")], [dev_set(("perf",), "list-1")],
                 [dev_set(("t4", "cache", "namespaces"), "list-empty")], [dev_root("list-1")]):
        _, inf = check_input(devs)
        run.sample({"devs": devs, "input": _describe(devs), "verdict": inf["verdict"], "errs": (inf["errs"] or [])[:2],
                    "warnings": inf["warnings"]})
    # ---- k <= 1
    S = singles()
    run.notes["singles"] = len(S)
    SE = echo_singles(run.thorough)
    run.notes["echo_singles"] = len(SE)
    ST, SM = typo_singles(), mixed_key_inputs()
    run.notes["typo_singles"] = len(ST)
    run.notes["mixed_key_inputs"] = len(SM)
    S = S + SE + ST + SM
    run.pmap(_validate_worker, S, extra=("devs", accdir, default_norm_c))
    _ph("k1_validated")
    acc1 = _engine_echo_domain(run, _engine_domain(run, _collect_accepted(accdir)))
    run.notes["distinct_accepted_configs_k1"] = len(acc1)
    run.pmap(_engine_worker, acc1, extra=(run.scratch, base_fail_types))
    done = set(json.dumps(d, sort_keys=True) for d in acc1)
    _ph("k1_engine")

    # ---- real CLI subset
    C = cli_subset()
    run.notes["cli_subset"] = len(C)
    run.pmap(_cli_worker, C, extra=(run.scratch,), chunks=min(len(C), 32))

    _ph("cli")
    # ---- histories (fresh process vs. a process that validated other inputs before)
    history_leg(run)
    _ph("history")
    # ---- k = 2 (thorough)
    if run.thorough:
        G = pair_groups()
        run.notes["pair_groups"] = len(G)
        run.pmap(_validate_worker, G, extra=("groups", accdir, default_norm_c), chunks=min(len(G), 512))
        _ph("k2_validated")
        acc2_all = _engine_domain(run, _collect_accepted(accdir))
        # engine runs for the distinct accepted configs of SIBLING pairs and of (single x version); the
        # reduced-alphabet non-sibling pairs are validated (a)-(d) only (stated bound, see level_note)
        acc2 = []
        for devs in acc2_all:
            if json.dumps(devs, sort_keys=True) in done:
                continue
            if len(devs) == 2 and dev_parent(devs[0]) != dev_parent(devs[1]) and not any(
                    d["op"] == "set" and d["path"] == ["version"] for d in devs):
                run.add("engine_skipped_nonsibling")
                continue
            acc2.append(devs)
        # configs already run for k<=1 have a single-deviation representative (shorter), so they are skipped above
        known1 = set()
        for devs in acc1:
            try:
                known1.add(norm_hash(V.validate_config(build(devs))))
            except Exception:
                pass
        acc2 = [d for d in acc2 if _norm_hash(d) not in known1]
        run.notes["distinct_accepted_configs_k2_run"] = len(acc2)
        run.pmap(_engine_worker, acc2, extra=(run.scratch, base_fail_types), chunks=min(max(1, len(acc2)), 512))
        _ph("k2_engine")
    run.notes["bound_k"] = 2 if run.thorough else 1
    if len(run.sets.get("outcomes", ())) < 2:
        raise HarnessError("vacuous run: fewer than two outcome classes")


def _engine_echo_domain(run, acc):
    """quick tier: of the accepted configs that carry an ECHO member, only those of ECHO_ENGINE_QUICK run turns"""
    if run.thorough:
        return acc
    out = []
    for devs in acc:
        ms = [m for m in (echo_member(d) for d in devs) if m]
        if ms and not all(m in ECHO_ENGINE_QUICK for m in ms):
            run.add("engine_skipped_echo_quick")
            continue
        out.append(devs)
    return out


def _engine_domain(run, acc):
    """clause (e) is about JSON/YAML-shaped configurations: an accepted input that carries a tuple key (not
    expressible in either format; kept as a totality probe for (a)-(d)) is not handed to the engine"""
    out = []
    for devs in acc:
        if any(d["op"] == "key" and d["k"] == "#tuple" for d in devs):
            run.add("engine_skipped_tuple_key")
            continue
        out.append(devs)
    return out


def _norm_hash(devs):
    try:
        return norm_hash(V.validate_config(build(devs)))
    except Exception:
        return None


def _replay_history(case) -> List[Tuple[str, str]]:
    steps = case["steps"]
    z = Zygote()
    try:
        sh, devs = steps[-1]
        fresh = z.run([steps[-1]])[0]
        got = z.run(steps)[-1]
    finally:
        z.close()
    aspect = _hist_diff(got, fresh)
    if aspect is None:
        return []
    return [("c:history:%s:%s" % (aspect, _coarse(devs)),
             "%s on input %s answers {%s} in a fresh process but {%s} after this process validated %s" % (
                 sh, _describe(devs), _hist_show(fresh), _hist_show(got), "; ".join(_describe(d) for _, d in steps[:-1][:3])))]


def replay(case) -> List[Tuple[str, str]]:
    if case.get("kind") == "history":
        return _replay_history(case)
    devs = case.get("devs", [])
    out: List[Tuple[str, str]] = []
    viols, info = check_input(devs)
    for kind, detail, what in viols:
        out.append((_sig(kind, detail, devs), what))
    import tempfile
    base = "/dev/shm" if os.path.isdir("/dev/shm") else None
    scratch = tempfile.mkdtemp(prefix="verif-C14-replay-", dir=base)
    try:
        if case.get("engine") or info["verdict"] == "accept":
            fails, _ = engine_check(devs, os.path.join(scratch, "eng"))
            for etype, where, msg, world in fails:
                out.append(("e:engine-raises:%s" % devs_class(devs, levels=True),
                            "accepted config %s: turn on world %s raised %s at %s" % (_describe(devs), world, msg, where)))
        if case.get("cli"):
            v, n, skipped = cli_check(devs, scratch)
            out.extend(v)
    finally:
        shutil.rmtree(scratch, ignore_errors=True)
    return out
