"""C09 -- stage-level parallelism is indistinguishable from sequential execution.

Engine E3a (mc/pool_orders.py): every feasible completion order of the tasks handed to the REAL
``run_parallel`` / ``ThreadPoolExecutor``, for every worker count, is executed and compared with the
sequential path.

(helper)  n <= 5 tasks (quick 4), max_workers 0..8, every feasible completion order, every subset of failing
          tasks, key shapes incl. duplicate keys, reversed keys, reversed / collapsing order_key functions.
          Oracle: literal for-loop + stable sort; on failures a ParallelError that lists every failed task
          sorted by key, identical for every completion order, merge_fn never called.
(T1)      world W2 with every ordered selection of 2-3 of its graphs (+ a duplicate-graph list), texts,
          t1 cap settings, workers 2..4, LRU capacity {1, 512}, cache fresh / pre-warmed, every completion
          order of the per-graph tasks; + wide fan-outs (up to 12 distinct graphs quick / 23 thorough, so task
          indices and graph ids have two decimal digits; > 5 tasks: the three extreme feasible completion orders).
          Oracle: graph_deltas and counters of the sequential stage.
(T2)      memories = every ordered selection of <= 5 episodes of a 5-episode alphabet, tiers = every
          non-empty ordered subset of the three tiers, k in {1,2,64}, clusters_top_m in {1,3}, workers 2..4,
          every completion order of the per-shard tasks.  Oracle: items / order / scores / residual deltas /
          metrics of the sequential stage.
          + index-history leg: the contents are REACHED on one index object that has already served the fan-out
          (add P1, query, clear() + add P2 | keep adding P2, judged query), the sequential twin replays the same
          history on its own object.
          + retrieval-parameter leg: the knobs t2_semantic reads once and hands to every per-shard task --
          exact_recent_days (0 = no window, windows that cut between the episode ages, the maximum, key absent),
          sim_threshold (-1, 0, default, high, 1), clusters_top_m (0, 1, 2) -- quick: one knob off its base value at a
          time, thorough: every pair; two query texts (the old episode orthogonal to one, best match of the other).

A task the implementation withdraws from the pool (Future cancelled while queued) is part of the pool model
(``GateController``): it is an outcome judged by the oracle, not a harness time-out.
"""
from __future__ import annotations

import itertools
import math
import types
from typing import Any, Dict, List, Optional, Sequence, Tuple

from mc.runner import HarnessError, Run, Stats
from mc import pool_orders as po
from mc import world as W

from clematis.engine.util import parallel as par_mod
from clematis.engine.stages import t1 as t1_mod
from clematis.engine.stages.t2 import core as t2_core
from clematis.memory.index import InMemoryIndex

for _m, _n in ((par_mod, "run_parallel"), (par_mod, "ParallelError"), (t1_mod, "run_parallel"),
               (t1_mod, "t1_propagate"), (t2_core, "run_parallel"), (t2_core, "t2_semantic")):
    if not hasattr(_m, _n):
        raise HarnessError("seam missing: %s.%s" % (_m.__name__, _n))


class GateController(po.OrderController):
    """``OrderController`` whose pool model also covers tasks the implementation decides NOT to start.

    The base controller waits until every task the FIFO model says is running has arrived at its gate; a task
    that never shows up is a harness error after a 60 s timeout.  An implementation that withdraws work that is
    still queued (``Future.cancel()`` on a pending future: the pool drops the work item, the body never runs)
    makes exactly that happen although nothing is wrong with the machinery -- the ENGINE did not execute a task.
    That is an outcome for the oracle (task not executed / failure not reported), not a crash.  A cancelled
    future is observable without any timing assumption (its done-callback fires with ``cancelled()`` true), so
    the model is extended: a task whose future was cancelled before it started leaves the queue, i.e. it counts
    as finished for the running-set computation and is skipped in the prescribed completion order.  Nothing
    changes for an implementation that never cancels (``cancelled`` stays empty)."""

    def __init__(self, n, w, order, timeout: float = po.DEFAULT_TIMEOUT):
        super().__init__(n, w, order, timeout)
        self.cancelled: List[int] = []  # tasks whose future was cancelled before the body started

    def _gone(self) -> List[int]:
        return list(self.done) + [i for i in self.cancelled if i not in self.done]

    def _advance(self) -> None:
        while len(self.done) < len(self.order):
            nxt = self.order[len(self.done)]
            if nxt in self.cancelled and nxt not in self.arrived:
                self.done.append(nxt)
            elif nxt in self.returned and (not self.pool_used or nxt in self.future_done):
                self.done.append(nxt)
            else:
                break

    def _can_run(self, idx: int) -> bool:
        if self.hold or len(self.done) >= len(self.order) or self.order[len(self.done)] != idx:
            return False
        if any(r not in self.done for r in self.released):
            return False
        return all(i in self.arrived for i in po.running_set(self.n, self.w, self._gone()))

    def _register_future(self, idx: int, fut) -> None:
        with self.cv:
            self.futures[idx] = fut

        def _cb(f, idx=idx):
            with self.cv:
                if f.cancelled():
                    if idx not in self.cancelled:
                        self.cancelled.append(idx)
                else:
                    self.future_done.append(idx)
                self._advance()
                self.cv.notify_all()

        fut.add_done_callback(_cb)


def _viol(st, sig: str, what: str, case) -> None:
    """Deterministic witness choice (smallest JSON, then lexicographic) independent of worker scheduling."""
    import json
    new = json.dumps(case, sort_keys=True, default=repr)
    old = st.viol.get(sig)
    if old is not None:
        o = json.dumps(old[1], sort_keys=True, default=repr)
        if (len(o), o, old[0]) <= (len(new), new, what):
            return
    st.viol[sig] = (what, case)


# =========================================================================================== helper part
class _Boom0(ValueError):
    pass


class _Boom1(RuntimeError):
    pass


def _shape(name: str, n: int):
    """-> (keys, order_key, class) ; class 'distinct' (no two tasks tie under order_key) or 'ties'."""
    if name == "asc":
        return list(range(n)), (lambda k: k), "distinct"
    if name == "desc":  # reversed keys
        return [n - 1 - i for i in range(n)], (lambda k: k), "distinct"
    if name == "neg":  # reversed order key
        return list(range(n)), (lambda k: -k), "distinct"
    if name == "alleq":  # all duplicate
        return [7] * n, (lambda k: k), "ties"
    if name == "dup2":  # interleaved duplicates
        return [i % 2 for i in range(n)], (lambda k: k), "ties"
    if name == "dup2desc":  # duplicates, descending blocks
        return [(n - 1 - i) // 2 for i in range(n)], (lambda k: k), "ties"
    if name == "tuple":  # T1-like composite key (index, gid)
        return [(i // 2, "g%d" % (n - i)) for i in range(n)], (lambda k: (k[0], k[1])), "distinct"
    if name == "collapse":  # distinct keys that tie under order_key
        return list(range(n)), (lambda k: k // 2), "ties"
    raise HarnessError("unknown key shape %s" % name)


SHAPES_THOROUGH = ["asc", "desc", "neg", "alleq", "dup2", "dup2desc", "tuple", "collapse"]
SHAPES_QUICK = ["asc", "desc", "neg", "alleq", "dup2", "collapse"]


def _helper_reference(n, keys, okey, fails):
    """The plain loop: run in submit order, stop at the first exception, stable sort by order_key."""
    res = []
    for i in range(n):
        if i in fails:
            return ("err", i)
        res.append((keys[i], ["r", i]))
    res = sorted(res, key=lambda kr: okey(kr[0]))  # sorted() is stable
    return ("ok", res)


def _helper_exec(n, shape, w, fails, order):
    """One controlled execution of the real run_parallel.  Returns an observation dict."""
    keys, okey, _cls = _shape(shape, n)
    fails = set(fails)
    merge_calls: List[Any] = []

    def merge_fn(pairs):
        merge_calls.append([(k, r) for k, r in pairs])
        return ("merged", len(merge_calls), [(k, r) for k, r in pairs])

    def body(i):
        def f():
            if i in fails:
                raise (_Boom0 if i % 2 == 0 else _Boom1)("boom-%d" % i)
            return ["r", i]
        return f

    ctl = GateController(n, w, order)
    tasks = [(keys[i], ctl.wrap(i, body(i))) for i in range(n)]
    with po.observe_pool(par_mod):
        kind, val = ctl.run(lambda: par_mod.run_parallel(tasks, max_workers=w, merge_fn=merge_fn, order_key=okey))
    obs: Dict[str, Any] = {"kind": kind, "merge_calls": merge_calls, "executions": dict(ctl.executions),
                           "returned": list(ctl.returned), "early": list(ctl.early), "pool_used": ctl.pool_used,
                           "cancelled": sorted(ctl.cancelled)}
    if kind == "ok":
        obs["value"] = val
    else:
        obs["exc_type"] = type(val).__name__
        obs["exc_str"] = str(val)
        errs = getattr(val, "errors", None)
        if isinstance(val, par_mod.ParallelError) and errs is not None:
            obs["errors"] = [(e.key, e.exc_type, e.message) for e in errs]
    return obs


def _withdrawn(obs) -> str:
    c = obs.get("cancelled") or []
    return " (queued tasks %r were withdrawn from the pool: their futures were cancelled before they started)" % (c,) if c else ""


def _helper_check(n, shape, w, fails, order, obs) -> List[Tuple[str, str]]:
    keys, okey, cls = _shape(shape, n)
    fails = sorted(set(fails))
    ref = _helper_reference(n, keys, okey, fails)
    tag = "n=%d keys=%s(%r) max_workers=%d failing=%r completion_order=%r" % (n, shape, keys, w, fails, list(order))
    out: List[Tuple[str, str]] = []
    path = "seq" if w <= 1 else "pool"
    if any(c > 1 for c in obs["executions"].values()):
        out.append(("helper:%s:task-executed-twice" % path, "%s: executions=%r" % (tag, obs["executions"])))
    if not fails:
        exp_val = ("merged", 1, ref[1])
        if obs["kind"] != "ok":
            out.append(("helper:%s:raises-%s-without-failing-task" % (path, obs.get("exc_type")),
                        "%s: raised %s: %s" % (tag, obs.get("exc_type"), obs.get("exc_str"))))
            return out
        if len(obs["merge_calls"]) != 1:
            out.append(("helper:%s:merge_fn-called-%d-times" % (path, len(obs["merge_calls"])), tag))
        elif obs["merge_calls"][0] != ref[1]:
            out.append(("helper:%s:merge-input-differs-from-plain-loop:%s" % (path, cls),
                        "%s: merge_fn received %r, plain loop + stable sort gives %r" % (tag, obs["merge_calls"][0], ref[1])))
        elif obs["value"] != exp_val:
            out.append(("helper:%s:return-value-is-not-merge-result" % path, "%s: returned %r" % (tag, obs["value"])))
        if sorted(obs["executions"]) != list(range(n)):
            out.append(("helper:%s:task-not-executed" % path, "%s: executed %r%s" % (tag, sorted(obs["executions"]), _withdrawn(obs))))
        return out
    # ---- some task fails
    if obs["merge_calls"]:
        out.append(("helper:%s:merge_fn-called-although-task-failed" % path,
                    "%s: merge_fn received %r" % (tag, obs["merge_calls"])))
    if obs["kind"] == "ok":
        out.append(("helper:%s:no-error-although-task-failed" % path, "%s: returned %r" % (tag, obs.get("value"))))
        return out
    if "errors" not in obs:
        out.append(("helper:%s:raises-%s-instead-of-ParallelError" % (path, obs.get("exc_type")),
                    "%s: %s" % (tag, obs.get("exc_str"))))
        return out
    exp_all = [(keys[i], (_Boom0 if i % 2 == 0 else _Boom1).__name__, "boom-%d" % i) for i in fails]
    got = obs["errors"]
    okeys = [okey(k) for k, _, _ in got]
    if path == "seq" and got == [(keys[fails[0]], exp_all[0][1], exp_all[0][2])] and sorted(obs["executions"]) == list(range(fails[0] + 1)):
        return out  # the plain loop: stops at the first failure in submit order
    if sorted(map(repr, got)) != sorted(map(repr, exp_all)):
        out.append(("helper:%s:errors-do-not-list-every-failed-task" % path,
                    "%s: ParallelError.errors=%r, failed tasks %r" % (tag, got, exp_all)))
    elif any(okeys[i] > okeys[i + 1] for i in range(len(okeys) - 1)):
        out.append(("helper:%s:errors-not-sorted-by-key:%s" % (path, cls),
                    "%s: ParallelError.errors=%r" % (tag, got)))
    if path == "pool" and sorted(obs["executions"]) != list(range(n)):
        out.append(("helper:pool:task-not-executed", "%s: executed %r%s" % (tag, sorted(obs["executions"]), _withdrawn(obs))))
    return out


def _helper_group(n, shape, w, fails, st: Optional[Stats]) -> List[Tuple[str, str, dict]]:
    """All feasible completion orders of one (n, key shape, max_workers, failing set)."""
    res: List[Tuple[str, str, dict]] = []
    first_obs = None
    first_order = None
    keys, okey, cls = _shape(shape, n)
    for order in po.feasible_orders(n, w):
        obs = _helper_exec(n, shape, w, fails, order)
        case = {"kind": "helper", "n": n, "shape": shape, "w": w, "fails": sorted(fails), "order": list(order)}
        found = _helper_check(n, shape, w, fails, order, obs)
        # completion-order independence of what the caller can observe
        view = (obs["kind"], obs.get("value"), obs.get("errors"), obs.get("exc_type"), obs.get("exc_str"))
        if first_obs is None:
            first_obs, first_order = view, order
        elif view != first_obs:
            what = "errors" if obs["kind"] != "ok" else "result"
            found.append(("helper:pool:%s-depends-on-completion-order:%s" % (what, cls),
                          "n=%d keys=%s(%r) max_workers=%d failing=%r: completion order %r gives %r, order %r gives %r" % (
                              n, shape, keys, w, sorted(fails), list(first_order), first_obs[1] if what == "result" else first_obs[2],
                              list(order), view[1] if what == "result" else view[2])))
            case = dict(case, ref_order=list(first_order))
        if st is not None:
            st.add("transitions")
            st.add("validated")
            st.add("helper_executions")
            st.distinct("states", ("h", n, shape, w, tuple(sorted(fails)), order))
            eff = max(1, min(w, n)) if n else 0
            oc = ("h", obs["kind"], obs.get("exc_type"), len(obs.get("errors") or []), eff > 1, list(order) != sorted(order))
            st.distinct("outcomes", oc)
            if eff > 1 and (list(order) != sorted(order) or fails):
                st.add("nontrivial")
            if obs["early"]:
                st.add("helper_early_arrivals")
        for sig, what in found:
            res.append((sig, what, case))
    return res


def _helper_worker(chunk, st: Stats):
    for (n, shape, w, fails) in chunk:
        for sig, what, case in _helper_group(n, shape, w, set(fails), st):
            _viol(st, sig, what, case)


def helper_units(thorough: bool, seed: int):
    nmax = 5 if thorough else 4
    shapes = SHAPES_THOROUGH if thorough else SHAPES_QUICK
    units = []
    for n in range(0, nmax + 1):
        for shape in shapes:
            for w in range(0, 9):
                for r in range(0, n + 1):
                    for fails in itertools.combinations(range(n), r):
                        units.append((n, shape, w, tuple(fails)))
    return units


# =========================================================================================== stage gate
class StageGate:
    """Patches ``module.run_parallel`` with a function that gates every thunk and then calls the real one."""

    def __init__(self, module, order: Optional[Sequence[int]]):
        self.module = module
        self.order = None if order is None else tuple(order)
        self.calls: List[Dict[str, Any]] = []
        self.ctl: Optional[GateController] = None
        self.harness_error: Optional[str] = None
        self.real = None

    def _wrapper(self, tasks, *a, **kw):
        tasks = list(tasks)
        n = len(tasks)
        try:
            w = int(kw.get("max_workers") or 0)
        except Exception:
            w = 0
        self.calls.append({"n": n, "w": w, "merge_fn_none": kw.get("merge_fn", None) is None,
                           "order_key_none": kw.get("order_key", None) is None})
        if len(self.calls) > 1:
            self.harness_error = "stage called run_parallel more than once"
            raise HarnessError(self.harness_error)
        order = self.order if self.order is not None else next(iter(po.feasible_orders(n, w)))
        try:
            ctl = GateController(n, w, order)
        except HarnessError as e:
            self.harness_error = str(e)
            raise
        self.ctl = ctl
        gated = [(k, ctl.wrap(i, fn)) for i, (k, fn) in enumerate(tasks)]
        try:
            kind, val = ctl.run(lambda: self.real(gated, *a, **kw))
        except HarnessError as e:
            self.harness_error = str(e)
            raise
        if kind == "exc":
            raise val
        return val

    def __enter__(self):
        self.real = par_mod.run_parallel
        self._old = self.module.run_parallel
        self.module.run_parallel = self._wrapper
        self._obs = po.observe_pool(par_mod)
        self._obs.__enter__()
        return self

    def __exit__(self, *exc):
        self.module.run_parallel = self._old
        self._obs.__exit__(*exc)
        return False


def _num_eq(a, b) -> bool:
    if isinstance(a, bool) or isinstance(b, bool):
        return a is b or a == b and type(a) is type(b)
    if isinstance(a, (int, float)) and isinstance(b, (int, float)):
        if isinstance(a, float) or isinstance(b, float):
            if math.isnan(a) or math.isnan(b):
                return math.isnan(a) and math.isnan(b)
            return abs(a - b) <= 1e-9
        return a == b
    if isinstance(a, dict) and isinstance(b, dict):
        return set(a) == set(b) and all(_num_eq(a[k], b[k]) for k in a)
    if isinstance(a, (list, tuple)) and isinstance(b, (list, tuple)):
        return len(a) == len(b) and all(_num_eq(x, y) for x, y in zip(a, b))
    return a == b


# =========================================================================================== T1 part
T1_OVERS: Dict[str, dict] = {
    "default": {},
    "radius1": {"t1": {"radius_cap": 1}},
    "layers1": {"t1": {"iter_cap": 1}},
    "node_budget": {"t1": {"node_budget": 0.5}},
    "queue2": {"t1": {"queue_budget": 2}},
    "attn": {"t1": {"decay": {"mode": "attn_quad", "alpha": 0.8}}},
    "perfcaps": {"perf": {"enabled": True, "metrics": {"report_memory": True},
                          "t1": {"caps": {"frontier": 2, "visited": 2}, "dedupe_window": 2}}},
}
T1_TEXTS = ["apple", "pear fig", "zzz", "apple pear fig plum quince"]
T1_CACHE_DIAG = {"cache_hits", "cache_misses", "cache_used", "t1.cache_evictions", "t1.cache_bytes"}
T1_HIT_DEPENDENT = {"max_delta", "t1_frontier_evicted", "t1_dedup_hits", "t1_visited_evicted"}
PAR_DIAG = {"parallel_workers", "task_count"}

_CFG_CACHE: Dict[Any, Any] = {}


def _t1_cfg(over_name: str, cap: int, w: int, parallel: bool):
    key = ("t1", over_name, cap, w, parallel)
    if key not in _CFG_CACHE:
        over = W.deep_merge(T1_OVERS[over_name], {"t1": {"cache": {"enabled": True, "max_entries": cap, "ttl_s": 300}}})
        if parallel:
            over = W.deep_merge(over, W.CONFIG_MENU["par_t1"])
            over = W.deep_merge(over, {"perf": {"parallel": {"max_workers": w}}})
        _CFG_CACHE[key] = W.make_cfg(over)
    return _CFG_CACHE[key]


_FRUIT = ["apple", "pear", "fig", "plum", "quince"]


def _t1_extra_graphs(state, graphs) -> None:
    """Wide fan-outs: every listed graph beyond g1..g3 of the world ("g4", "g5", ... "g10", ...) is created with its own
    node ids (two nodes, one edge), so the deltas of different graphs are distinguishable and the position of every task
    result in the merged list is observable."""
    for gid in graphs:
        if gid in ("g1", "g2", "g3") or not (isinstance(gid, str) and gid[:1] == "g" and gid[1:].isdigit()):
            continue
        k = int(gid[1:])
        W._graph(state["store"], gid,
                 [("x%d_1" % k, _FRUIT[k % 5]), ("x%d_2" % k, _FRUIT[(k + 2) % 5])],
                 [("y%d" % k, "x%d_1" % k, "x%d_2" % k, 0.5 + 0.25 * (k % 2), "supports")])


_T1_WIDE_TXT = {True: "4,5,9,10,11,12,13,21,23", False: "5,11,12"}
WIDE_N = 5  # beyond this many tasks the completion orders are the extreme feasible ones, not all of them


def _extreme_orders(n: int, w: int) -> List[Tuple[int, ...]]:
    """Deterministic family for wide fan-outs: of the running tasks always the lowest finishes next / always the highest /
    alternately highest and lowest.  All are feasible for a FIFO pool of w threads (built from po.running_set)."""
    out: List[Tuple[int, ...]] = []
    for pick in ("low", "high", "alt"):
        done: List[int] = []
        while len(done) < n:
            r = po.running_set(n, w, done)
            done.append(r[0] if pick == "low" or (pick == "alt" and len(done) % 2) else r[-1])
        if tuple(done) not in out:
            out.append(tuple(done))
    return out


def _t1_exec(case, order):
    """order: None -> sequential configuration; 'census' -> parallel, first feasible order; tuple -> that order."""
    W.reset_globals()
    state = W.make_world("W2")
    _t1_extra_graphs(state, case["graphs"])
    state["active_graphs"] = list(case["graphs"])
    cfg_seq = _t1_cfg(case["over"], case["cap"], case["w"], False)
    if case["warm"]:
        t1_mod.t1_propagate(W.make_ctx(cfg_seq, "A", 1), state, case["warm_text"])
    if order is None:
        try:
            return ("ok", t1_mod.t1_propagate(W.make_ctx(cfg_seq, "A", 2), state, case["text"])), None
        except HarnessError:
            raise
        except Exception as e:  # noqa: BLE001
            return ("exc", e), None
    cfg_par = _t1_cfg(case["over"], case["cap"], case["w"], True)
    gate = StageGate(t1_mod, None if order == "census" else order)
    with gate:
        try:
            out = ("ok", t1_mod.t1_propagate(W.make_ctx(cfg_par, "A", 2), state, case["text"]))
        except HarnessError:
            raise
        except Exception as e:  # noqa: BLE001
            out = ("exc", e)
    if gate.harness_error:
        raise HarnessError("T1 gate: " + gate.harness_error)
    return out, gate


def _t1_compare(case, seq, par) -> List[Tuple[str, str]]:
    tag = "graphs=%r text=%r t1=%s workers=%d lru_capacity=%d cache=%s" % (
        case["graphs"], case["text"], case["over"], case["w"], case["cap"], "pre-warmed" if case["warm"] else "fresh")
    if seq[0] == "exc":
        if par[0] == "exc" and type(par[1]) is type(seq[1]):
            return []
        return [("t1-parallel:sequential-raises-%s" % type(seq[1]).__name__, "%s: sequential raised %r, parallel %r" % (tag, seq[1], par[1]))]
    if par[0] == "exc":
        return [("t1-parallel:raises-%s" % type(par[1]).__name__, "%s: parallel stage raised %r, sequential returned" % (tag, par[1]))]
    s, p = seq[1], par[1]
    out = []
    if s.graph_deltas != p.graph_deltas:
        out.append(("t1-parallel:graph_deltas", "%s: parallel deltas %r, sequential %r" % (tag, p.graph_deltas, s.graph_deltas)))
    skip = set(T1_CACHE_DIAG)
    distinct = len(set(case["graphs"])) == len(case["graphs"])
    if case["warm"] or not distinct:
        # a cache hit reports 0 for these: the value depends on which task finds the entry
        skip.update(T1_HIT_DEPENDENT)
    for k in sorted(set(s.metrics) | set(p.metrics)):
        if k in skip:
            continue
        if k in PAR_DIAG:
            continue  # describe the parallel configuration itself
        if k not in s.metrics or k not in p.metrics or not _num_eq(s.metrics[k], p.metrics[k]):
            out.append(("t1-parallel:counter:%s" % k, "%s: metrics[%r] parallel %r, sequential %r" % (
                tag, k, p.metrics.get(k, "<absent>"), s.metrics.get(k, "<absent>"))))
    return out


def _t1_group(case, st: Optional[Stats]) -> List[Tuple[str, str, dict]]:
    seq, _ = _t1_exec(case, None)
    cen, gate = _t1_exec(case, "census")
    res: List[Tuple[str, str, dict]] = []
    if st is not None:
        st.add("transitions", 2)
    if not gate.calls:
        # the stage did not fan out (gate closed / nothing to do): one comparison, no schedule
        found = _t1_compare(case, seq, cen)
        if st is not None:
            st.add("validated")
            st.add("t1_no_fanout")
        return [(sig, what, dict(case, order=None)) for sig, what in found]
    n, w = gate.calls[0]["n"], gate.calls[0]["w"]
    per_order = []
    for order in (po.feasible_orders(n, w) if n <= WIDE_N else _extreme_orders(n, w)):
        par, g = _t1_exec(case, order)
        found = _t1_compare(case, seq, par)
        per_order.append((order, found))
        if st is not None:
            st.add("transitions")
            st.add("validated")
            st.add("t1_executions")
            st.distinct("states", ("t1", tuple(case["graphs"]), case["text"], case["over"], case["w"], case["cap"], case["warm"], order))
            st.distinct("outcomes", ("t1", par[0], len(par[1].graph_deltas) if par[0] == "ok" else type(par[1]).__name__,
                                     (par[1].metrics.get("cache_hits"), par[1].metrics.get("propagations")) if par[0] == "ok" else None))
            if list(order) != sorted(order):
                st.add("nontrivial")
            if n > WIDE_N:
                st.add("t1_wide_executions")
    bad = [o for o, f in per_order if f]
    for order, found in per_order:
        for sig, what in found:
            if len(bad) != len(per_order):
                sig += ":only-some-completion-orders"
            res.append((sig, what + " [completion order %r; %d of %d orders differ]" % (list(order), len(bad), len(per_order)),
                        dict(case, order=list(order))))
    return res


def _t1_worker(chunk, st: Stats):
    for case in chunk:
        for sig, what, c in _t1_group(case, st):
            _viol(st, sig, what, c)


def t1_units(thorough: bool, seed: int):
    gs = ["g1", "g2", "g3"]
    lists = [list(p) for r in (2, 3) for p in itertools.permutations(gs, r)]
    lists += [["g1", "g2", "g1"], ["g3", "g3"]]  # the same graph listed twice
    overs = list(T1_OVERS) if thorough else ["default", "radius1", "node_budget", "perfcaps"]
    texts = T1_TEXTS if thorough else ["apple", "pear fig", "apple pear fig plum quince"]
    units = []
    for graphs in lists:
        for text in texts:
            for over in overs:
                for w in (2, 3, 4):
                    for cap in (1, 512):
                        for warm in (False, True):
                            units.append({"kind": "t1", "graphs": graphs, "text": text, "over": over, "w": w,
                                          "cap": cap, "warm": warm, "warm_text": text})
    # wide fan-outs: 4..N distinct active graphs, so that task indices and graph ids reach two decimal digits (the merge
    # must follow the numeric submit index: 2 < 10, although "10" < "2" and "g10" < "g2" as strings)
    widths = (4, 5, 9, 10, 11, 12, 13, 21, 23) if thorough else (5, 11, 12)
    for nw in widths:
        asc = ["g%d" % i for i in range(1, nw + 1)]
        for graphs in ([asc, asc[::-1], asc[1::2] + asc[0::2]] if thorough else [asc, asc[::-1]]):
            for text in (("apple pear fig plum quince", "apple") if thorough else ("apple pear fig plum quince",)):
                for w in ((2, 3, 4, 8, 16) if thorough else (2, 4, 8)):
                    for cap in ((1, 512) if thorough else (512,)):
                        units.append({"kind": "t1", "graphs": graphs, "text": text, "over": "default", "w": w,
                                      "cap": cap, "warm": False, "warm_text": text})
    if thorough:
        # cache pre-warmed by a different text (other seeds -> other keys; evictions at capacity 1)
        for graphs in lists:
            for w in (2, 3, 4):
                for cap in (1, 512):
                    units.append({"kind": "t1", "graphs": graphs, "text": "apple", "over": "default", "w": w,
                                  "cap": cap, "warm": True, "warm_text": "pear fig"})
    return units


# =========================================================================================== T2 part
TIERS = ["exact_semantic", "cluster_semantic", "archive"]
TIER_LISTS = [list(p) for r in (1, 2, 3) for p in itertools.permutations(TIERS, r)]  # 15 non-empty ordered subsets

# episode alphabet: recent / old / missing timestamp, 4 clusters (3 explicit + 1 derived), two bit-identical
# vectors, one vector orthogonal to the first query, owners A / B / world, importance extremes
T2_EPISODES: Dict[str, dict] = {
    "a": dict(owner="A", text="apple pie", days_ago=1, cluster="c1", importance=0.9),
    "b": dict(owner="B", text="apple apple fig", days_ago=3, cluster="c1", importance=0.1),
    "c": dict(owner="A", text="pear cider", days_ago=40, cluster="c2", importance=0.5),
    "d": dict(owner="B", text="apple pie", days_ago=2, cluster="c3", importance=None),  # same vector as a
    "e": dict(owner="world", text="fig jam apple", days_ago=None, cluster=None, importance=1.0),  # no timestamp
    # owner x cluster leg: for agent A alone cluster c2 (g) ranks first, with B's episode h counted in, c1 would
    "f": dict(owner="A", text="apple pie pie", days_ago=1, cluster="c1", importance=0.5),
    "g": dict(owner="A", text="fig tart", days_ago=1, cluster="c2", importance=0.5),
    "h": dict(owner="B", text="apple fig", days_ago=1, cluster="c1", importance=0.5),
    # retrieval-parameter leg: a vector with a NEGATIVE cosine to the query "apple fig" (-0.5; +0.5 to "pear cider"), so that a
    # sim_threshold below 0 admits something a threshold of 0 does not
    "n": dict(owner="A", text="sour note", days_ago=1, cluster="c3", importance=0.5, vec=[-1.0, 1.0, 0.0, 0.0, 0.0]),
}
T2_BASE_EPISODES = ["a", "b", "c", "d", "e"]
T2_TEXT = "apple fig"
T2_CACHE_DIAG = {"cache_used", "cache_hits", "cache_misses", "t2.cache_evictions", "t2.cache_bytes"}
T2_PAR_DIAG = {"t2.task_count", "t2.parallel_workers", "t2.partition_count", "task_count", "parallel_workers", "partition_count"}


# episode ids are not always strings: stores hand out integers too.  Under the "int" id style the two bit-identical
# vectors (a, d) get ids whose numeric order (9 < 10) is the opposite of their string order ("10" < "9"), so any two
# layers that break an exact score tie differently (raw id vs str(id)) disagree exactly where k cuts through the tie
INT_IDS = {"a": 9, "d": 10, "b": 100, "c": 11, "e": 8, "f": 12, "g": 7, "h": 13, "n": 14}
_ID_STYLE = {"v": None}


def _t2_episode(eid: str):
    spec = T2_EPISODES[eid]
    xid = INT_IDS[eid] if _ID_STYLE["v"] == "int" else eid
    if spec["days_ago"] is None:
        ep = W._ep(eid, spec["owner"], spec["text"], 0, spec["cluster"], spec["importance"], ts=None)
    else:
        ep = W._ep(eid, spec["owner"], spec["text"], spec["days_ago"], spec["cluster"], spec["importance"], vec=spec.get("vec"))
    ep["id"] = xid
    return ep


def _t2_index(mem: Sequence[str]):
    idx = InMemoryIndex()
    for eid in mem:
        idx.add(_t2_episode(eid))
    return idx


def _t2_hist(case) -> List[str]:
    """History of the ONE index object between its construction from case['mem'] and the judged query: a list of
    operations of the index's public interface -- '+<eid>' add, 'C' clear() -- and '?<text>' = an earlier query
    answered by the same stage configuration in the same process.  ('pre_text' is the one-query history.)"""
    h = list(case.get("hist") or [])
    if case.get("pre_text") is not None:
        h = ["?" + case["pre_text"]] + h
    return h


def _t2_contents(case) -> List[str]:
    """Reference model of the index contents at the judged query."""
    cur = list(case["mem"])
    for op in _t2_hist(case):
        if op == "C":
            cur = []
        elif op.startswith("+"):
            cur.append(op[1:])
    return cur


def _t2_play(hist, state, cfg, t1, swallow: bool):
    idx = state["mem_index"]
    for op in hist:
        if op == "C":
            idx.clear()
        elif op.startswith("+"):
            idx.add(_t2_episode(op[1:]))
        elif op.startswith("?"):
            try:
                t2_core.t2_semantic(W.make_ctx(cfg, "A", 1), state, op[1:], t1)
            except HarnessError:
                raise
            except Exception:  # noqa: BLE001
                if not swallow:
                    raise
        else:
            raise HarnessError("unknown index-history operation %r" % (op,))


# retrieval parameters of the T2 stage that are read once from the configuration and handed to every per-shard task
# (clusters_top_m is the third one; it has been case["m"] from the start).  "absent" = the key is not in the file.
T2_KNOBS = ("exact_recent_days", "sim_threshold")
T2_KNOB_BASE = {"exact_recent_days": 30, "sim_threshold": 0.3}  # = mc.world.BASE_RAW


def _t2_cfg(tiers, k, m, w, parallel: bool, scope: str = "any", knobs: Optional[dict] = None):
    kn = tuple(sorted((knobs or {}).items()))
    key = ("t2", tuple(tiers), k, m, w, parallel, scope, kn)
    if key not in _CFG_CACHE:
        over: Dict[str, Any] = {"t2": {"tiers": list(tiers), "k_retrieval": k, "clusters_top_m": m, "owner_scope": scope}}
        base = None
        for name, val in kn:
            if name not in T2_KNOBS:
                raise HarnessError("unknown T2 retrieval parameter %r" % (name,))
            if val == "absent":
                if base is None:
                    import copy
                    base = copy.deepcopy(W.BASE_RAW)
                base["t2"].pop(name, None)
            else:
                over["t2"][name] = val
        if parallel:
            over["perf"] = {"parallel": {"enabled": True, "t2": True, "max_workers": w}}
        _CFG_CACHE[key] = W.make_cfg(over, base=base)
    return _CFG_CACHE[key]


_T2_BASE: Dict[str, Any] = {}


def _t2_state(mem):
    if "w1" not in _T2_BASE:
        _T2_BASE["w1"] = W.make_world("W1")
    base = _T2_BASE["w1"]
    return {"store": base["store"], "active_graphs": ["g1"], "mem_index": _t2_index(mem), "version_etag": "0"}


def _t2_exec(case, order):
    W.reset_globals()
    _ID_STYLE["v"] = case.get("ids")
    state = _t2_state(case["mem"])
    t1 = types.SimpleNamespace(graph_deltas=[], metrics={})
    scope = case.get("scope", "any")
    hist = _t2_hist(case)
    if order is None:
        cfg = _t2_cfg(case["tiers"], case["k"], case["m"], case["w"], False, scope, case.get("knobs"))
        try:
            _t2_play(hist, state, cfg, t1, swallow=False)
            return ("ok", t2_core.t2_semantic(W.make_ctx(cfg, "A", 1), state, case["text"], t1)), None
        except HarnessError:
            raise
        except Exception as e:  # noqa: BLE001
            return ("exc", e), None
    cfg = _t2_cfg(case["tiers"], case["k"], case["m"], case["w"], True, scope, case.get("knobs"))
    # the history runs on the same index object in the same process under the parallel configuration; the earlier
    # queries use the free-running pool, the judged query the gated one
    _t2_play(hist, state, cfg, t1, swallow=True)
    gate = StageGate(t2_core, None if order == "census" else order)
    with gate:
        try:
            out = ("ok", t2_core.t2_semantic(W.make_ctx(cfg, "A", 1), state, case["text"], t1))
        except HarnessError:
            raise
        except Exception as e:  # noqa: BLE001
            out = ("exc", e)
    if gate.harness_error:
        raise HarnessError("T2 gate: " + gate.harness_error)
    return out, gate


def _t2_view(res):
    return {"ids": [str(r.id) for r in res.retrieved], "scores": [float(r.score) for r in res.retrieved],
            "texts": [getattr(r, "text", None) for r in res.retrieved],
            "residual": list(res.graph_deltas_residual), "metrics": dict(res.metrics)}


def _t2_diff(seq, par, gate) -> List[Tuple[str, str]]:
    """-> [(kind, detail)] ; kind is a short class of what differs"""
    if seq[0] == "exc":
        if par[0] == "exc" and type(par[1]) is type(seq[1]):
            return []
        return [("sequential-raises-%s" % type(seq[1]).__name__, "sequential raised %r, parallel %r" % (seq[1], par[1]))]
    if par[0] == "exc":
        e = par[1]
        call = gate.calls[0] if gate is not None and gate.calls else {}
        if isinstance(e, TypeError) and (call.get("merge_fn_none") or call.get("order_key_none")):
            return [("typeerror-merge_fn-none", "t2_semantic calls run_parallel(merge_fn=%s, order_key=%s) -> %s: %s" % (
                "None" if call.get("merge_fn_none") else "fn", "None" if call.get("order_key_none") else "fn",
                type(e).__name__, e))]
        return [("raises-%s" % type(e).__name__, "parallel stage raised %r, sequential returned" % (e,))]
    s, p = _t2_view(seq[1]), _t2_view(par[1])
    out = []
    if sorted(s["ids"]) != sorted(p["ids"]):
        out.append(("items", "parallel retrieved %r, sequential %r" % (p["ids"], s["ids"])))
    elif s["ids"] != p["ids"]:
        out.append(("order", "parallel order %r, sequential %r" % (p["ids"], s["ids"])))
    elif not _num_eq(s["scores"], p["scores"]):
        out.append(("scores", "parallel scores %r, sequential %r (ids %r)" % (p["scores"], s["scores"], s["ids"])))
    elif s["texts"] != p["texts"]:
        out.append(("item-text", "parallel texts %r, sequential %r" % (p["texts"], s["texts"])))
    if out:
        return out  # the derived values below differ as a consequence
    if s["residual"] != p["residual"]:
        out.append(("residual-deltas", "parallel %r, sequential %r" % (p["residual"], s["residual"])))
    for k in sorted(set(s["metrics"]) | set(p["metrics"])):
        if k in T2_CACHE_DIAG:
            continue
        if k in T2_PAR_DIAG:
            continue
        if k not in s["metrics"] or k not in p["metrics"] or not _num_eq(s["metrics"][k], p["metrics"][k]):
            out.append(("counter:%s" % k, "metrics[%r] parallel %r, sequential %r" % (
                k, p["metrics"].get(k, "<absent>"), s["metrics"].get(k, "<absent>"))))
    return out


def _t2_tag(case):
    hist = _t2_hist(case)
    return "episodes=%r tiers=%r k=%d clusters_top_m=%d workers=%d query=%r%s%s" % (
        list(case["mem"]), list(case["tiers"]), case["k"], case["m"], case["w"], case["text"],
        ("" if case.get("scope", "any") == "any" else " owner_scope=%s" % case["scope"]) + "".join(
            " t2.%s=%s" % (n, "<key absent>" if v == "absent" else repr(v)) for n, v in sorted((case.get("knobs") or {}).items())) + (
            "" if not case.get("ids") else " ids=%s %r" % (case["ids"], {e: INT_IDS[e] for e in case["mem"]})),
        "" if not hist else " then-on-the-same-index=%r (contents at the judged query: %r)" % (hist, _t2_contents(case)))


def _t2_state_key(case, order):
    return ("t2", tuple(case["mem"]), tuple(case["tiers"]), case["k"], case["m"], case["w"], case.get("scope"),
            tuple(_t2_hist(case)), case["text"], case.get("ids"),
            tuple(sorted((n, v) for n, v in (case.get("knobs") or {}).items() if T2_KNOB_BASE.get(n) != v)), order)


def _t2_attribute(case, order, kind) -> str:
    """Name the failing input class: the first single tier that already diverges alone, else the tier set."""
    if kind == "typeerror-merge_fn-none":
        return ""  # call-site defect, independent of the tiers
    if len(case["tiers"]) == 1:
        return case["tiers"][0]
    for t in case["tiers"]:
        c1 = dict(case, tiers=[t])
        seq, _ = _t2_exec(c1, None)
        par, g = _t2_exec(c1, "census")
        if _t2_diff(seq, par, g):
            return t
    return "tier-combination"


def _t2_group(case, st: Optional[Stats]) -> List[Tuple[str, str, dict]]:
    seq, _ = _t2_exec(case, None)
    cen, gate = _t2_exec(case, "census")
    if st is not None:
        st.add("transitions", 2)
    res: List[Tuple[str, str, dict]] = []
    per_order = []
    if not gate.calls:
        found = _t2_diff(seq, cen, gate)
        per_order.append((None, found))
        if st is not None:
            st.add("validated")
            st.add("t2_no_fanout")
            st.distinct("states", _t2_state_key(case, None))
    else:
        n, w = gate.calls[0]["n"], gate.calls[0]["w"]
        for order in po.feasible_orders(n, w):
            par, g = _t2_exec(case, order)
            found = _t2_diff(seq, par, g)
            per_order.append((order, found))
            if st is not None:
                st.add("transitions")
                st.add("validated")
                st.add("t2_executions")
                st.distinct("states", _t2_state_key(case, order))
                if case.get("leg") == "knobs":
                    st.add("t2_parameter_executions")
                if case.get("hist"):
                    st.add("t2_history_executions")
                    if "C" in case["hist"] and len(_t2_contents(case)) == len(case["mem"]):
                        st.add("t2_history_same_size_after_clear")
                st.distinct("outcomes", ("t2", par[0], tuple(_t2_view(par[1])["ids"]) if par[0] == "ok" else type(par[1]).__name__))
                if list(order) != sorted(order):
                    st.add("nontrivial")
                st.notes["t2_max_tasks"] = max(st.notes.get("t2_max_tasks", 0), n)
    if st is not None and seq[0] == "ok":
        st.distinct("outcomes", ("t2seq", tuple(_t2_view(seq[1])["ids"]), tuple(seq[1].metrics.get("tier_sequence", []))))
    bad = [o for o, f in per_order if f]
    attributed: Dict[str, str] = {}
    for order, found in per_order:
        for kind, detail in found:
            if kind not in attributed:
                attributed[kind] = _t2_attribute(case, order, kind)
            tier = attributed[kind]
            sig = "t2-parallel:" + (tier + ":" if tier else "") + kind
            if len(bad) != len(per_order):
                sig += ":only-some-completion-orders"
            res.append((sig, "%s: %s [completion order %r; %d of %d orders differ]" % (
                _t2_tag(case), detail, None if order is None else list(order), len(bad), len(per_order)),
                dict(case, order=None if order is None else list(order))))
    return res


def _t2_worker(chunk, st: Stats):
    for case in chunk:
        for sig, what, c in _t2_group(case, st):
            _viol(st, sig, what, c)


def t2_units(thorough: bool, seed: int):
    eps = list(T2_BASE_EPISODES) if thorough else ["a", "b", "c", "e"]
    maxlen = 5 if thorough else 4
    mems = [list(p) for r in range(0, maxlen + 1) for p in itertools.permutations(eps, r)]
    tier_lists = TIER_LISTS if thorough else [
        ["exact_semantic"], ["cluster_semantic"], ["archive"], ["exact_semantic", "cluster_semantic"],
        ["cluster_semantic", "archive"], ["exact_semantic", "cluster_semantic", "archive"],
        ["archive", "cluster_semantic", "exact_semantic"]]
    ms = (1, 3)
    units = []
    for mem in mems:
        for tiers in tier_lists:
            for k in (1, 2, 64):
                for m in ms:
                    if "cluster_semantic" not in tiers and m != ms[0]:
                        continue  # clusters_top_m is read by the cluster tier only
                    for w in (2, 3, 4):
                        units.append({"kind": "t2", "mem": mem, "tiers": tiers, "k": k, "m": m, "w": w, "text": T2_TEXT})
    # owner_scope=agent leg (owner filter inside every shard)
    for mem in mems:
        if len(mem) < 2 or (not thorough and len(mem) < 3):
            continue
        for tiers in ([["exact_semantic"], ["archive"], ["cluster_semantic"]] if thorough else [["archive"]]):
            for w in (2, 3, 4):
                units.append({"kind": "t2", "mem": mem, "tiers": tiers, "k": 2, "m": 1, "w": w, "text": T2_TEXT, "scope": "agent"})
    # owner x cluster leg: the top-m clusters are those of the memories the asking agent can see, also inside a shard
    for r in (2, 3):
        for mem in itertools.permutations(["f", "g", "h"] + (["b"] if thorough else []), r):
            for scope in ("agent", "world", "any"):
                for tiers in (["cluster_semantic"], ["cluster_semantic", "archive"]):
                    for k in (1, 64):
                        for w in (2, 3):
                            units.append({"kind": "t2", "mem": list(mem), "tiers": tiers, "k": k, "m": 1, "w": w,
                                          "text": T2_TEXT, "scope": scope})
    # two-queries leg: a different query was answered first on the same index (anything the fan-out remembers between
    # calls must be keyed by the query)
    for mem in itertools.permutations(["a", "c", "e"] + (["b"] if thorough else []), 3):
        for tiers in (["cluster_semantic"], ["exact_semantic", "cluster_semantic"]):
            for k in (1, 64):
                for w in (2, 3):
                    for pre_text, text in (("pear cider", T2_TEXT), (T2_TEXT, "pear cider")):
                        units.append({"kind": "t2", "mem": list(mem), "tiers": tiers, "k": k, "m": 1, "w": w, "text": text,
                                      "pre_text": pre_text})
    # id-style leg: integer ids, an exact cosine tie (a, d) that k cuts through, the tied episodes in different shards
    for r in ((3, 4) if thorough else (3,)):
        for mem in itertools.permutations(["a", "d", "b", "c"], r):
            if "a" not in mem or "d" not in mem:
                continue
            for tiers in (["exact_semantic"], ["archive"], ["exact_semantic", "archive"]):
                for k in (1, 2):
                    for w in ((2, 3, 4) if thorough else (3, 4)):
                        units.append({"kind": "t2", "mem": list(mem), "tiers": tiers, "k": k, "m": 3, "w": w, "text": "apple pie",
                                      "ids": "int"})
    units.extend(t2_history_units(thorough))
    units.extend(t2_knob_units(thorough))
    return units


# retrieval-parameter alphabets.  Episode ages are 1 (a), 3 (b), 40 (c) days and "no timestamp" (e): the windows are the
# value with a meaning of its own (0 = no window), one between every two neighbouring ages, the ages themselves where the
# cut is inclusive (1, 40), the stage default (30, also when the key is absent) and the validator's maximum.
KNOB_RECENT = {"quick": [0, 2, 36500, "absent"], "thorough": [0, 1, 2, 30, 40, 36500, "absent"]}
# cosines of the alphabet: 0 (orthogonal), 0.41, 0.5, 0.63, 0.82, 1: the validator's bounds -1 / 1, the value 0 (also the
# validator's default; admits orthogonal episodes with score 0), the base 0.3 and a cut between the positive scores
KNOB_SIM = {"quick": [0.0, -1.0, 0.8], "thorough": [-1.0, 0.0, 0.3, 0.8, 1.0]}
# 3 clusters in the alphabet (c1, c2, the derived one of e): 0 = no cluster, 1, 2 (3 = all is the base legs' second value)
KNOB_TOP_M = {"quick": [0], "thorough": [0, 1, 2]}
KNOB_TIERS = [["exact_semantic"], ["cluster_semantic"], ["archive"], ["exact_semantic", "cluster_semantic", "archive"]]
KNOB_TEXTS = [T2_TEXT, "pear cider"]  # the 40-day-old episode c is orthogonal to the first and the best match of the second


def t2_knob_settings(thorough: bool, tiers) -> List[Tuple[dict, int]]:
    """-> [(knobs, clusters_top_m)] for one tier list.  A knob is varied only where a listed tier reads it
    (exact_recent_days: exact_semantic, clusters_top_m: cluster_semantic, sim_threshold: every tier).
    quick: exactly one knob off its base value; thorough: every pair (window x threshold, top-m x threshold)."""
    tier = "thorough" if thorough else "quick"
    has_exact, has_cluster = "exact_semantic" in tiers, "cluster_semantic" in tiers
    out: List[Tuple[dict, int]] = []
    if not thorough:
        if has_exact:
            out += [({"exact_recent_days": rd}, 1) for rd in KNOB_RECENT[tier]]
        out += [({"sim_threshold": st}, 1) for st in KNOB_SIM[tier]]
        if has_cluster:
            out += [({}, m) for m in KNOB_TOP_M[tier]]
        return out
    for st in KNOB_SIM[tier]:
        for rd in (KNOB_RECENT[tier] if has_exact else [None]):
            kn: Dict[str, Any] = {"sim_threshold": st}
            if rd is not None:
                kn["exact_recent_days"] = rd
            out.append((kn, 1))
        if has_cluster:
            out += [({"sim_threshold": st}, m) for m in KNOB_TOP_M[tier] if m != 1]
    return out


def t2_knob_units(thorough: bool):
    """Retrieval-parameter leg: 'all configurations' includes every valid value of the parameters the fan-out forwards to
    its per-shard tasks -- in particular the values with a meaning of their own (0 = no recency window, threshold 0,
    top-m 0), the validator's bounds and an absent key, where a second copy of the hint-building code can drift from the
    sequential one without any effect at the defaults."""
    pool = ["a", "c", "e"] + (["b"] if thorough else [])
    tn = "thorough" if thorough else "quick"
    units = []
    # (a, c, n): n has a negative cosine to the first query -- only the threshold is varied on these contents
    for mem in list(itertools.permutations(pool, 3)) + list(itertools.permutations(["a", "c", "n"], 3)):
        for tiers in KNOB_TIERS:
            settings = t2_knob_settings(thorough, tiers) if "n" not in mem else [({"sim_threshold": st}, 1) for st in KNOB_SIM[tn]]
            for knobs, m in settings:
                for k in (2, 64):
                    for w in (2, 3):
                        for text in KNOB_TEXTS:
                            u = {"kind": "t2", "mem": list(mem), "tiers": tiers, "k": k, "m": m, "w": w, "text": text, "leg": "knobs"}
                            if knobs:
                                u["knobs"] = dict(knobs)
                            units.append(u)
    return units


def t2_history_units(thorough: bool):
    """Index-history leg: 'all memory contents' includes contents REACHED by the index's public mutators on an object
    that has already served the fan-out.  One index object: add P1, answer a query, then either clear() and add P2
    (every ordered selection, so also |P2| == |P1|: the version counter returns to an earlier value) or keep growing
    by P2; then the judged query.  Whatever the fan-out derives from the index (shard views, cluster choices, ...) has
    to follow the contents, as the sequential path does."""
    base = ["a", "c", "e"] + (["b"] if thorough else [])
    grow_pool = ["a", "c", "e", "b"]

    def sel(pool, sizes):
        return [list(p) for r in sizes for p in itertools.permutations(pool, r)]

    hists: List[Tuple[List[str], List[str]]] = []
    for p1 in sel(base, (2, 3)):
        for p2 in sel(base, (2, 3)):
            hists.append((p1, ["C"] + ["+" + e for e in p2]))
        for p2 in sel([e for e in grow_pool if e not in p1], (1, 2)):
            if len(p1) + len(p2) <= 4:
                hists.append((p1, ["+" + e for e in p2]))
    tier_lists = [["exact_semantic"], ["cluster_semantic"], ["exact_semantic", "cluster_semantic", "archive"]]
    if thorough:
        tier_lists.append(["archive"])
    units = []
    for mem, ops in hists:
        small = "b" not in mem and "+b" not in ops  # history over the 3-episode alphabet
        n_final = len(_t2_contents({"mem": mem, "hist": ops}))
        # the swapped pair of query texts only over the 3-episode alphabet (thorough)
        text_pairs = [("pear cider", T2_TEXT)] + ([(T2_TEXT, "pear cider")] if thorough and small else [])
        # with c episodes the shard partition for w > c equals the one for w = c: a 4th worker only matters for 4 episodes
        ws = (2, 3) + ((4,) if thorough and n_final >= 4 else ())
        for tiers in tier_lists:
            for k in (1, 64):
                for w in ws:
                    for pre_text, text in text_pairs:
                        units.append({"kind": "t2", "mem": mem, "tiers": tiers, "k": k, "m": 1, "w": w, "text": text,
                                      "hist": ["?" + pre_text] + ops})
    if thorough:
        # clear() on an index that has not answered a query yet (ops only), and two clear-and-refill cycles
        for mem, ops in hists:
            if ops[0] != "C" or "b" in mem or "+b" in ops:
                continue
            for tiers in tier_lists[:3]:
                for w in (2, 3):
                    units.append({"kind": "t2", "mem": mem, "tiers": tiers, "k": 64, "m": 1, "w": w, "text": T2_TEXT, "hist": list(ops)})
        pairs = sel(["a", "c", "e"], (2,))
        for p1 in pairs:
            for p2 in pairs:
                for p3 in pairs:
                    for tiers in tier_lists[:3]:
                        for w in (2, 3):
                            units.append({"kind": "t2", "mem": p1, "tiers": tiers, "k": 64, "m": 1, "w": w, "text": T2_TEXT,
                                          "hist": ["?pear cider", "C"] + ["+" + e for e in p2] + ["?fig tart", "C"] + ["+" + e for e in p3]})
    return units


# =========================================================================================== entry points
# =========================================================================================== schedule leg (E3b)
# Completion orders treat a task body as one step.  This leg lets the bodies of the real T1 / T2 fan-out interleave: the
# stage's own ThreadPoolExecutor is replaced by baton-scheduled workers (mc.sched_pool; scheduling point = every line
# event of the stage files) and every schedule with at most one preemption is executed; each result must equal the
# sequential path's (same comparison as the completion-order legs: cache diagnostics excluded).
def sched_units(thorough: bool):
    units = []
    pairs = [["g1", "g2"], ["g2", "g3"], ["g3", "g1"]] if thorough else [["g1", "g2"], ["g3", "g1"]]
    for graphs in pairs:
        for text in (("apple", "pear fig") if thorough else ("apple pear fig plum quince",)):
            for warm in ((False, True) if thorough else (False,)):
                units.append({"kind": "t1-sched", "graphs": graphs, "text": text, "over": "default", "w": 2, "cap": 512,
                              "warm": warm, "warm_text": text})
    for tiers in ([["exact_semantic"], ["cluster_semantic"], ["archive"]] if thorough else [["exact_semantic"], ["cluster_semantic"]]):
        units.append({"kind": "t2-sched", "mem": list(T2_BASE_EPISODES[:4]), "tiers": tiers, "k": 2, "m": 1, "w": 2, "text": T2_TEXT})
    return units


def _sched_files(kind):
    if kind == "t1-sched":
        return [t1_mod.__file__]
    import clematis.engine.stages.t2.parallel as _t2par
    import clematis.memory.index as _idx
    return [_t2par.__file__, _idx.__file__]


def _sched_call(case):
    """zero-argument function: fresh world, process-global caches reset, the parallel stage call; ('ok', result) | ('exc', e)"""
    if case["kind"] == "t1-sched":
        cfg_par = _t1_cfg(case["over"], case["cap"], case["w"], True)
        cfg_seq = _t1_cfg(case["over"], case["cap"], case["w"], False)

        def prepare():
            W.reset_globals()
            state = W.make_world("W2")
            state["active_graphs"] = list(case["graphs"])
            if case["warm"]:
                t1_mod.t1_propagate(W.make_ctx(cfg_seq, "A", 1), state, case["warm_text"])
            return state

        def call(state):
            try:
                return ("ok", t1_mod.t1_propagate(W.make_ctx(cfg_par, "A", 2), state, case["text"]))
            except HarnessError:
                raise
            except Exception as e:  # noqa: BLE001
                return ("exc", e)
        return prepare, call
    cfg = _t2_cfg(case["tiers"], case["k"], case["m"], case["w"], True)
    t1 = types.SimpleNamespace(graph_deltas=[], metrics={})

    def prepare():
        W.reset_globals()
        return _t2_state(case["mem"])

    def call(state):
        try:
            return ("ok", t2_core.t2_semantic(W.make_ctx(cfg, "A", 1), state, case["text"], t1))
        except HarnessError:
            raise
        except Exception as e:  # noqa: BLE001
            return ("exc", e)
    return prepare, call


def _sched_compare(case, seq, par, choices):
    if case["kind"] == "t1-sched":
        c = dict(case, kind="t1")
        found = _t1_compare(c, seq, par)
        return [(sig.replace("t1-parallel:", "t1-schedule:"), what) for sig, what in found]
    gate = types.SimpleNamespace(calls=[{"n": 2, "w": case["w"], "merge_fn_none": False, "order_key_none": False}], ctl=None)
    return [("t2-schedule:" + k, "%s: %s" % (_t2_tag(dict(case, kind="t2")), d)) for k, d in _t2_diff(seq, par, gate)]


def _sched_one(case, prefix, strict=True):
    from mc import sched_pool
    pe = sched_pool.PoolExplorer(par_mod, _sched_files(case["kind"]), 1)
    prepare, call = _sched_call(case)
    state = prepare()
    return pe.run_one(lambda: call(state), prefix, strict=strict)


def _sched_seq(case):
    if case["kind"] == "t1-sched":
        return _t1_exec(dict(case, kind="t1"), None)[0]
    return _t2_exec(dict(case, kind="t2"), None)[0]


def sched_roots(units, st):
    from mc import sched
    items = []
    for case in units:
        ex, par = _sched_one(case, [])
        if ex is None:
            raise HarnessError("schedule leg: %r did not fan out" % (case,))
        ex2, par2 = _sched_one(case, [])
        if ex2 is None or ex2.trace != ex.trace:
            raise HarnessError("schedule leg: the default schedule of %r is not reproducible" % (case,))
        for child in sched.children(ex.trace, 0, 1):
            items.append((case, child))
        items.append((case, []))
    return items


def _sched_worker(chunk, st: Stats):
    from mc import sched
    import logging
    logging.disable(logging.CRITICAL)
    seqs: Dict[str, Any] = {}
    for case, root in chunk:
        key = W.jd(case)
        if key not in seqs:
            seqs[key] = _sched_seq(case)
        seq = seqs[key]
        stack = [root]
        first = True
        while stack:
            prefix = stack.pop()
            ex, par = _sched_one(case, prefix)
            if ex is None:
                raise HarnessError("schedule leg: %r did not fan out under a replayed prefix" % (case,))
            st.add("transitions")
            st.add("validated")
            st.add("schedule_executions")
            if ex.preemptions() > 0:
                st.add("nontrivial")
            st.distinct("states", ("sched", key, tuple(ex.choices())))
            if par is None or ex.deadlock:
                _viol(st, "%s:deadlock" % case["kind"], "%r deadlocks under schedule %r" % (case, ex.choices()), dict(case, choices=ex.choices()))
            else:
                st.distinct("outcomes", ("sched", case["kind"], par[0], type(par[1]).__name__ if par[0] == "exc" else len(getattr(par[1], "graph_deltas", getattr(par[1], "retrieved", [])))))
                for sig, what in _sched_compare(case, seq, par, ex.choices()):
                    _viol(st, sig, what + " [worker schedule %r, %d preemption(s)]" % (ex.choices(), ex.preemptions()), dict(case, choices=ex.choices()))
            if not (first and not root):
                stack.extend(sched.children(ex.trace, len(prefix), 1))
            first = False


def run(run: Run) -> None:
    import logging
    logging.disable(logging.CRITICAL)
    with po.observe_pool(par_mod):
        probe = po.probe_pool_model(par_mod.run_parallel, n=3, w=2)
    run.notes["pool_model_probe"] = probe
    if not probe.get("model_holds"):
        raise HarnessError("the real pool does not follow the FIFO model used to enumerate feasible orders: %r" % (probe,))
    # determinism of the engine itself: first execution replayed twice
    a = _helper_exec(4, "dup2", 3, {1}, (2, 0, 1, 3))
    b = _helper_exec(4, "dup2", 3, {1}, (2, 0, 1, 3))
    if a != b or a["returned"] != [2, 0, 1, 3]:
        raise HarnessError("harness nondeterministic: %r vs %r" % (a, b))

    run.violation = types.MethodType(_viol, run)  # parent-side merge uses the same deterministic rule
    hu = helper_units(run.thorough, run.seed)
    tu = t1_units(run.thorough, run.seed)
    t2u = t2_units(run.thorough, run.seed)
    run.notes["helper_groups"] = len(hu)
    run.notes["t1_groups"] = len(tu)
    run.notes["t2_groups"] = len(t2u)
    run.notes["t2_history_groups"] = sum(1 for u in t2u if u.get("hist"))
    run.notes["t2_parameter_groups"] = sum(1 for u in t2u if u.get("leg") == "knobs")
    _tn = "thorough" if run.thorough else "quick"
    run.notes["t2_parameter_alphabet"] = {"exact_recent_days": KNOB_RECENT[_tn], "sim_threshold": KNOB_SIM[_tn],
                                          "clusters_top_m": KNOB_TOP_M[_tn], "queries": KNOB_TEXTS,
                                          "combination": "every pair" if run.thorough else "one parameter off its base value"}
    run.notes["helper_orders_by_n_w"] = {"n=%d" % n: [po.count_orders(n, w) for w in range(9)] for n in range(0, (5 if run.thorough else 4) + 1)}
    import time as _time
    t0 = _time.time()
    run.pmap(_helper_worker, hu, chunks=256)
    t1 = _time.time()
    run.pmap(_t1_worker, tu, chunks=256)
    t2 = _time.time()
    run.pmap(_t2_worker, t2u, chunks=512)
    t3 = _time.time()
    su = sched_units(run.thorough)
    items = sched_roots(su, run)
    run.notes["schedule_units"] = len(su)
    run.notes["schedule_subtrees"] = len(items)
    run.pmap(_sched_worker, items, procs=16)
    run.notes["wall_s_by_part"] = {"helper": round(t1 - t0, 1), "t1": round(t2 - t1, 1), "t2": round(t3 - t2, 1), "schedules": round(_time.time() - t3, 1)}
    # concrete samples chosen by position in the enumeration (deterministic, independent of worker scheduling)
    run.samples = []
    for units, part in ((hu, "helper"), (tu, "t1"), (t2u, "t2")):
        for pos in (len(units) // 3, len(units) - 1):
            u = units[pos]
            if part == "helper":
                n, shape, w, fails = u
                run.samples.append({"kind": "helper", "n": n, "shape": shape, "keys": repr(_shape(shape, n)[0]), "w": w,
                                    "fails": list(fails), "feasible_orders": po.count_orders(n, w)})
            else:
                run.samples.append(dict(u))
    run.rule = ("every feasible completion order (DFS over 'which running task finishes next' in a FIFO pool of min(w,n) threads, "
                "enforced on the real ThreadPoolExecutor by gated thunks) x (helper) n<=%d tasks, max_workers 0..8, every failing subset, "
                "%d key shapes; (T1) %d groups = graph lists x texts x cap settings x workers 2..4 x LRU capacity {1,512} x fresh/pre-warmed, + wide fan-outs of N distinct active graphs g1..gN (quick N in 5,11,12, ascending / descending listing, workers 2,4,8; thorough N in 4,5,9,10,11,12,13,21,23, also interleaved listing, workers 2,3,4,8,16) where task indices and graph ids reach two decimal digits -- for more than 5 tasks NOT every completion order but the three extreme feasible ones (of the running tasks always the lowest / always the highest / alternately highest and lowest finishes next); "
                "(T2) %d groups = ordered episode selections (<=%d of %d) x tier lists x k {1,2,64} x clusters_top_m {1,3} x workers 2..4 "
                "(+ owner_scope=agent leg, owner x cluster leg, two-queries leg) + index-history leg (%d groups): ONE index object "
                "= add P1, query, then clear()+add P2 (every ordered selection of 2-3 of %d episodes for P1 and P2, so also equal sizes) "
                "or keep adding P2, then the judged query%s; + retrieval-parameter leg (%d groups): every ordered selection of 3 of "
                "%d episodes (ages 1 / 3 / 40 days / no timestamp) x tiers {exact, cluster, archive, all three} x k {2,64} x workers "
                "{2,3} x 2 queries (+ 6 selections with an episode whose cosine to the query is negative: threshold varied only) "
                "x t2.exact_recent_days %r x t2.sim_threshold %r x t2.clusters_top_m %r (base 30 / 0.3 / 1; %s; a "
                "parameter is varied only where a listed tier reads it); non-trivial = execution with >=2 pool threads whose completion order is not "
                "the submit order (helper: or with a failing task)" % (
                    5 if run.thorough else 4, len(SHAPES_THOROUGH if run.thorough else SHAPES_QUICK),
                    len(tu), len(t2u), 5 if run.thorough else 4, 5 if run.thorough else 4,
                    len(t2_history_units(run.thorough)), 4 if run.thorough else 3,
                    " (+ clear() before any query, + two clear-and-refill cycles)" if run.thorough else "",
                    run.notes["t2_parameter_groups"], 4 if run.thorough else 3, KNOB_RECENT[_tn], KNOB_SIM[_tn], KNOB_TOP_M[_tn],
                    "every pair window x threshold and top-m x threshold" if run.thorough else "one parameter off its base value at a time"))
    run.assume("completion order = order in which the task bodies run to completion and their futures become done; in those legs the bodies "
               "execute one at a time.  Interleavings INSIDE two task bodies are the schedule leg: the stage's pool is replaced by "
               "baton-scheduled workers, scheduling points = line events of t1.py resp. t2/parallel.py + memory/index.py (cache and store "
               "methods in other files are atomic steps; their lock points are C15's), two workers, every schedule with <= 1 preemption")
    run.assume("a ThreadPoolExecutor of w threads starts work items in submit order (checked by a probe on the real pool at start-up); "
               "tasks the model expects to be running are awaited, a missing one is a harness error, never a verdict -- except a "
               "task whose Future the implementation cancelled while it was still queued: that is observed through the future's "
               "done-callback (no timing involved), the task leaves the model's queue and the oracle judges the outcome "
               "(task not executed / failure not reported)")
    run.assume("index-history leg: the earlier queries of a history run on the free-running pool (only the judged query is gated); "
               "the sequential twin replays the same history on its own index object under the sequential configuration; histories "
               "use the index's public mutators add() and clear() only; earlier and judged query texts differ, so the stage-level "
               "result cache (keyed by query text and index version) cannot answer the judged query")
    run.assume("retrieval-parameter leg: the values are valid configurations (configs/validate.py: exact_recent_days in [0, 36500], "
               "sim_threshold in [-1, 1], clusters_top_m >= 0; 'absent' = the key is missing from the t2 section and the stage default "
               "applies); every query runs on the logical clock ctx.now = 2025-06-01, so the windows cut between fixed episode ages; the "
               "parameters outside this leg (all other legs) are exact_recent_days 30, sim_threshold 0.3, clusters_top_m {1,3}")
    run.assume("'real pools under switch-interval jitter' and 'sampled beyond 5 tasks' of the quantifier text are not done (sampling)")
    run.assume("not compared: cache diagnostics (cache_hits, cache_misses, cache_used, cache eviction counters; and, whenever a cache "
               "hit is possible -- pre-warmed cache or a graph listed twice --, the values a hit reports as 0: max_delta, "
               "t1_frontier_evicted, t1_dedup_hits, t1_visited_evicted) and the diagnostics that describe the parallel configuration "
               "itself (task_count, parallel_workers)")


def replay(case):
    import logging
    logging.disable(logging.CRITICAL)
    kind = case.get("kind")
    if kind == "helper":
        n, shape, w, fails = case["n"], case["shape"], case["w"], set(case["fails"])
        order = tuple(case["order"])
        obs = _helper_exec(n, shape, w, fails, order)
        out = _helper_check(n, shape, w, fails, order, obs)
        if case.get("ref_order") is not None:
            obs0 = _helper_exec(n, shape, w, fails, tuple(case["ref_order"]))
            v0 = (obs0["kind"], obs0.get("value"), obs0.get("errors"), obs0.get("exc_str"))
            v1 = (obs["kind"], obs.get("value"), obs.get("errors"), obs.get("exc_str"))
            if v0 != v1:
                _k, _o, cls = _shape(shape, n)
                what = "errors" if obs["kind"] != "ok" else "result"
                out.append(("helper:pool:%s-depends-on-completion-order:%s" % (what, cls),
                            "order %r gives %r, order %r gives %r" % (case["ref_order"], v0, list(order), v1)))
        return out
    if kind == "t1":
        c = {k: v for k, v in case.items() if k != "order"}
        seq, _ = _t1_exec(c, None)
        par, _g = _t1_exec(c, "census" if case.get("order") is None else tuple(case["order"]))
        return _t1_compare(c, seq, par)
    if kind == "t2":
        c = {k: v for k, v in case.items() if k != "order"}
        seq, _ = _t2_exec(c, None)
        par, g = _t2_exec(c, "census" if case.get("order") is None else tuple(case["order"]))
        return [("t2-parallel:" + k, "%s: %s" % (_t2_tag(c), d)) for k, d in _t2_diff(seq, par, g)]
    if kind in ("t1-sched", "t2-sched"):
        c = {k: v for k, v in case.items() if k != "choices"}
        seq = _sched_seq(c)
        ex, par = _sched_one(c, [(int(x), None) for x in case.get("choices", [])], strict=False)
        if par is None:
            return [("%s:deadlock" % kind, "deadlock")]
        return _sched_compare(c, seq, par, case.get("choices", []))
    raise HarnessError("unknown case kind %r" % (kind,))
