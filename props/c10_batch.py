"""C10 — the agent batch driver commits exactly like a sequential loop.

Engine E2.  Three parts:
 (sel)  `_select_independent_batch` on EVERY assignment of graph sets (subsets of {G1,G2,G3}) to 1..n agents x every
        worker limit 1..6: picked agents pairwise disjoint, <= limit, first agent always picked, picked is a
        subsequence of the task order.
 (a)    the real driver `_run_agents_parallel_batch` with a compute phase that follows the documented dry-run contract
        (a stand-in for Orchestrator.run_turn: in dry-run mode it emits its stage records and stashes the
        `_dryrun_*` artefacts; in full mode it emits the same records, applies through the real apply_changes and writes
        the apply record) for every overlap pattern x worker limit x per-turn log payload shape x staging byte limit class
        (1, every prefix sum of the measured size estimates -1/+0/+1, 32 MiB), compared with the driver's own
        disabled-path loop over the picked tasks on an equal fresh state: returned lines, store content, version,
        every log file byte for byte, snapshot directory listing.
 (b)    the real stage pipeline under the driver on a real world: must not raise, lines equal the sequential loop.

Further dimensions of (a):
 * the batch context: turn id 6 / 1 / 0 (the first turn of a run - a falsy id) and the id's FORM (int, numeric string, non-numeric
   string - TurnCtx.turn_id is declared str and the scenario runner uses "demo-1"), slice index 0 / 2, optional context fields
   (now_ms, slice_idx, seed) present, falsy or absent; the compute stand-in echoes every context field it can see into its
   result line and stamps the turn id into every record;
 * the state container: a plain dict (reads go through the live dict's bound `get`) or an attribute-style object (the layout
   the read-only snapshot facade is written for: every mapping attribute reaches the compute phase through the snapshot
   view); the state carries a static registry (one entry per graph, nested mappings/lists, int keys, falsy values) whose
   insertion order runs over the permutations of the graph ids; the compute stand-in OBSERVES what it reads (keys in
   iteration order, lengths, nested values -> one log record), takes the first owned graph in registry order as its focus
   (result line) and proposes one delta per owned graph in registry order.  The sequential loop
   reads the live state, the batch reads the snapshot view: both must observe the same thing.
 * the POSITION of the selected agents in the task list: batches of 4..6 single-graph agents under every overlap pattern (every
   partition of the agents into same-graph classes plus a "no graph" class, i.e. every assignment up to renaming of graphs) x
   worker limits 2..6, so a selected agent can sit at any index - before, at or beyond the worker limit, after one or several
   skipped agents.  On EVERY case of (a) the agents the driver really computes are compared with the independent statement of
   the selection contract (greedy in task order, skip on overlap, stop at the limit): a selected agent that is not computed
   (and so neither committed nor returned) is a violation even though the remaining turns match the sequential loop.
 * the sequential BASELINE itself: besides the driver's disabled-path loop (which shares the per-agent context clone with the batch
   path), a plain loop written in the harness - run_turn(caller's context with every field as given, agent id set, live state) - so a
   slip in code common to both driver paths (fields dropped or altered by the clone) does not cancel out of the comparison.
"""
from __future__ import annotations

import itertools
import json
import os
import shutil
import types
from collections.abc import Mapping, Sequence

from mc.runner import Run, Stats, HarnessError
from mc import world as W

import clematis.engine.orchestrator as orch
from clematis.engine.orchestrator import core as orch_core
from clematis.engine.orchestrator import parallel as par_mod
from clematis.engine.util import io_logging as iol
from clematis.engine.types import ProposedDelta
from clematis.io.log import append_jsonl

for _n in ("_run_agents_parallel_batch", "_select_independent_batch", "enable_staging"):
    if not hasattr(orch, _n):
        raise HarnessError("seam missing: orchestrator.%s" % _n)

GRAPHS = ["G1", "G2", "G3"]
SUBSETS = [list(c) for r in range(0, 4) for c in itertools.combinations(GRAPHS, r)]
AGENTS = ["A", "B", "C", "D", "E", "F"]

# per-turn log payload shapes: list of (stream, size class) emitted by the compute phase of every agent
SHAPES = {
    "min": [("t1.jsonl", "tiny")],
    "std": [("t1.jsonl", "tiny"), ("t2.jsonl", "tiny"), ("t4.jsonl", "tiny")],
    "none": [],
    "multi": [("t1.jsonl", "tiny"), ("t1.jsonl", "mid"), ("custom.jsonl", "tiny"), ("t4.jsonl", "mid"), ("t1.jsonl", "tiny")],
    "big": [("t2.jsonl", "big"), ("t1.jsonl", "tiny")],
    "rev": [("t4.jsonl", "mid"), ("t2.jsonl", "tiny"), ("t1.jsonl", "tiny"), ("zzz.jsonl", "mid")],
}
# "reuse": the compute phase logs ONE dict object three times, mutating it in between (a progress record), on streams that
# CI normalisation returns unchanged: the sequential loop serialises at call time, so the capture must snapshot too
SHAPES["reuse"] = [("gel.jsonl", "reuse"), ("gel.jsonl", "reuse"), ("custom.jsonl", "reuse"), ("t1.jsonl", "tiny")]
SIZES = {"tiny": 1, "mid": 200, "big": 70 * 1024}
# "walk": the record carries the stand-in's observation of the state it reads (see observe())
SHAPES["walk"] = [("t1.jsonl", "walk"), ("t2.jsonl", "tiny"), ("custom.jsonl", "walk")]

# batch context variants: the fields a caller's ctx may carry (the driver clones cfg, config, now, now_ms, seed, slice_idx,
# slice_budgets when present).  Turn 0 is the first turn of a run (apply: "Define turn 0 as a snapshot turn").
CTXS = {
    "t6": {"turn_id": 6, "slice_idx": 0, "now_ms": W.NOW_MS},      # the default of every case without a "ctx" key
    "t0": {"turn_id": 0, "slice_idx": 0, "now_ms": W.NOW_MS},
    "t1s2": {"turn_id": 1, "slice_idx": 2, "now_ms": 0, "seed": 0},
    "bare0": {"turn_id": 0},                                          # optional fields absent rather than zero
    "bare6": {"turn_id": 6, "seed": 11},
}
# the FORM of the turn id.  The declared type of TurnCtx.turn_id is str (world/scenario.py runs turn "demo-1", the orchestrator's
# own demo runs turn "1"); run_turn only echoes the id into its records, Apply documents int(id) with a fallback to turn 0, and
# the batch driver documents a string fallback for ids that are not numbers.  So the id of a batch may be an int, a numeric
# string or a non-numeric string, and the sequential loop handles all of them.
CTXS.update({
    "sid": {"turn_id": "demo-1", "slice_idx": 0, "now_ms": W.NOW_MS},      # non-numeric: a snapshot turn under every cadence
    "s13": {"turn_id": "13", "slice_idx": 0, "now_ms": W.NOW_MS},          # numeric string; not a snapshot turn at cadence 4
    "s0": {"turn_id": "0"},                                                # numeric string, int value falsy, the string truthy
    "spad": {"turn_id": "t-0007", "slice_idx": 2, "now_ms": 0, "seed": 0},  # digits inside a non-numeric id
})
CTX_INT = ("t0", "t1s2", "bare0", "bare6")
CTX_STR = ("sid", "s13", "s0", "spad")
CTX_ECHO = ("turn_id", "slice_idx", "now_ms", "seed")

# insertion orders of the static registry (index into the permutations of GRAPHS; 0 = sorted = control)
REG_ORDERS = [list(p) for p in itertools.permutations(GRAPHS)]


def registry(order_idx):
    """graph registry in the given insertion order; inner layout deliberately NOT in sorted key order, with int keys
    (str-order != int-order != insertion order), falsy values and empty containers"""
    reg = {}
    for pos, g in enumerate(REG_ORDERS[order_idx]):
        reg[g] = {"tags": ["b-" + g, "a-" + g], "label": "graph " + g, "zero": 0, "w": {2: "x", 10: "y", 1: "z"},
                  "none": None, "empty": {}, "el": [], "pos": pos, "flag": False, "nest": {"z": [1, {"k": ()}], "a": ""}}
    return reg


def observe(x):
    """What a reader can see of a value without relying on its concrete container type: mappings by iteration order, length
    and item lookup; sequences by length and items; scalars by repr.  JSON-able."""
    if x is None or isinstance(x, (bool, int, float, str, bytes)):
        return repr(x)
    if isinstance(x, Mapping):
        return ["map", len(x), [[repr(k), observe(x[k])] for k in x]]
    if isinstance(x, (set, frozenset)):
        return ["set", sorted(repr(v) for v in x)]
    if isinstance(x, Sequence):
        return ["seq", len(x), [observe(v) for v in x]]
    return "obj:" + type(x).__name__


def sget(state, key, default=None):
    """read one top-level entry of a dict-style or attribute-style state (live or snapshot view)"""
    g = getattr(state, "get", None)
    if callable(g):
        return g(key, default)
    return getattr(state, key, default)


class AttrState:
    """attribute-style engine state (state.store, state.agents, ...)"""

    def __init__(self, d):
        self.__dict__.update(d)


class WStore:
    """Weight-map store: all-or-nothing batch, exact dyadic sums."""

    def __init__(self):
        self.w = {}
        self.calls = 0

    def apply_deltas(self, gid, deltas):
        self.calls += 1
        for d in deltas:
            k = (d.target_kind, d.target_id, d.attr)
            self.w[k] = self.w.get(k, 0.0) + float(d.delta)
        return {"edits": len(list(deltas)), "clamps": 0}


def graph_maps(graph_sets, shape="gba"):
    """the three documented ways a state names an agent's graphs: graphs_by_agent, agents[a].graphs, or both maps present
    with some agents listed in only one of them"""
    if shape == "gba":
        return {"graphs_by_agent": {a: list(g) for a, g in graph_sets.items()}}
    if shape == "agents":
        return {"agents": {a: {"graphs": list(g)} for a, g in graph_sets.items()}}
    if shape == "mixed":
        names = list(graph_sets)
        return {"agents": {a: {"graphs": list(graph_sets[a])} for a in names[:1]},
                "graphs_by_agent": {a: list(graph_sets[a]) for a in names[1:]}}
    raise HarnessError("unknown state shape %r" % (shape,))


def fresh_state(graph_sets, shape="gba", container="dict", reg_order=None):
    st = {"store": WStore(), "version_etag": "3", "_boot_loaded": True}
    st.update(graph_maps(graph_sets, shape))
    if reg_order is not None:
        st["graph_meta"] = registry(reg_order)
    if container == "dict":
        return st
    if container == "attr":
        return AttrState(st)
    raise HarnessError("unknown state container %r" % (container,))


def make_standin(shape, computed, graph_sets=None, no_t4_agents=()):
    """A run_turn that follows the dry-run contract; deterministic in (agent, text, the context fields it is handed, the static
    registry / agent maps it reads from the state, state-of-own-target)."""
    graph_sets = graph_sets or {}

    def _run_turn(self, ctx, state, text):
        agent = str(getattr(ctx, "agent_id", "?"))
        turn = getattr(ctx, "turn_id", 0)
        dry = bool(getattr(ctx, "_dry_run_until_t4", False))
        computed.append((agent, dry))
        store = sget(state, "store")
        own = ("node", "own-" + agent, "weight")
        cur = store.w.get(own, 0.0) if store is not None else 0.0
        deltas = [ProposedDelta("node", "own-" + agent, "weight", 0.25 if cur == 0.0 else 0.5, op_idx=None, idx=0),
                  ProposedDelta("node", "shared", "weight", 0.125, op_idx=None, idx=1)]
        # --- what the compute phase reads from the state (static over the batch: registry and agent maps)
        reg = sget(state, "graph_meta")
        seen = None
        focus = ""
        if reg is not None:
            mine = set(graph_sets.get(agent, []))
            order = [g for g in reg if g in mine]            # registry iteration order
            focus = "|focus=%s" % (order[0] if order else "-")
            for j, g in enumerate(order):
                deltas.append(ProposedDelta("node", "reg-%s" % g, "weight", 0.0625, op_idx=None, idx=2 + j))
            seen = observe({"graph_meta": reg, "agents": sget(state, "agents"), "graphs_by_agent": sget(state, "graphs_by_agent")})
        progress = {"turn": turn, "agent": agent, "step": 0, "note": "reused"}
        for i, (stream, size) in enumerate(shape):
            if size == "reuse":
                progress["step"] = i
                append_jsonl(stream, progress)
                progress["note"] = "after-%d" % i
                continue
            if size == "walk":
                append_jsonl(stream, {"turn": turn, "agent": agent, "i": i, "text": text, "seen": seen, "ms": 5.0})
                continue
            append_jsonl(stream, {"turn": turn, "agent": agent, "i": i, "text": text, "pad": "p" * SIZES[size], "ms": 5.0})
        echo = ",".join("%s=%r" % (k, getattr(ctx, k, "<absent>")) for k in CTX_ECHO)
        utter = "u:%s:%s@%s%s" % (agent, text, echo, focus)
        # run_turn's contract has turns WITHOUT a T4 outcome: the kill switch (t4.enabled false: neither the meta-filter nor
        # Apply runs, dry-run or not) and a turn that yields at a stage boundary before T4.  Such a turn leaves no
        # _dryrun_t4 behind and, run sequentially, applies nothing and writes no apply record.
        cfg_t4 = (getattr(ctx, "cfg", None) or getattr(ctx, "config", None) or {}).get("t4", {}) or {}
        if (not bool(cfg_t4.get("enabled", True))) or agent in no_t4_agents:
            append_jsonl("turn.jsonl", {"turn": turn, "agent": agent, "no_t4": True, "ms": 5.0})
            return types.SimpleNamespace(line=utter, events=[])
        t4 = types.SimpleNamespace(approved_deltas=deltas, rejected_ops=[], reasons=[], metrics={"counts": {"approved": len(deltas)}})
        if dry:
            ctx._dryrun_t4 = t4
            ctx._dryrun_utter = utter
            ctx._dryrun_t1 = {"pops": 1, "iters": 1, "graphs_touched": 0}
            ctx._dryrun_t2 = {"k_returned": 0, "k_used": 0, "cache_hit": False}
            ctx._dryrun_plan_reflection = False
            return types.SimpleNamespace(line=utter, events=[])
        ap = orch_core.apply_changes(ctx, state, t4)
        append_jsonl("apply.jsonl", {
            "turn": turn, "agent": agent, "applied": ap.applied, "clamps": ap.clamps, "version_etag": ap.version_etag,
            "snapshot": ap.snapshot_path,
            "cache_invalidations": int((getattr(ap, "metrics", {}) or {}).get("cache_invalidations", 0)), "ms": 0.0})
        return types.SimpleNamespace(line=utter, events=[])

    return _run_turn


def _cfg(par_on, workers, snap_dir, cadence, kill=False):
    over = {"perf": {"parallel": {"enabled": bool(par_on), "agents": bool(par_on), "max_workers": int(workers)}},
            "t4": {"snapshot_every_n_turns": cadence}}
    if kill:
        over["t4"]["enabled"] = False
    return W.make_cfg(over, snap_dir=snap_dir)


def drive(case, scratch, par_on, tasks=None, limit=None, measure=None, plain=False):
    """Runs the real driver once (plain=True: the harness's own loop `for task: run_turn(caller's full context specialised to the
    agent, live state, text)` - no driver code at all).  Returns dict(lines, logs, snaps, w, version, computed, error)."""
    W.reset_globals()
    ex = W.Exec(scratch, "c10")
    ex.activate()
    computed = []
    old_rt = orch_core.Orchestrator.run_turn
    had_es = "enable_staging" in vars(orch)
    old_es = vars(orch).get("enable_staging")
    old_stage = iol.LogStager.stage
    out = {"error": None}
    try:
        orch_core.Orchestrator.run_turn = make_standin(SHAPES[case["shape"]], computed, case["graphs"], tuple(case.get("no_t4", ())))
        real_enable = iol.enable_staging
        if limit is not None:
            orch.enable_staging = lambda: real_enable(byte_limit=limit)
        else:
            orch.enable_staging = real_enable
        if measure is not None:
            def _stage(self, file_path, key, payload):
                b0 = self._bytes
                old_stage(self, file_path, key, payload)
                measure.append(self._bytes - b0)
            iol.LogStager.stage = _stage
        cfg = _cfg(par_on, case["workers"], ex.snap_dir, case.get("cadence", 1), bool(case.get("kill", False)))
        if case.get("ctx", "t6") not in CTXS:
            raise HarnessError("unknown ctx variant %r" % (case.get("ctx"),))
        ctx = types.SimpleNamespace(cfg=cfg, config=cfg, agent_id="batch", **CTXS[case.get("ctx", "t6")])
        state = fresh_state(case["graphs"], case.get("state_shape", "gba"), case.get("container", "dict"), case.get("registry"))
        tl = tasks if tasks is not None else [(a, "t-" + a) for a in case["agents"]]
        try:
            if plain:
                res = []
                for a_, text_ in tl:
                    sub = types.SimpleNamespace(**vars(ctx))      # EVERY field the caller's context carries, value untouched
                    sub.agent_id = str(a_)
                    res.append(orch_core.Orchestrator().run_turn(sub, state, text_))
            else:
                res = orch._run_agents_parallel_batch(ctx, state, list(tl))
            out["lines"] = [r.line for r in res]
        except Exception as e:  # noqa
            out["error"] = "%s: %s" % (type(e).__name__, e)
            out["lines"] = None
        out["logs"] = ex.logs()
        out["snaps"] = sorted(ex.snaps())
        out["w"] = sorted((list(k), v) for k, v in sget(state, "store").w.items())
        out["version"] = sget(state, "version_etag")
        out["computed"] = list(computed)
        return out
    finally:
        orch_core.Orchestrator.run_turn = old_rt
        iol.LogStager.stage = old_stage
        if had_es:
            orch.enable_staging = old_es
        else:
            try:
                delattr(orch, "enable_staging")
            except Exception:
                pass
        try:
            iol.disable_staging()
        except Exception:
            pass
        ex.close()


def ref_pick(agents, graphs, workers):
    """Independent statement of the selection contract: greedy in task order, skip on overlap with an agent admitted earlier,
    stop once max(1, workers) agents are admitted."""
    picked, used = [], set()
    for a in agents:
        if len(picked) >= max(1, workers):
            break
        g = set(graphs.get(a, []))
        if used.isdisjoint(g):
            picked.append(a)
            used |= g
    return picked


def check_case(case, scratch, limits=None):
    """Returns (violations, n_runs, limit_classes)."""
    out = []
    sizes = []
    base = drive(case, scratch, par_on=True, limit=32 * 1024 * 1024, measure=sizes)
    nruns = 1
    tag = "shape=%s workers=%d graphs=%s" % (case["shape"], case["workers"], json.dumps(case["graphs"], sort_keys=True))
    for k in ("ctx", "container", "state_shape", "registry"):
        if case.get(k) is not None:
            tag += " %s=%s" % (k, REG_ORDERS[case[k]] if k == "registry" else case[k])
    if base["error"]:
        return [("standin:driver-raises:limit=32MiB", "driver raised %s [%s]" % (base["error"], tag))], nruns, []
    picked = [a for a, dry in base["computed"] if dry]
    # --- selection clauses observed on the real driver
    gs = case["graphs"]
    for i, a in enumerate(picked):
        for b in picked[i + 1:]:
            if set(gs.get(a, [])) & set(gs.get(b, [])):
                out.append(("select:overlap-computed-together", "agents %s and %s share graphs but were computed in one batch [%s]" % (a, b, tag)))
    if len(picked) > max(1, case["workers"]):
        out.append(("select:over-limit", "%d agents computed with max_workers=%d [%s]" % (len(picked), case["workers"], tag)))
    if case["agents"] and (not picked or picked[0] != case["agents"][0]):
        out.append(("select:first-not-picked", "first task's agent not computed: picked=%r [%s]" % (picked, tag)))
    if [a for a in case["agents"] if a in picked] != picked:
        out.append(("select:order", "compute order %r is not task order [%s]" % (picked, tag)))
    if any(not dry for _, dry in base["computed"]):
        out.append(("standin:compute-not-dry", "compute phase ran a non-dry turn [%s]" % tag))
    # --- the batch the driver works on is the SELECTED batch: every agent the selection contract admits (greedy in task order,
    # disjoint from the agents admitted before it, room left under the limit) is computed, committed and returned.  (An agent
    # computed beyond that set necessarily overlaps or exceeds the limit: reported above.)
    expected = ref_pick(case["agents"], gs, case["workers"])
    missing = [a for a in expected if a not in picked]
    if missing:
        pos = [case["agents"].index(a) for a in missing]
        cls = "at-or-beyond-limit-index" if all(p >= max(1, case["workers"]) for p in pos) else "within-limit-index"
        out.append(("batch:selected-not-computed:%s" % cls, "selected batch is %r but the driver computed only %r: agents %r (task index %r, "
                    "max_workers=%d) were dropped without result, log lines or commit [%s]" % (expected, picked, missing, pos, case["workers"], tag)))
    # --- sequential baseline: the driver's own disabled path over the picked tasks
    seq = drive(case, scratch, par_on=False, tasks=[(a, "t-" + a) for a in picked])
    nruns += 1
    if seq["error"]:
        # the stand-in itself never raises and the batch over the same tasks returned: the two paths differ
        return out + [("standin:sequential-loop-raises", "the driver's disabled-path loop raised %s where the batch returned %r [%s]" % (
            seq["error"], base["lines"], tag))], nruns, []

    def compare(run, label, seq=seq, only_new_vs=None):
        # only_new_vs: report a difference only where the reference `seq` itself departs from that other reference (the
        # remaining differences are the ones already reported against it)
        if only_new_vs is not None:
            seq = dict(seq)
            run = dict(run)
            for key in ("lines", "w", "version", "snaps"):
                if seq[key] == only_new_vs[key]:
                    run[key] = seq[key]
            same = {f for f in set(seq["logs"]) | set(only_new_vs["logs"]) if seq["logs"].get(f) == only_new_vs["logs"].get(f)}
            run["logs"] = {f: v for f, v in run["logs"].items() if f not in same}
            seq["logs"] = {f: v for f, v in seq["logs"].items() if f not in same}
        for key, sig in (("lines", "results"), ("w", "store"), ("version", "version")):
            if run[key] != seq[key]:
                out.append(("standin:%s-differ%s" % (sig, label[0]), "%s: batch %r vs sequential %r [%s %s]" % (
                    key, run[key], seq[key], tag, label[1])))
        files = sorted(set(run["logs"]) | set(seq["logs"]))
        for f in files:
            if run["logs"].get(f) != seq["logs"].get(f):
                a_ = (run["logs"].get(f) or b"").decode("utf-8", "replace")
                b_ = (seq["logs"].get(f) or b"").decode("utf-8", "replace")
                cls = "apply-record" if f == "apply.jsonl" else "stage-records"
                # classify the apply-record difference: only the snapshot path?
                if f == "apply.jsonl" and len(a_.splitlines()) == len(b_.splitlines()):
                    try:
                        ra = [json.loads(x) for x in a_.splitlines()]
                        rb = [json.loads(x) for x in b_.splitlines()]
                        for x in ra + rb:
                            x.pop("snapshot", None)
                        if ra == rb:
                            cls = "apply-record:snapshot-path-only"
                    except Exception:
                        pass
                out.append(("standin:log-differ:%s%s" % (cls, label[0]), "%s differs: batch %s vs sequential %s [%s %s]" % (
                    f, a_[:300], b_[:300], tag, label[1])))
        if run["snaps"] != seq["snaps"]:
            out.append(("standin:snapshot-files-differ%s" % label[0], "snapshot dir %r vs sequential %r [%s %s]" % (run["snaps"], seq["snaps"], tag, label[1])))

    compare(base, ("", "limit=32MiB"))
    # --- independent sequential baseline: "running those turns one after another" stated WITHOUT any driver code - the harness's
    # own loop hands run_turn the caller's context as it is (every field, falsy values included) with only the agent id
    # specialised, on the live state.  The driver's disabled path shares its context clone (and anything else the two paths
    # have in common) with the batch path, so a slip in the shared part moves both sides of the comparison above together.
    ref = drive(case, scratch, par_on=False, tasks=[(a, "t-" + a) for a in picked], plain=True)
    nruns += 1
    if ref["error"]:
        # stand-in + real apply_changes under the caller's own context raised where the batch over the same tasks returned
        return out + [("standin:plain-loop-raises", "the plain sequential loop raised %s where the batch returned %r [%s]" % (
            ref["error"], base["lines"], tag))], nruns, []
    compare(base, (":vs-plain-loop", "limit=32MiB; reference = plain loop run_turn(full caller context, agent id set)"), seq=ref, only_new_vs=seq)
    # --- staging limits: every class at which behaviour can change; oracle = identical to the 32 MiB run
    lim_set = {1}
    acc = 0
    for s in sizes:
        acc += s
        lim_set.update({acc - 1, acc, acc + 1})
        lim_set.update({s - 1, s, s + 1})
    lim_set = sorted(x for x in lim_set if x >= 1)
    if case.get("lim") == "ends":
        # context / state-view legs of the quick tier: the view and the ctx clone are taken before anything is staged, so only
        # the extreme back-pressure regimes are run (flush before every record / one flush before the last record / never)
        lim_set = sorted({1, max(1, sum(sizes) - 1)})
    if limits is not None:
        lim_set = [x for x in lim_set if x in limits] or lim_set[:1]
    biggest = max(sizes) if sizes else 0
    for lim in lim_set:
        r = drive(case, scratch, par_on=True, limit=lim)
        nruns += 1
        if r["error"]:
            cls = "limit<record" if lim < biggest else "limit>=record"
            out.append(("standin:driver-raises:%s" % cls, "staging limit %d (largest record estimate %d): driver raised %s [%s]" % (
                lim, biggest, r["error"], tag)))
            continue
        for key in ("lines", "w", "version", "snaps"):
            if r[key] != base[key]:
                out.append(("standin:limit-dependent:%s" % key, "%s with staging limit %d = %r, with 32MiB = %r [%s]" % (key, lim, r[key], base[key], tag)))
        for f in sorted(set(r["logs"]) | set(base["logs"])):
            if r["logs"].get(f) != base["logs"].get(f):
                out.append(("standin:limit-dependent:log-lines", "%s with staging limit %d:\n%s\nwith 32MiB:\n%s [%s]" % (
                    f, lim, (r["logs"].get(f) or b"").decode("utf-8", "replace")[:400], (base["logs"].get(f) or b"").decode("utf-8", "replace")[:400], tag)))
    return out, nruns, lim_set


def _worker(chunk, st: Stats, scratch):
    import logging
    logging.disable(logging.CRITICAL)
    for case in chunk:
        res, nruns, lims = check_case(case, scratch)
        st.add("transitions", nruns)
        st.add("validated", nruns - 1)
        st.add("cases")
        st.distinct("states", case)
        if len(case["agents"]) >= 2:
            st.add("nontrivial")
        st.distinct("outcomes", (len(case["agents"]), tuple(sorted(s for s, _ in res))))
        st.notes["max_limit_classes"] = max(st.notes.get("max_limit_classes", 0), len(lims))
        for sig, what in res:
            st.violation(sig, what, case)
    if chunk:
        st.sample(chunk[0])


def _sel_worker(chunk, st: Stats):
    for n, idxs in chunk:
        agents = AGENTS[:n]
        graphs = {a: SUBSETS[i] for a, i in zip(agents, idxs)}
        for shape, workers in [(sh, w_) for sh in ("gba", "agents", "mixed") for w_ in range(1, 7)]:
            state = graph_maps(graphs, shape)
            picked = par_mod._select_independent_batch(list(agents), state, workers)
            st.add("transitions")
            st.add("validated")
            st.add("selections")
            case = {"kind": "select", "agents": agents, "graphs": graphs, "workers": workers, "state_shape": shape}
            bad = None
            for i, a in enumerate(picked):
                for b in picked[i + 1:]:
                    if set(graphs[a]) & set(graphs[b]):
                        bad = ("select:overlap-picked", "picked %r contains overlapping %s,%s" % (picked, a, b))
            if len(picked) > max(1, workers):
                bad = ("select:over-limit", "picked %r with limit %d" % (picked, workers))
            if not picked or picked[0] != agents[0]:
                bad = ("select:first-not-picked", "picked %r" % (picked,))
            if [a for a in agents if a in picked] != picked or len(set(picked)) != len(picked):
                bad = ("select:order", "picked %r not a subsequence of %r" % (picked, agents))
            # no eligible agent is skipped while there is room (greedy): an agent not picked either overlaps an earlier
            # picked agent or arrived after the limit was reached
            for a in agents:
                if a in picked:
                    continue
                earlier = [p for p in picked if agents.index(p) < agents.index(a)]
                overl = any(set(graphs[a]) & set(graphs[p]) for p in earlier)
                if not overl and len(earlier) < max(1, workers):
                    bad = ("select:eligible-skipped", "agent %s skipped although disjoint from %r and room left (limit %d)" % (a, earlier, workers))
            st.distinct("outcomes", ("sel", len(picked)))
            if bad:
                st.violation(bad[0], bad[1] + " graphs=%s workers=%d" % (json.dumps(graphs), workers), case)


def real_pipeline_case(scratch, world="W3"):
    """(b) the real stage pipeline under the driver."""
    out = []
    W.reset_globals()
    ex = W.Exec(scratch, "c10b")
    ex.activate()
    try:
        def mk(par):
            cfg = W.make_cfg({"perf": {"parallel": {"enabled": par, "agents": par, "max_workers": 3}}}, snap_dir=ex.snap_dir)
            st = W.make_world(world)
            st["graphs_by_agent"] = {"A": ["g1"], "B": ["g2"], "C": ["g3"]}
            ctx = W.make_ctx(cfg, "batch", 1)
            return ctx, st
        ctx, st = mk(True)
        tasks = [("A", "apple"), ("B", "plum"), ("C", "pear")]
        try:
            res = orch._run_agents_parallel_batch(ctx, st, list(tasks))
            lines = [r.line for r in res]
        except Exception as e:  # noqa
            out.append(("real-pipeline:raises:%s" % type(e).__name__,
                        "driver with the real stage pipeline raised %s: %s (tasks %r on world %s)" % (type(e).__name__, e, tasks, world)))
            return out
        finally:
            try:
                iol.disable_staging()
            except Exception:
                pass
        W.reset_globals()
        ctx2, st2 = mk(False)
        res2 = orch._run_agents_parallel_batch(ctx2, st2, list(tasks))
        if lines != [r.line for r in res2]:
            out.append(("real-pipeline:results-differ", "batch lines %r vs sequential %r" % (lines, [r.line for r in res2])))
        return out
    finally:
        ex.close()


POS_ORDER = ["C", "A", "B", "F", "D", "E"]     # task order of the larger batches: not sorted by agent id


def overlap_patterns(n):
    """Every overlap pattern of n agents that own at most one graph each, up to renaming of graphs: position i carries None (no
    graph) or a class label; labels appear in first-use order (restricted growth strings) -> Bell(n+1) patterns."""
    def rec(i, used, cur):
        if i == n:
            yield list(cur)
            return
        for lab in [None] + list(range(used + 1)):
            cur.append(lab)
            yield from rec(i + 1, max(used, (lab + 1) if lab is not None else 0), cur)
            cur.pop()
    return rec(0, 0, [])


def position_cases(thorough):
    """larger batches: where the selected agents sit relative to the worker limit"""
    out = []
    for n in ((4, 5, 6) if thorough else (4, 5)):
        agents = POS_ORDER[:n]
        for pat in overlap_patterns(n):
            graphs = {a: ([] if lab is None else ["G%d" % (lab + 1)]) for a, lab in zip(agents, pat)}
            for workers in ((2, 3, 4, 5, 6) if thorough else (2, 3, 4)):
                d = {"kind": "standin", "agents": agents, "graphs": graphs, "workers": workers, "shape": "std", "cadence": 1}
                if not (thorough and n == 4):
                    d["lim"] = "ends"
                out.append(d)
    return out


def cases(thorough):
    out = []
    shapes = [s for s in SHAPES if s != "walk"] if thorough else ["std", "multi", "none", "big", "reuse"]   # "walk": see below
    for n in range(1, 4):
        for idxs in itertools.product(range(len(SUBSETS)), repeat=n):
            if not thorough and n >= 2 and any(i > 4 for i in idxs):
                continue  # quick: 2-3 agents over {}, {G1}, {G2}, {G3}, {G1,G2}
            # task lists are NOT sorted by agent id (the commit order must be the task order, not an id order)
            agents = {1: ["B"], 2: ["B", "A"], 3: ["C", "A", "B"]}[n]
            graphs = {a: SUBSETS[i] for a, i in zip(agents, idxs)}
            for workers in ((2, 3, 6) if thorough else (2, 6)):   # max_workers <= 1 closes the gate (no batch path)
                for sh in shapes:
                    if not thorough and n == 3 and sh != "std":
                        continue
                    if not thorough and n == 2 and sh == "big":
                        continue
                    if not thorough and sh == "reuse" and any(i > 2 for i in idxs):
                        continue
                    out.append({"kind": "standin", "agents": agents, "graphs": graphs, "workers": workers, "shape": sh,
                                "cadence": 1})
    # snapshot cadence off (no snapshot on turn 6) for a slice of the cases: isolates the snapshot-path difference
    extra = []
    for c in out:
        if c["shape"] == "std" and len(c["agents"]) <= 2:
            d = dict(c)
            d["cadence"] = 4
            extra.append(d)
        if c["shape"] == "std" and len(c["agents"]) >= 2:
            for shp in ("agents", "mixed"):
                d = dict(c)
                d["state_shape"] = shp
                extra.append(d)
    # --- batch context variants (turn id 0 / 1, slice index, optional fields absent / falsy) x every overlap pattern
    for c in out:
        if len(c["agents"]) > 2 or c["shape"] not in (("std", "multi", "none") if thorough else ("std",)):
            continue
        for cx in CTX_INT + CTX_STR:
            d = dict(c)
            d["ctx"] = cx
            if not thorough:
                d["lim"] = "ends"
            extra.append(d)
            if thorough and c["shape"] == "std" and cx in ("t0", "t1s2", "sid", "s13"):
                d = dict(d)
                d["cadence"] = 4          # turn 0 (and an id that is no number) is a snapshot turn under every cadence, 1 / "13" are not
                extra.append(d)
    # --- turns without a T4 outcome: the kill switch (whole batch) and single agents that yield before T4
    for c in out:
        if c["shape"] != "std" or len(c["agents"]) > (3 if thorough else 2):
            continue
        d = dict(c)
        d["kill"] = True
        if not thorough:
            d["lim"] = "ends"
        extra.append(d)
        for a in c["agents"]:
            d = dict(c)
            d["no_t4"] = [a]
            if not thorough:
                d["lim"] = "ends"
            extra.append(d)
    # --- state container x registry insertion order x naming of the agents' graphs; the stand-in observes what it reads
    orders = range(len(REG_ORDERS)) if thorough else (0, 2, 4)     # quick: sorted (control), [G2,G1,G3], [G3,G1,G2]
    for n in range(1, 4 if thorough else 3):
        for idxs in itertools.product(range(len(SUBSETS)), repeat=n):
            if n >= 2 and any(i > 4 for i in idxs) and not (thorough and n == 2):
                continue
            agents = {1: ["B"], 2: ["B", "A"], 3: ["C", "A", "B"]}[n]
            graphs = {a: SUBSETS[i] for a, i in zip(agents, idxs)}
            for workers in ((2, 6) if thorough else (2,)):
                for cont, shp, cx in (("attr", "gba", "t6"), ("attr", "agents", "t6"), ("attr", "mixed", "bare0"), ("dict", "gba", "t6")):
                    if not thorough and shp == "mixed":
                        continue
                    for o in orders:
                        if cont == "dict" and o not in (0, 4):
                            continue
                        d = {"kind": "standin", "agents": agents, "graphs": graphs, "workers": workers, "shape": "walk",
                             "cadence": 1, "container": cont, "state_shape": shp, "registry": o, "ctx": cx}
                        if not thorough or n == 3:
                            d["lim"] = "ends"
                        extra.append(d)
    return out + extra + position_cases(thorough)


def run(run: Run) -> None:
    nsel = 5 if run.thorough else 4
    sel_items = [(n, idxs) for n in range(1, nsel + 1) for idxs in itertools.product(range(len(SUBSETS)), repeat=n)]
    run.pmap(_sel_worker, sel_items)
    cs = cases(run.thorough)
    run.notes["standin_cases"] = len(cs)
    run.notes["selection_assignments"] = len(sel_items)
    run.rule = ("(sel) every assignment of subsets of {G1,G2,G3} to 1..%d agents x worker limit 1..6; (a) every assignment for 1..3 agents x "
                "worker limits x %d payload shapes (0-5 records, streams incl. unknown names, sizes 1B/200B/70KiB) x every staging limit class "
                "(1, each record estimate and each prefix sum -1/+0/+1, 32MiB), each compared with the driver's disabled-path loop over the "
                "picked tasks; plus, for 1..2 agents, batch contexts {turn 6, turn 0, turn 1 + slice 2 + now_ms 0 + seed 0, optional "
                "fields absent; turn id as a string: non-numeric 'demo-1', numeric '13', '0', 't-0007' + slice 2} (stand-in echoes "
                "the context it is handed and stamps the id into every record), and, for 1..%d agents, state container {dict, attribute "
                "object} x graph naming x registry insertion order (%d of the 6 permutations of the graph ids; nested mappings, int "
                "keys, falsy values) with a stand-in that records what it reads from the state (iteration order, lengths, values), "
                "focuses on its first graph in registry order and proposes one delta per owned graph in that order%s; plus batches of "
                "4..%d single-graph agents under every overlap pattern (all partitions into same-graph classes + a no-graph class: "
                "Bell(n+1) per n) x worker limits 2..%d, so selected agents sit at every index relative to the limit%s; in every case "
                "of (a) the agents really computed must be exactly the batch the selection contract admits (greedy, task order, skip "
                "on overlap, stop at the limit) - none dropped; every case of (a) is ALSO compared with an independent "
                "sequential baseline that uses no driver code (the harness's loop: run_turn(the caller's context with every field "
                "as given - falsy now_ms/seed/slice_idx included - and only the agent id set, live state, text)), because the "
                "driver's disabled path shares its per-agent context clone with the batch path; "
                "(b) real pipeline on W3; non-trivial = >=2 agents" % (
                    nsel, len(SHAPES), 3 if run.thorough else 2, 6 if run.thorough else 3,
                    "" if run.thorough else " (context/container legs: staging limits 1, total-1, 32MiB only)",
                    6 if run.thorough else 5, 6 if run.thorough else 4,
                    " (staging limits 1, total-1, 32MiB; all limit classes for 4 agents)" if run.thorough else " (staging limits 1, total-1, 32MiB only)"))
    run.notes["position_cases"] = len(position_cases(run.thorough))
    run.pmap(_worker, cs, extra=(run.scratch,), chunks=128)
    for sig, what in real_pipeline_case(run.scratch):
        run.violation(sig, what, {"kind": "real"})
    run.add("transitions")
    run.assume("the driver computes the picked agents in a plain loop (no threads today): 'order in which compute phases finish' has one value")
    run.assume("compute stand-in follows the dry-run contract, reads only its own agent's target plus entries of the state that no "
               "turn of the batch writes (registry, agent maps), uses the batch turn id and slice index")
    run.assume("the batch context carries an integer turn id (0 included) or a string turn id (the declared type of "
               "TurnCtx.turn_id; numeric or not, non-empty); a context without turn id is not judged (the two paths "
               "document different defaults); registry values are mappings, lists, tuples and scalars (no namespaces: the "
               "snapshot view documents their conversion); the view may wrap containers, so only iteration order, length, "
               "lookup and scalar values are compared, not container types")
    run.assume("the plain sequential loop hands run_turn a copy of the caller's context with agent_id replaced; the contexts enumerated "
               "carry only fields the driver documents as cloned (cfg, config, now_ms, seed, slice_idx, turn_id)")
    run.assume("batches contain distinct agent ids")
    run.assume("the batch of 4..6 agents has at most one graph per agent (multi-graph, partially overlapping sets are enumerated "
               "for 1..3 agents); the selected batch is the greedy one the selection contract documents, and the caller resubmits "
               "only the tasks outside it, so an admitted agent that is not computed is a lost turn")


def replay(case):
    import tempfile
    d = tempfile.mkdtemp(prefix="c10r", dir="/dev/shm" if os.path.isdir("/dev/shm") else None)
    try:
        if case.get("kind") == "real":
            return real_pipeline_case(d)
        if case.get("kind") == "select":
            st = Stats()
            n = len(case["agents"])
            idxs = [SUBSETS.index(list(case["graphs"][a])) for a in case["agents"]]
            _sel_worker([(n, idxs)], st)
            return [(s, w) for s, (w, _) in st.viol.items()]
        res, _, _ = check_case(case, d)
        return res
    finally:
        shutil.rmtree(d, ignore_errors=True)
