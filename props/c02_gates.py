"""C02 -- features behind a closed gate are inert.

Engine E2 (k-deviation differential).  For every gate g in

    perf        perf.enabled                (subtree perf.*; perf.parallel.enabled is only ever set to false here)
    parallel    perf.parallel.enabled       (subtree perf.parallel.*; perf.enabled is NOT required, docs/m9)
    graph       graph.enabled               (subtree graph.*)
    quality     t2.quality.enabled          (subtree t2.quality.*)
    hybrid      t2.hybrid.enabled           (subtree t2.hybrid.*)
    reflection  t3.allow_reflection         (subtree t3.reflection.* + scheduler.budgets.{time_ms,ops}_reflection)
    scheduler   scheduler.enabled           (subtree scheduler.* minus the two reflection budgets)

and every base configuration with g OFF, every assignment of g's subtree with <=k leaves deviating from
"absent" (each leaf from a typed menu of validator-accepted values: booleans, boundary ints / floats, every
enum member, null for nullable budgets, scratch paths) is validated with the real validate_config (rejected
assignments are counted and skipped), then the REAL orchestrator is run on world x turn-sequence twice: once
with the assignment and once with the subtree omitted.  Oracle = equality of utterances, of the complete file
tree the execution produced (listing AND bytes: log directory, snapshot directory, working directory, every
path named inside the subtree), and of state_digest after every turn.

The subtree leaves are derived from the ALLOWED_* tables (and DEFAULTS["scheduler"], which has no table) of
configs/validate.py at run time, so a key the validator learns to accept is enumerated automatically.

Two further dimensions of the scenario ("for all worlds and turn sequences", through every way a turn is run):

    entry   how the turns are driven: "turn"  = Orchestrator.run_turn once per turn (turn ids 1..n);
                                      "batch" = the agent batch driver clematis.engine.orchestrator.
                                                _run_agents_parallel_batch(ctx, state, tasks) with the whole sequence as
                                                ONE batch (turn id 1) -- the second public way to run turns; with the
                                                parallel gate closed it is documented to fall back to the sequential loop
    route   how the planner asks for a reflection pass (the thing t3.allow_reflection gates):
                                      "stash" = the flag the LLM planner path leaves on state (_planner_reflection_flag);
                                      "plan"  = the plan object itself carries reflection=True (rule-based deliberate()
                                                wrapped through the documented override hook orchestrator.t3_deliberate)

The differential is always within one (entry, route): same entry, same route, with vs without the subtree.  Because a
gate predicate may be a conjunction of several leaves of the closed subtree (enabled && agents && max_workers > 1), every
gate whose subtree is small (<= K2_QUICK_MAX_LEAVES leaves) gets the k=2 leg in the quick tier as well.

Sub-switch leg ("2s", a structured slice of k=2 that is cheap enough for the quick tier of EVERY gate).  A gated
subtree contains sub-features with a switch of their own (t2.quality.mmr.enabled, graph.merge.enabled,
perf.t2.reader.partitions.enabled ...).  The code of such a sub-feature sits behind TWO predicates -- the parent gate
and its own switch -- and with only the sub-switch set (k=1) the sub-feature's default parameters may happen to be
neutral on every world.  So for every sub-switch s of a gate's subtree and every leaf p of s's own block (the leaves
below s's parent, nested blocks included), the assignment {s: true, p: v} is enumerated for EVERY menu value v of p:
    quick     s = every leaf named `enabled` below the gate (other than gate leaves); bases {base, all other gates ON};
    thorough  s = every boolean leaf of the subtree (other than gate leaves); every base of the menu; also through the
              batch driver (agent-switching sequence, world W2).
Pairs the k=2 leg of the same tier already executes on a base are not executed twice.
"""
from __future__ import annotations

import copy
import itertools
import json
import os
import pickle
import shutil
from typing import Any, Dict, List, Optional, Tuple

from mc.runner import Run, Stats, HarnessError, h64
from mc import world as W

import configs.validate as V
from clematis.errors import ConfigError
from clematis.memory.index import InMemoryIndex

ROOT = "<ROOT>"          # placeholder for the per-execution scratch root inside path-valued leaves
BIG = 10 ** 6

# ----------------------------------------------------------------------------- gates and subtree tables
GATES: Dict[str, Dict[str, Any]] = {
    "perf": {
        "gate": "perf.enabled",
        "tables": [("perf", "ALLOWED_PERF"), ("perf.t1", "ALLOWED_PERF_T1"),
                   ("perf.t1.cache", "ALLOWED_PERF_T1_CACHE"), ("perf.t1.caps", "ALLOWED_PERF_T1_CAPS"),
                   ("perf.t2", "ALLOWED_PERF_T2"), ("perf.t2.cache", "ALLOWED_PERF_T2_CACHE"),
                   ("perf.t2.reader", "ALLOWED_PERF_T2_READER"),
                   ("perf.t2.reader.partitions", "ALLOWED_PERF_T2_READER_PARTITIONS"),
                   ("perf.snapshots", "ALLOWED_PERF_SNAP"), ("perf.metrics", "ALLOWED_PERF_METRICS"),
                   ("perf.parallel", "ALLOWED_PERF_PARALLEL")],
        # committed reading (DESIGN C02): the parallel gate is independent of perf.enabled, so the perf leg
        # never switches it on
        "only_false": ["perf.enabled", "perf.parallel.enabled"],
        # perf.parallel.* is governed by the parallel gate: in the perf leg those leaves are only set on bases
        # where the parallel gate is closed too
        "also_closed": {"perf.parallel.": "perf.parallel.enabled"},
    },
    "parallel": {
        "gate": "perf.parallel.enabled",
        "tables": [("perf.parallel", "ALLOWED_PERF_PARALLEL")],
        "only_false": ["perf.parallel.enabled"],
    },
    "graph": {
        "gate": "graph.enabled",
        "tables": [("graph", "ALLOWED_GRAPH"), ("graph.update", "ALLOWED_GRAPH_UPDATE"),
                   ("graph.decay", "ALLOWED_GRAPH_DECAY"), ("graph.merge", "ALLOWED_GRAPH_MERGE"),
                   ("graph.split", "ALLOWED_GRAPH_SPLIT"), ("graph.promotion", "ALLOWED_GRAPH_PROMOTION")],
        "only_false": ["graph.enabled"],
    },
    "quality": {
        "gate": "t2.quality.enabled",
        "tables": [("t2.quality", "ALLOWED_T2_QUALITY"), ("t2.quality.normalizer", "ALLOWED_T2_QUALITY_NORMALIZER"),
                   ("t2.quality.aliasing", "ALLOWED_T2_QUALITY_ALIASING"),
                   ("t2.quality.lexical", "ALLOWED_T2_QUALITY_LEXICAL"),
                   ("t2.quality.lexical.bm25", "ALLOWED_T2_QUALITY_BM25"),
                   ("t2.quality.fusion", "ALLOWED_T2_QUALITY_FUSION"), ("t2.quality.mmr", "ALLOWED_T2_QUALITY_MMR"),
                   ("t2.quality.cache", "ALLOWED_T2_QUALITY_CACHE")],
        "only_false": ["t2.quality.enabled"],
    },
    "hybrid": {
        "gate": "t2.hybrid.enabled",
        "tables": [("t2.hybrid", "ALLOWED_T2_HYBRID")],
        "only_false": ["t2.hybrid.enabled"],
    },
    "reflection": {
        "gate": "t3.allow_reflection",
        "tables": [("t3.reflection", "ALLOWED_T3_REFLECTION")],
        "extra": ["t3.allow_reflection", "scheduler.budgets.time_ms_reflection", "scheduler.budgets.ops_reflection"],
        "only_false": ["t3.allow_reflection"],
    },
    "scheduler": {
        "gate": "scheduler.enabled",
        "tables": [],
        "defaults": "scheduler",   # no ALLOWED_* table exists for the scheduler block: flatten DEFAULTS["scheduler"]
        "exclude": ["scheduler.budgets.time_ms_reflection", "scheduler.budgets.ops_reflection"],
        "only_false": ["scheduler.enabled"],
    },
}

_B = [True, False]
_CAP1 = [1, 2, BIG]          # ints with lower bound 1
_CAP0 = [0, 1, BIG]          # ints with lower bound 0
_UNIT = [1.0, 0.0, 0.5]      # floats in [0,1]
_NULLABLE0 = [0, 1, None]    # "int or null" budgets

# Typed value menus; the FIRST entries are the most "active" ones (used for the k=2 leg).
MENU: Dict[str, List[Any]] = {
    # ---- perf
    "perf.enabled": [False],
    "perf.t1.queue_cap": _CAP1, "perf.t1.dedupe_window": _CAP1,
    "perf.t1.cache.max_entries": [1, BIG, 0], "perf.t1.cache.max_bytes": [1, BIG, 0],
    "perf.t1.caps.frontier": _CAP1, "perf.t1.caps.visited": _CAP1,
    "perf.t2.embed_dtype": ["fp16", "fp32"], "perf.t2.embed_store_dtype": ["fp16", "fp32"],
    "perf.t2.precompute_norms": _B,
    "perf.t2.cache.max_entries": [1, BIG, 0], "perf.t2.cache.max_bytes": [1, BIG, 0],
    "perf.t2.reader.partitions.enabled": _B,
    "perf.t2.reader.partitions.layout": ["owner_quarter", "none"],
    "perf.t2.reader.partitions.path": [ROOT + "/perf-parts"],
    "perf.t2.reader.partitions.by": [["owner", "quarter"], ["owner"]],
    "perf.snapshots.compression": ["zstd", "none"], "perf.snapshots.level": [1, 19],
    "perf.snapshots.delta_mode": _B, "perf.snapshots.every_n_turns": [2, BIG, 1],
    "perf.metrics.report_memory": _B,
    "perf.parallel.enabled": [False],
    "perf.parallel.max_workers": [8, 2, 1, 0],
    "perf.parallel.t1": _B, "perf.parallel.t2": _B, "perf.parallel.agents": _B,
    # ---- graph (GEL)
    "graph.enabled": [False],
    "graph.coactivation_threshold": [0.0, 1.0, 0.5],
    "graph.observe_top_k": _CAP1, "graph.pair_cap_per_obs": _CAP0,
    "graph.update.mode": ["proportional", "additive"],
    "graph.update.alpha": [1.0, 0.5, 2.0 ** -10],
    "graph.update.clamp_min": [0.5, 0.0, -0.5], "graph.update.clamp_max": [0.25, 0.5, 2.0],
    "graph.decay.half_life_turns": _CAP1, "graph.decay.floor": [0.25, 1.0, 2.0],
    "graph.merge.enabled": _B, "graph.merge.min_size": [2, 3, BIG], "graph.merge.min_avg_w": [0.0, 1.0, 0.5],
    "graph.merge.max_diameter": _CAP1, "graph.merge.cap_per_turn": [BIG, 1, 0],
    "graph.split.enabled": _B, "graph.split.weak_edge_thresh": [0.0, 0.2, 1.0],
    "graph.split.min_component_size": [2, 3, BIG], "graph.split.cap_per_turn": [BIG, 1, 0],
    "graph.promotion.enabled": _B, "graph.promotion.label_mode": ["concat_k", "lexmin"],
    "graph.promotion.topk_label_ids": _CAP1, "graph.promotion.attach_weight": [1.0, -1.0, 0.0],
    "graph.promotion.cap_per_turn": [BIG, 1, 0],
    # ---- t2.quality
    "t2.quality.enabled": [False],
    "t2.quality.shadow": _B, "t2.quality.trace_dir": [ROOT + "/trace-q"], "t2.quality.redact": [False, True],
    "t2.quality.normalizer.enabled": _B, "t2.quality.normalizer.case": ["lower"],
    "t2.quality.normalizer.unicode": ["NFKC"], "t2.quality.normalizer.stopwords": ["none", "en-basic"],
    "t2.quality.normalizer.stemmer": ["porter-lite", "none"], "t2.quality.normalizer.min_token_len": [BIG, 2, 1],
    "t2.quality.aliasing.enabled": _B, "t2.quality.aliasing.map_path": [ROOT + "/alias-map.yaml"],
    "t2.quality.aliasing.max_expansions_per_token": _CAP0,
    "t2.quality.lexical.enabled": _B, "t2.quality.lexical.bm25_k1": [0.0, 100.0, 1.2],
    "t2.quality.lexical.bm25_b": [0.0, 1.0, 0.5], "t2.quality.lexical.stopwords": ["none", "en-basic"],
    "t2.quality.lexical.bm25.k1": [0.0, 100.0], "t2.quality.lexical.bm25.b": [0.0, 1.0],
    "t2.quality.lexical.bm25.doclen_floor": _CAP0,
    "t2.quality.fusion.enabled": _B, "t2.quality.fusion.mode": ["score_interp"],
    "t2.quality.fusion.alpha_semantic": [0.0, 1.0, 0.5], "t2.quality.fusion.score_norm": ["zscore", "minmax"],
    "t2.quality.mmr.enabled": _B, "t2.quality.mmr.lambda": [0.0, 1.0, 0.5],
    "t2.quality.mmr.lambda_relevance": [0.0, 1.0, 0.5],
    "t2.quality.mmr.diversity_by_owner": _B, "t2.quality.mmr.diversity_by_token": _B,
    "t2.quality.mmr.k": _CAP1, "t2.quality.mmr.k_final": _CAP1,
    "t2.quality.cache.salt": ["s1", ""],
    # ---- t2.hybrid
    "t2.hybrid.enabled": [False],
    "t2.hybrid.use_graph": _B, "t2.hybrid.anchor_top_m": [2, 1, BIG], "t2.hybrid.walk_hops": [2, 1],
    "t2.hybrid.edge_threshold": [0.0, 1.0, 0.5], "t2.hybrid.lambda_graph": _UNIT,
    "t2.hybrid.damping": _UNIT, "t2.hybrid.degree_norm": ["invdeg", "none"],
    "t2.hybrid.max_bonus": [10.0, 0.0, 0.5], "t2.hybrid.k_max": [BIG, 2, 1],
    # ---- reflection
    "t3.allow_reflection": [False],
    "t3.reflection.backend": ["llm", "rulebased"], "t3.reflection.summary_tokens": [1, BIG, 0],
    "t3.reflection.embed": [False, True], "t3.reflection.log": [False, True],
    "t3.reflection.topk_snippets": [0, 1, BIG],
    "scheduler.budgets.time_ms_reflection": [1, 10 ** 9, None],
    "scheduler.budgets.ops_reflection": [0, BIG, None],
    # ---- scheduler
    "scheduler.enabled": [False],
    "scheduler.policy": ["fair_queue", "round_robin"],
    "scheduler.quantum_ms": [1, 2, 10 ** 9],
    "scheduler.budgets.t1_pops": [0, 1, BIG], "scheduler.budgets.t1_iters": _NULLABLE0,
    "scheduler.budgets.t2_k": _NULLABLE0, "scheduler.budgets.t3_ops": [1, 0, None],
    "scheduler.budgets.wall_ms": [20, 1, 10 ** 9, None],
    "scheduler.fairness.max_consecutive_turns": [2, BIG, 1], "scheduler.fairness.aging_ms": _CAP0,
}

# fallback for a leaf the validator knows but MENU does not (new key in the repo): probe these values through
# validate_config and keep the accepted ones
_UNIVERSAL = [True, False, 0, 1, 2, BIG, 0.0, 0.5, 1.0, "none", ROOT + "/unknown-leaf"]


def _flatten(d: dict, prefix: str) -> List[str]:
    out: List[str] = []
    for k, v in d.items():
        p = prefix + "." + k
        if isinstance(v, dict) and v:
            out.extend(_flatten(v, p))
        else:
            out.append(p)
    return out


def derive_leaves(gname: str) -> Tuple[List[str], List[str]]:
    """(leaf paths of the gate's subtree, leaves for which only the universal probe menu exists)"""
    spec = GATES[gname]
    prefixes = {p for p, _ in spec["tables"]}
    leaves: List[str] = []
    for prefix, tname in spec["tables"]:
        keys = getattr(V, tname, None)
        if not isinstance(keys, (set, frozenset)):
            raise HarnessError("seam missing: configs.validate.%s" % tname)
        for k in sorted(keys):
            path = prefix + "." + k
            if path not in prefixes:
                leaves.append(path)
    if spec.get("defaults"):
        d = V.DEFAULTS.get(spec["defaults"])
        if not isinstance(d, dict):
            raise HarnessError("seam missing: configs.validate.DEFAULTS[%r]" % spec["defaults"])
        leaves.extend(_flatten(d, spec["defaults"]))
    leaves.extend(spec.get("extra", []))
    ex = set(spec.get("exclude", []))
    leaves = sorted(set(l for l in leaves if l not in ex))
    if spec["gate"] not in leaves:
        raise HarnessError("gate leaf %s not in the derived subtree of %s" % (spec["gate"], gname))
    unknown = [l for l in leaves if l not in MENU]
    return leaves, unknown


def menu_for(gname: str, leaf: str) -> List[Any]:
    if leaf in GATES[gname].get("only_false", []):
        return [False]
    return list(MENU.get(leaf, _UNIVERSAL))


# ----------------------------------------------------------------------------- configs
def _set_path(d: dict, path: str, value: Any) -> None:
    parts = path.split(".")
    cur = d
    for p in parts[:-1]:
        nxt = cur.get(p)
        if not isinstance(nxt, dict):
            nxt = {}
            cur[p] = nxt
        cur = nxt
    cur[parts[-1]] = copy.deepcopy(value)


def _has_path(d: Any, path: str) -> bool:
    cur = d
    for p in path.split("."):
        if not isinstance(cur, dict) or p not in cur:
            return False
        cur = cur[p]
    return True


def _get_path(d: Any, path: str, default=None):
    cur = d
    for p in path.split("."):
        if not isinstance(cur, dict) or p not in cur:
            return default
        cur = cur[p]
    return cur


def _subst(obj: Any, root: str) -> Any:
    if isinstance(obj, dict):
        return {k: _subst(v, root) for k, v in obj.items()}
    if isinstance(obj, list):
        return [_subst(v, root) for v in obj]
    if isinstance(obj, str) and ROOT in obj:
        return obj.replace(ROOT, root)
    return obj


# What "ON" means per gate (used to build the all-other-gates-on base).  Reflection gets an unreachable wall
# budget so that its (real-clock) timeout can never fire; the scheduler gets unreachable time budgets for the
# same reason (time-driven yields depend on the clock by design).
ON: Dict[str, dict] = {
    "perf": {"perf": {"enabled": True, "metrics": {"report_memory": True},
                      "t1": {"cache": {"max_entries": 8, "max_bytes": 4096}},
                      "t2": {"cache": {"max_entries": 8, "max_bytes": 65536}}}},
    "parallel": {"perf": {"parallel": {"enabled": True, "t1": True, "max_workers": 3}}},
    "graph": W.CONFIG_MENU["gel"],
    "quality": {"t2": {"quality": {"enabled": True, "fusion": {"enabled": True, "alpha_semantic": 0.5},
                                   "mmr": {"enabled": True, "lambda": 0.5, "k": 3}}}},
    "hybrid": W.CONFIG_MENU["hybrid"],
    "reflection": {"t3": {"allow_reflection": True, "reflection": {"summary_tokens": 8}},
                   "scheduler": {"budgets": {"ops_reflection": 2, "time_ms_reflection": 10 ** 9}}},
    "scheduler": W.CONFIG_MENU["scheduler"],
}


QUICK_BASES = ("base", "allon", "perf_metrics", "par_t1", "gel", "quality", "hybrid", "reflection", "scheduler",
               "shadow_noperf")


def bases_for(gname: str, tier_k2: bool = False, quick: bool = False) -> Dict[str, dict]:
    """name -> raw override (on top of W.BASE_RAW); only bases whose validated form has the gate OFF are kept."""
    out: Dict[str, dict] = {}
    menu = dict(W.CONFIG_MENU)
    menu["reflection"] = ON["reflection"]
    # a base in which the quality shadow switch is already set: the perf leg must not make it emit
    menu["shadow_noperf"] = {"t2": {"quality": {"shadow": True, "trace_dir": ROOT + "/trace-base"}}}
    # "all other gates ON" -- except thread parallelism: with the byte-bounded perf caches of ON["perf"] the
    # eviction counters in t1.jsonl depend on the thread schedule (that is C09/C01 territory, and would make the
    # differential flaky); the parallel-ON base par_t1 (unbounded legacy cache) is in the menu on its own.
    allon: dict = {}
    for h, over in ON.items():
        if h != gname and h != "parallel":
            allon = W.deep_merge(allon, over)
    menu["allon"] = allon
    if tier_k2:
        names = ["base", "allon"]
    elif quick:
        names = [n for n in menu if n in QUICK_BASES]
    else:
        names = list(menu)
    for name in names:
        raw = W.deep_merge(W.BASE_RAW, menu[name])
        try:
            v = V.validate_config(_subst(raw, "/nonexistent-c02"))
        except ConfigError as e:
            raise HarnessError("base %s rejected by the validator: %s" % (name, e))
        if _get_path(v, GATES[gname]["gate"], False):
            continue
        out[name] = raw
    return out


def applicable(gname: str, assign, ref_v: dict) -> bool:
    for prefix, other_gate in GATES[gname].get("also_closed", {}).items():
        if any(p.startswith(prefix) for p, _ in assign) and _get_path(ref_v, other_gate, False):
            return False
    return True


def raw_for(base_raw: dict, assign: List[List[Any]]) -> dict:
    raw = copy.deepcopy(base_raw)
    for path, val in assign:
        _set_path(raw, path, val)
    return raw


# ----------------------------------------------------------------------------- scenarios
SEQS_ALL: List[List[List[str]]] = [[list(a), list(b)] for a in itertools.product(W.AGENTS, W.TEXTS)
                                   for b in itertools.product(W.AGENTS, W.TEXTS)]
SEQS_SMALL: List[List[List[str]]] = [
    [["A", "apple"], ["A", "apple"]],        # same agent, same text (stage-cache hit on turn 2)
    [["A", "apple"], ["B", "pear fig"]],     # agent switch, two seeded texts
    [["B", "zzz"], ["A", "pear fig"]],       # unseeded text first
    [["B", "pear fig"], ["B", "zzz"]],
]
WORLDS = ["W1", "W2"]


def seqs_for(thorough: bool, k: int, bname: str):
    if not thorough:
        return SEQS_SMALL[:3]
    if k == 1 and bname == "base":
        return SEQS_ALL
    return SEQS_SMALL


# entry points and planner request routes (module docstring).  The default variant is the historical one.
ENTRIES = ("turn", "batch")
ROUTES = ("stash", "plan")
DEFAULT_VARIANT = ("stash", "turn")
# a gate with at most this many leaves gets its k=2 leg in the quick tier too (conjunctive gate predicates)
K2_QUICK_MAX_LEAVES = 5
# the request route only matters to the feature that consumes the request
ROUTE_GATES = ("reflection",)
for _n in ("_run_agents_parallel_batch", "disable_staging"):
    if not callable(getattr(W.orch_pkg, _n, None)):
        raise HarnessError("seam missing: clematis.engine.orchestrator.%s" % _n)
if not callable(getattr(W.orch_core, "deliberate", None)):
    raise HarnessError("seam missing: orchestrator.core.deliberate")


# the sub-switch leg (module docstring): {sub-switch: true, one leaf of the sub-switch's block: every menu value}
LEG_SUB = "2s"
K2_BASES = ("base", "allon")


def ks_for(gname: str, n_leaves: int, thorough: bool) -> List[Any]:
    if thorough or n_leaves <= K2_QUICK_MAX_LEAVES:
        return [1, 2, LEG_SUB]
    return [1, LEG_SUB]


def bases_for_leg(gname: str, k, thorough: bool) -> Dict[str, dict]:
    if k == 2:
        return bases_for(gname, tier_k2=True)
    if k == LEG_SUB:
        return bases_for(gname, tier_k2=not thorough)
    return bases_for(gname, quick=not thorough)


def sub_switches(gname: str, leaves: List[str], thorough: bool) -> List[Tuple[str, List[str]]]:
    """[(sub-switch leaf, the other leaves of its block)].  A sub-switch is a leaf of the subtree, other than the gate
    leaves, that can be set to true: quick = the leaves named `enabled` (a sub-feature's own switch), thorough = every
    boolean leaf.  Its block = all leaves below its parent (nested blocks included)."""
    spec = GATES[gname]
    fixed = set(spec.get("only_false", [])) | {spec["gate"]}
    out: List[Tuple[str, List[str]]] = []
    for sw in leaves:
        if sw in fixed:
            continue
        menu = menu_for(gname, sw)
        named = sw.endswith(".enabled")
        boolean = bool(menu) and all(isinstance(v, bool) for v in menu)
        if not any(v is True for v in menu) or not (named or (thorough and boolean)):
            continue
        block = sw.rsplit(".", 1)[0] + "."
        out.append((sw, [l for l in leaves if l != sw and l.startswith(block)]))
    return out


def in_pair_leg(gname: str, assign) -> bool:
    """is this two-leaf assignment one the k=2 leg enumerates (two most active values of each leaf)?"""
    return len(assign) == 2 and all(any(v == m and type(v) is type(m) for m in menu_for(gname, p)[:2])
                                    for p, v in assign)


def k2_on_batch(n_leaves: int) -> bool:
    return n_leaves <= K2_QUICK_MAX_LEAVES


def variants_for(gname: str, k: int, bname: str, n_leaves: int, thorough: bool):
    """[(route, entry, sequences, worlds)] explored for one (gate, k, base).

    * (stash, turn): the full sequence alphabet of the tier, both worlds;
    * (plan, turn): gates in ROUTE_GATES, same sequences, both worlds;
    * (stash, batch): k=1 for every gate (quick: the agent-switching sequence on the rich world W2; thorough: the 4
      representative sequences on both worlds); k=2 for the gates with a small subtree (all sequences of the
      tier's k=2 leg, both worlds); sub-switch leg: thorough only, the agent-switching sequence on W2."""
    out = [("stash", "turn", seqs_for(thorough, k, bname), WORLDS)]
    if gname in ROUTE_GATES:
        out.append(("plan", "turn", seqs_for(thorough, k, bname), WORLDS))
    if k == LEG_SUB:
        if thorough:
            out.append(("stash", "batch", SEQS_SMALL[1:2], ["W2"]))
    elif k == 1:
        if thorough:
            out.append(("stash", "batch", SEQS_SMALL, WORLDS))
        else:
            out.append(("stash", "batch", SEQS_SMALL[1:2], ["W2"]))
    elif k2_on_batch(n_leaves):
        out.append(("stash", "batch", SEQS_SMALL if thorough else SEQS_SMALL[:3], WORLDS))
    return out


def _vtag(route: str, entry: str) -> str:
    """signature / outcome suffix of a non-default variant"""
    t = ""
    if entry != "turn":
        t += "@" + entry
    if route != "stash":
        t += "@" + route
    return t


# ----------------------------------------------------------------------------- execution + observation
_IDENTITY = {"t1.jsonl", "t2.jsonl", "t4.jsonl", "apply.jsonl", "turn.jsonl"}
# raw wall-clock fields in the NON-canonical streams (CI normalisation only touches the identity logs and
# t3_reflection.jsonl); exactly these are masked.  gel.jsonl / scheduler.jsonl only exist in bases where that
# feature is ON in both runs.
_MS_MASK = {
    "t3.jsonl": ("ms_plan", "ms_rag", "ms_speak"),
    "t3_plan.jsonl": ("ms_deliberate", "ms_rag"),
    "t3_dialogue.jsonl": ("ms",),
    "gel.jsonl": ("ms",),
    "scheduler.jsonl": ("consumed.ms",),
}


def _mask_stream(name: str, data: bytes) -> bytes:
    fields = _MS_MASK.get(name)
    if not fields:
        return data
    out = []
    for ln in data.decode("utf-8").splitlines():
        try:
            rec = json.loads(ln)
        except Exception:
            out.append(ln)
            continue
        for f in fields:
            cur = rec
            parts = f.split(".")
            for p in parts[:-1]:
                cur = cur.get(p) if isinstance(cur, dict) else None
            if isinstance(cur, dict) and parts[-1] in cur:
                cur[parts[-1]] = 0
        out.append(json.dumps(rec, ensure_ascii=False))
    return ("\n".join(out) + "\n").encode("utf-8")


def _tree(root: str) -> Dict[str, bytes]:
    """relative path -> bytes for files, 'dir/' -> b'' for directories (so an empty trace dir is seen)."""
    out: Dict[str, bytes] = {}
    rb = root.encode()
    for dp, dns, fns in os.walk(root):
        rel = os.path.relpath(dp, root)
        if rel != ".":
            out[rel + "/"] = b""
        for fn in fns:
            p = os.path.join(dp, fn)
            r = os.path.relpath(p, root)
            with open(p, "rb") as f:
                data = f.read().replace(rb, ROOT.encode())
            if os.path.dirname(r) == "logs":
                data = _mask_stream(fn, data)
            out[r] = data
    return out


def _planner_requesting_reflection(ctx, state, bundle):
    """route "plan": the repository's own rule-based planner, its plan marked as asking for a reflection pass"""
    plan = W.orch_core.deliberate(bundle)
    plan.reflection = True
    return plan


_DEFAULT_ENC: List[Any] = []


def _default_encoder():
    if not _DEFAULT_ENC:
        try:
            from clematis.adapters.embeddings import BGEAdapter
            _DEFAULT_ENC.append(BGEAdapter(dim=32))
        except Exception as e:
            raise HarnessError("seam missing: clematis.adapters.embeddings.BGEAdapter(dim=32): %r" % (e,))
    return _DEFAULT_ENC[0]


def _reset_driver_state() -> None:
    """the batch driver switches log staging on in a context variable; an execution that dies inside the driver
    leaves it on -- the harness owns that state between executions"""
    try:
        W.orch_pkg.disable_staging()
    except Exception as e:
        raise HarnessError("cannot reset log staging: %r" % (e,))


def execute(scratch: str, world: str, raw: dict, turns, tag: str, route: str = "stash",
            entry: str = "turn") -> Dict[str, Any]:
    """One execution of the real orchestrator.  Everything the run writes lands under one scratch root:
    logs/ (CLEMATIS_LOG_DIR), snaps/ (t4.snapshot_dir), cwd/ (process working directory, for relative default
    paths such as logs/quality) and whatever <ROOT>/... path a leaf names."""
    if route not in ROUTES or entry not in ENTRIES:
        raise HarnessError("unknown variant route=%r entry=%r" % (route, entry))
    W.reset_globals()
    _reset_driver_state()
    ex = W.Exec(scratch, tag)
    ex.activate()
    # the snapshot sidecar (.meta) stamps created_at from the wall clock unless SOURCE_DATE_EPOCH is set
    os.environ["SOURCE_DATE_EPOCH"] = str(W.NOW_MS // 1000)
    cwd = os.path.join(ex.root, "cwd")
    os.makedirs(cwd)
    old = os.getcwd()
    os.chdir(cwd)
    obs: Dict[str, Any] = {"lines": [], "per": [], "error": None}
    hook_installed = False
    try:
        cfg = W.make_cfg(None, snap_dir=ex.snap_dir, base=_subst(raw, ex.root))
        state = W.make_world(world)
        # the planner's reflection request is set in every scenario, so that t3.allow_reflection is the ONLY
        # barrier in front of the reflection pass; reflection writes go to
        # state["memory_index"] (a separate, initially empty index: the reflection embedder is 32-dimensional,
        # the world's retrieval vectors are 5-dimensional), which state_digest covers.
        if route == "stash":       # left on state by the LLM planner path
            state["_planner_reflection_flag"] = True
        else:                      # carried by the plan object (planner override hook of the orchestrator package)
            if "t3_deliberate" in vars(W.orch_pkg):
                raise HarnessError("orchestrator.t3_deliberate is already set (leaked from an earlier execution)")
            setattr(W.orch_pkg, "t3_deliberate", _planner_requesting_reflection)
            hook_installed = True
        state["memory_index"] = InMemoryIndex()
        if world == "W2":
            # W2 carries GEL edges from an earlier GEL-on session; the boot hook would reset state["graph"] (empty snapshot
            # directory), so it is marked as already booted: snapshots then contain those edges while the gate is closed
            state["_boot_loaded"] = True
        if entry == "turn":
            for i, (agent, text) in enumerate(turns, start=1):
                ctx = W.make_ctx(cfg, agent, i)
                try:
                    res = W.run_turn(ctx, state, text)
                except Exception as e:  # an exception is an observable effect, too
                    obs["error"] = "turn%d:%s" % (i, type(e).__name__)
                    obs["error_msg"] = repr(e)[:200]
                    break
                obs["lines"].append(res.line)
                obs["per"].append(W.jd(W.state_digest(state)))
        else:
            # the driver clones the context per agent WITHOUT ctx.enc, so the turns embed their query with the
            # engine's default 32-dimensional adapter: the world's episode vectors are re-embedded with that same
            # adapter (the world is otherwise unchanged)
            for ep in state["mem_index"]._eps:
                ep["vec_full"] = _default_encoder().encode([ep.get("text", "")])[0]
            tasks = [(str(agent), str(text)) for agent, text in turns]
            ctx = W.make_ctx(cfg, tasks[0][0], 1)
            try:
                results = W.orch_pkg._run_agents_parallel_batch(ctx, state, tasks)
                obs["lines"] = [getattr(r, "line", None) for r in results]
            except Exception as e:
                obs["error"] = "batch:%s" % type(e).__name__
                obs["error_msg"] = repr(e)[:200]
            obs["per"].append(W.jd(W.state_digest(state)))
        obs["tree"] = _tree(ex.root)
    finally:
        if hook_installed:
            try:
                delattr(W.orch_pkg, "t3_deliberate")
            except AttributeError:
                pass
        _reset_driver_state()
        os.chdir(old)
        ex.close()
    return obs


def _first_json_diff(a: bytes, b: bytes) -> str:
    """name of the first top-level JSON field that differs between two JSONL byte strings"""
    la, lb = a.decode("utf-8", "replace").splitlines(), b.decode("utf-8", "replace").splitlines()
    for i in range(max(len(la), len(lb))):
        x = la[i] if i < len(la) else None
        y = lb[i] if i < len(lb) else None
        if x == y:
            continue
        if x is None or y is None:
            return "line-count"
        try:
            jx, jy = json.loads(x), json.loads(y)
            for k in list(jx.keys()) + [k for k in jy.keys() if k not in jx]:
                if jx.get(k, "<absent>") != jy.get(k, "<absent>"):
                    return str(k)
            return "key-order"
        except Exception:
            return "bytes"
    return "bytes"


def diff(ref: Dict[str, Any], var: Dict[str, Any], allowed_extra=()) -> Optional[Tuple[str, str]]:
    """None if observationally equal, else (artefact class for the signature, detail)."""
    if ref["error"] != var["error"]:
        return ("exception:%s" % (var["error"] or "none").split(":")[-1],
                "variant raised %s (%s), reference %s" % (var["error"], var.get("error_msg"), ref["error"]))
    tr, tv = ref["tree"], var["tree"]
    if allowed_extra:
        tv = {k: v for k, v in tv.items() if not any(k == a or k.startswith(a) for a in allowed_extra)}
    extra = sorted(k for k in tv if k not in tr)
    if extra:
        # report the deepest distinctive entry (a file if there is one)
        files = [k for k in extra if not k.endswith("/")]
        k = files[0] if files else extra[0]
        return ("created:%s" % k, "the run with the subtree created %s (all new entries: %s)" % (k, extra[:6]))
    missing = sorted(k for k in tr if k not in tv)
    if missing:
        return ("missing:%s" % missing[0], "the run with the subtree did not write %s" % missing[:6])
    if ref["lines"] != var["lines"]:
        return ("utterance", "utterances %r != %r" % (var["lines"], ref["lines"]))
    for k in sorted(tr):
        if tr[k] != tv[k]:
            if k.startswith("logs/"):
                fld = _first_json_diff(tr[k], tv[k])
                return ("log:%s:%s" % (os.path.basename(k), fld), "%s differs in field %s" % (k, fld))
            if k.startswith("snaps/"):
                return ("snapshot:%s" % os.path.basename(k).split("_")[0], "snapshot file %s differs" % k)
            return ("file:%s" % k, "file %s differs" % k)
    for i, (x, y) in enumerate(zip(ref["per"], var["per"]), start=1):
        if x != y:
            jx, jy = json.loads(x), json.loads(y)
            key = next((kk for kk in jx if jx.get(kk) != jy.get(kk)), "?")
            return ("state:%s" % key, "state after turn %d differs in %s" % (i, key))
    return None


def shadow_gate_open(vcfg: dict) -> bool:
    """docs/m7: rq_traces.jsonl is emitted iff perf.enabled && perf.metrics.report_memory && t2.quality.shadow
    && !t2.quality.enabled -- i.e. the shadow trace sits behind the PERF gate, with the quality gate closed."""
    return bool(_get_path(vcfg, "perf.enabled", False) and _get_path(vcfg, "perf.metrics.report_memory", False)
                and _get_path(vcfg, "t2.quality.shadow", False) and not _get_path(vcfg, "t2.quality.enabled", False))


def forbidden_artefacts(vcfg: dict, tree: Dict[str, bytes]) -> List[Tuple[str, str]]:
    """Absolute clause of the property: (gate, path) of every artefact of a feature whose gate is OFF in vcfg."""
    out: List[Tuple[str, str]] = []
    perf_on = bool(_get_path(vcfg, "perf.enabled", False))
    trace_ok = bool(perf_on and _get_path(vcfg, "perf.metrics.report_memory", False)
                    and (_get_path(vcfg, "t2.quality.shadow", False) or _get_path(vcfg, "t2.quality.enabled", False)))
    for k in sorted(tree):
        name = os.path.basename(k.rstrip("/"))
        if k == "logs/gel.jsonl" and not _get_path(vcfg, "graph.enabled", False):
            out.append(("graph", k))
        elif k == "logs/t3_reflection.jsonl" and not _get_path(vcfg, "t3.allow_reflection", False):
            out.append(("reflection", k))
        elif k == "logs/scheduler.jsonl" and not _get_path(vcfg, "scheduler.enabled", False):
            out.append(("scheduler", k))
        elif not perf_on and (k.startswith("logs/perf/") or name.endswith("-perf.jsonl")):
            out.append(("perf", k))
        elif name == "rq_traces.jsonl" and not trace_ok:
            out.append(("quality", k))
    return out


def allowed_extra_for(raw: dict, vcfg: dict, ref_vcfg: dict) -> Tuple[str, ...]:
    if shadow_gate_open(vcfg) and not shadow_gate_open(ref_vcfg):
        td = _get_path(vcfg, "t2.quality.trace_dir", "logs/quality")
        if isinstance(td, str) and td.startswith("/nonexistent-c02/"):
            rel = td[len("/nonexistent-c02/"):]
        else:
            rel = os.path.join("cwd", str(td))
        # every ancestor directory of the trace dir that the emitter has to create, plus the trace file
        out = []
        parts = rel.strip("/").split("/")
        for i in range(1, len(parts) + 1):
            out.append("/".join(parts[:i]) + "/")
        return tuple(a for a in out if a != "cwd/")
    return ()


# ----------------------------------------------------------------------------- reference store
def _ref_key(gname: str, bname: str, world: str, seq, route: str = "stash", entry: str = "turn") -> str:
    g = gname if bname == "allon" else "-"
    return "%016x" % h64([g, bname, world, seq, route, entry])


_REF_MEMO: Dict[str, Any] = {}


def _load_ref(scratch: str, key: str):
    if key not in _REF_MEMO:
        with open(os.path.join(scratch, "refs", key + ".pkl"), "rb") as f:
            _REF_MEMO[key] = pickle.load(f)
    return _REF_MEMO[key]


def _ref_worker(chunk, st: Stats, scratch: str):
    _quiet()
    wdir = os.path.join(scratch, "w%d" % os.getpid())
    os.makedirs(wdir, exist_ok=True)
    for gname, bname, raw, world, seq, route, entry in chunk:
        a = execute(wdir, world, raw, seq, "ref", route, entry)
        b = execute(wdir, world, raw, seq, "ref", route, entry)
        st.add("transitions", 2 * len(seq))
        st.add("reference_runs", 2)
        st.distinct("variants", [route, entry])
        vt = _vtag(route, entry)
        # absolute clause: no artefact of a feature whose gate is off, even without any subtree
        vcfg = _validate(raw)
        bad = forbidden_artefacts(vcfg, a.get("tree", {})) + forbidden_artefacts(vcfg, b.get("tree", {}))
        st.add("validated", 2)
        for g2, path in bad:
            st.violation("%s:-:artefact:%s%s" % (g2, path, vt),
                         "base %s (gate of %s OFF, subtree absent), %s, turns %s, entry=%s route=%s: artefact %s was "
                         "written" % (bname, g2, world, seq, entry, route, path),
                         {"gate": gname, "base": bname, "assign": [], "world": world, "turns": seq,
                          "route": route, "entry": entry})
            st.distinct("outcomes", "artefact-with-gate-off:%s" % path)
        d = diff(a, b)
        if d is not None and not bad:
            raise HarnessError("harness nondeterministic: base %s world %s seq %s entry=%s route=%s: %s" % (
                bname, world, seq, entry, route, d))
        if a["error"] and not bad:
            raise HarnessError("reference run raised on base %s world %s seq %s entry=%s route=%s: %s %s" % (
                bname, world, seq, entry, route, a["error"], a.get("error_msg")))
        if d is not None or a["error"]:
            a = None  # unusable as a reference (already reported as a violation above)
        with open(os.path.join(scratch, "refs", _ref_key(gname, bname, world, seq, route, entry) + ".pkl"), "wb") as f:
            pickle.dump(a, f)
        if a is not None:
            st.distinct("ref_logsets", sorted(k for k in a["tree"] if k.startswith("logs/")))
    shutil.rmtree(wdir, ignore_errors=True)


def _quiet():
    import logging
    import warnings
    logging.disable(logging.CRITICAL)
    warnings.simplefilter("ignore")


# ----------------------------------------------------------------------------- the check of one case
def _validate(raw: dict) -> Optional[dict]:
    try:
        return V.validate_config(_subst(raw, "/nonexistent-c02"))
    except ConfigError:
        return None


def check_case(scratch: str, gname: str, base_raw: dict, assign, world: str, seq, ref=None, ref_v=None,
               var_v=None, route: str = "stash", entry: str = "turn") -> Optional[Tuple[str, str]]:
    """Differential of one (gate, base, assignment, world, sequence, route, entry).  Returns (artefact, detail) or None."""
    if ref_v is None:
        ref_v = _validate(base_raw)
    raw = raw_for(base_raw, assign)
    if var_v is None:
        var_v = _validate(raw)
    if var_v is None:
        return None
    if ref is None:
        ref = execute(scratch, world, base_raw, seq, "ref", route, entry)
    var = execute(scratch, world, raw, seq, "var", route, entry)
    return diff(ref, var, allowed_extra_for(raw, var_v, ref_v))


def _sig(gname: str, assign, artefact: str, route: str = "stash", entry: str = "turn") -> str:
    return "%s:%s:%s%s" % (gname, "+".join(sorted(p for p, _ in assign)), artefact, _vtag(route, entry))


def _assign_worker(chunk, st: Stats, scratch: str, thorough: bool):
    _quiet()
    wdir = os.path.join(scratch, "w%d" % os.getpid())
    os.makedirs(wdir, exist_ok=True)
    base_cache: Dict[Tuple[str, Any], Dict[str, dict]] = {}
    refv_cache: Dict[Tuple[str, str], Tuple[dict, str]] = {}
    for gname, assign, k, n_leaves in chunk:
        bkey = (gname, k)
        if bkey not in base_cache:
            base_cache[bkey] = bases_for_leg(gname, k, thorough)
        gate = GATES[gname]["gate"]
        executed_any = False
        # a sub-switch pair that the k=2 leg of this tier enumerates as well: on the k=2 bases, the (route, entry)
        # variants of the k=2 leg (whose sequences and worlds include this leg's) are not executed a second time
        dup_of_k2 = (k == LEG_SUB and 2 in ks_for(gname, n_leaves, thorough) and in_pair_leg(gname, assign))
        for bname, base_raw in base_cache[bkey].items():
            done_by_k2 = set()
            if dup_of_k2 and bname in K2_BASES:
                done_by_k2 = {(r, e) for r, e, _s, _w in variants_for(gname, 2, bname, n_leaves, thorough)}
            if any(_has_path(base_raw, p) for p, _ in assign):
                st.add("skipped_leaf_already_set_by_base")
                continue
            rk = (gname, bname)
            if rk not in refv_cache:
                rv = _validate(base_raw)
                refv_cache[rk] = (rv, W.jd(rv))
            ref_v, ref_vj = refv_cache[rk]
            if not applicable(gname, assign, ref_v):
                st.add("skipped_leaf_governed_by_an_open_gate_in_base")
                continue
            raw = raw_for(base_raw, assign)
            var_v = _validate(raw)
            if var_v is None:
                st.add("rejected_by_validator")
                st.distinct("outcomes", "rejected-by-validator")
                st.distinct("rejected_assignments", [gname, assign])
                continue
            if _get_path(var_v, gate, False):
                raise HarnessError("enumeration bug: %s opened gate %s" % (assign, gate))
            if W.jd(var_v) == ref_vj:
                # the engine would receive the very same validated configuration: nothing to execute
                st.add("config_identical_to_reference")
                st.distinct("outcomes", "validated-config-identical")
                continue
            allowed = allowed_extra_for(raw, var_v, ref_v)
            for route, entry, seqs, worlds in variants_for(gname, k, bname, n_leaves, thorough):
              default_variant = (route, entry) == DEFAULT_VARIANT
              if (route, entry) in done_by_k2:
                  st.add("skipped_variant_executed_by_the_k2_leg")
                  continue
              for world in worlds:
                for seq in seqs:
                    ref = _load_ref(scratch, _ref_key(gname, bname, world, seq, route, entry))
                    if ref is None:
                        st.add("skipped_reference_unusable")
                        continue
                    var = execute(wdir, world, raw, seq, "var", route, entry)
                    executed_any = True
                    st.add("transitions", len(seq))
                    st.add("validated")
                    st.add("validated_entry_%s_route_%s" % (entry, route))
                    if k == LEG_SUB:
                        st.add("validated_subswitch_leg")
                    st.distinct("states", [gname, bname, assign, world, seq] + ([] if default_variant else [route, entry]))
                    d = diff(ref, var, allowed)
                    case = {"gate": gname, "base": bname, "assign": assign, "world": world, "turns": seq,
                            "route": route, "entry": entry}
                    if d is None:
                        st.distinct("outcomes", "equal" + (":shadow-trace-behind-open-perf-gate" if allowed else ""))
                        if allowed:
                            st.add("shadow_trace_expected")
                        continue
                    art, detail = d
                    min_assign = assign
                    if len(assign) > 1:  # minimise: does one of the leaves alone already fail?
                        for sub in assign:
                            if any(_has_path(base_raw, p) for p, _ in [sub]):
                                continue
                            ds = check_case(wdir, gname, base_raw, [sub], world, seq, ref=ref, ref_v=ref_v,
                                            route=route, entry=entry)
                            st.add("transitions", len(seq))
                            if ds is not None:
                                min_assign, (art, detail) = [sub], ds
                                break
                    case["assign"] = min_assign
                    sig = _sig(gname, min_assign, art, route, entry)
                    st.distinct("outcomes", "differs:" + sig)
                    st.add("differing_runs")
                    st.violation(sig, "gate %s OFF, base %s, %s, turns %s, entry=%s route=%s: with %s %s" % (
                        gate, bname, world, seq, entry, route, json.dumps(dict(min_assign)), detail), case)
        if executed_any:
            st.distinct("nontrivial", [gname, assign])
            if h64([gname, assign]) % 257 == 0:
                st.sample({"gate": gname, "assign": assign, "k": k})
    shutil.rmtree(wdir, ignore_errors=True)


# ----------------------------------------------------------------------------- enumeration
def assignments(gname: str, leaves: List[str], k: int, thorough: bool) -> List[List[List[Any]]]:
    out: List[List[List[Any]]] = []
    if k == 1:
        for leaf in leaves:
            for v in menu_for(gname, leaf):
                out.append([[leaf, v]])
    elif k == LEG_SUB:
        seen = set()
        for sw, block in sub_switches(gname, leaves, thorough):
            for p in block:
                for v in menu_for(gname, p):
                    a = sorted([[sw, True], [p, v]], key=lambda x: x[0])
                    key = W.jd(a)
                    if key not in seen:
                        seen.add(key)
                        out.append(a)
    else:
        for la, lb in itertools.combinations(leaves, 2):
            # pairs use the two most active values of each leaf
            for va in menu_for(gname, la)[:2]:
                for vb in menu_for(gname, lb)[:2]:
                    out.append([[la, va], [lb, vb]])
    return out


def run(run: Run) -> None:
    os.makedirs(os.path.join(run.scratch, "refs"), exist_ok=True)
    leaves_by_gate: Dict[str, List[str]] = {}
    untyped: List[str] = []
    for g in GATES:
        leaves_by_gate[g], unk = derive_leaves(g)
        untyped.extend(unk)
    stale = sorted(m for m in MENU if not any(m in ls for ls in leaves_by_gate.values()))
    run.notes["leaves_per_gate"] = {g: len(v) for g, v in leaves_by_gate.items()}
    run.notes["leaves_without_typed_menu(probed with universal menu)"] = untyped
    run.notes["menu_entries_not_in_validator_tables"] = stale

    ks_by_gate = {g: ks_for(g, len(leaves_by_gate[g]), run.thorough) for g in GATES}
    run.notes["k_per_gate"] = ks_by_gate
    # references: every (base, world, sequence, route, entry) that will be compared against, each executed twice
    ref_items = []
    seen = set()
    n_variant_refs: Dict[str, int] = {}
    for g in GATES:
        nl = len(leaves_by_gate[g])
        for k in ks_by_gate[g]:
            for bname, raw in bases_for_leg(g, k, run.thorough).items():
                for route, entry, seqs, worlds in variants_for(g, k, bname, nl, run.thorough):
                    for world in worlds:
                        for seq in seqs:
                            key = _ref_key(g, bname, world, seq, route, entry)
                            if key not in seen:
                                seen.add(key)
                                ref_items.append((g, bname, raw, world, seq, route, entry))
                                vk = "entry=%s,route=%s" % (entry, route)
                                n_variant_refs[vk] = n_variant_refs.get(vk, 0) + 1
    run.notes["reference_scenarios"] = len(ref_items)
    run.notes["reference_scenarios_per_variant"] = n_variant_refs
    run.pmap(_ref_worker, ref_items, extra=(run.scratch,))

    items = []
    n_assign = {}
    for g in GATES:
        for k in ks_by_gate[g]:
            a = assignments(g, leaves_by_gate[g], k, run.thorough)
            n_assign["%s:k=%s" % (g, k)] = len(a)
            items.extend((g, x, k, len(leaves_by_gate[g])) for x in a)
    run.notes["assignments"] = n_assign
    run.notes["sub_switches_per_gate"] = {g: [sw for sw, _ in sub_switches(g, leaves_by_gate[g], run.thorough)]
                                          for g in GATES}
    run.notes["bases_per_gate"] = {g: sorted(bases_for(g, quick=not run.thorough)) for g in GATES}
    # interleave cheap and expensive items deterministically
    items.sort(key=lambda it: h64([it[0], it[1]]))
    run.pmap(_assign_worker, items, extra=(run.scratch, run.thorough), chunks=min(len(items), 16 * 12))

    if run.thorough:
        scope = ("k=1: every menu value x every base of the menu with the gate OFF (incl. 'all other gates ON') x "
                 "worlds {W1,W2} x 4 representative 2-turn sequences, and ALL 36 two-turn sequences over agents {A,B} "
                 "x texts {apple, pear fig, zzz} on base 'base'; k=2: every pair of leaves x the two most active "
                 "values of each x bases {'base', 'all other gates ON'} x {W1,W2} x 4 sequences")
    else:
        scope = ("k=1: every menu value x the 10 main bases with the gate OFF (incl. 'all other gates ON') x worlds "
                 "{W1,W2} x 3 representative 2-turn sequences over agents {A,B} x texts {apple, pear fig, zzz}; k=2 "
                 "(every pair of leaves x the two most active values of each x bases {'base', 'all other gates ON'}) "
                 "for the gates whose subtree has <= %d leaves (%s), because a gate predicate may be a conjunction of "
                 "several leaves of the closed subtree" % (
                     K2_QUICK_MAX_LEAVES, ", ".join(g for g in GATES if 2 in ks_by_gate[g]) or "none"))
    n_sw = {g: len(run.notes["sub_switches_per_gate"][g]) for g in GATES}
    scope += ("; sub-switch leg: for every sub-switch s of the subtree (%s; %s) and every other leaf p of s's own block "
              "(leaves below s's parent, nested blocks included) the pair {s: true, p: v} for EVERY menu value v of p, on "
              "%s x {W1,W2} x the tier's representative sequences%s (pairs the k=2 leg of this tier executes on a base "
              "are not executed twice)" % (
                  "every boolean leaf other than the gate leaves" if run.thorough
                  else "every leaf named `enabled` other than the gate leaves",
                  ", ".join("%s: %d" % (g, n) for g, n in n_sw.items()),
                  "every base of the menu with the gate OFF" if run.thorough
                  else "bases {'base', 'all other gates ON'}",
                  ", and through the batch driver (agent-switching sequence, W2)" if run.thorough else ""))
    scope += ("; entry points: every case above through Orchestrator.run_turn per turn, every k=1 case ALSO through the "
              "agent batch driver _run_agents_parallel_batch (the sequence as one batch; %s), k=2 through the batch "
              "driver for the small-subtree gates; planner request routes: stashed state flag everywhere, and for the "
              "reflection gate every case ALSO with a planner whose plan carries reflection=True (hook "
              "orchestrator.t3_deliberate around the real deliberate())" % (
                  "the 4 representative sequences, both worlds" if run.thorough
                  else "the agent-switching sequence on world W2"))
    run.rule = (
        "for each of the 7 gates: every assignment of the gate's subtree (leaves derived from the ALLOWED_* tables of "
        "configs/validate.py) with <=k leaves set, validated by validate_config (rejections counted and skipped); "
        + scope + "; each execution of the real orchestrator is compared (utterances, complete file tree incl. "
        "directory listing, state_digest after every turn) with the same base without the subtree; every reference "
        "is executed twice (determinism) and checked for artefacts of features whose gate is off. non-trivial = an "
        "assignment whose validated configuration differs from the reference's and that was executed")
    run.assume("sub-switch leg: a sub-feature switch inside a closed subtree is an ordinary leaf of that subtree "
               "(validate_config accepts e.g. t2.quality.enabled=false with t2.quality.mmr.enabled=true, at most with a "
               "warning), so setting it together with one of its parameters must be as inert as any other assignment")
    run.assume("committed reading of subtree boundaries (DESIGN C02): parallel gate = perf.parallel.enabled "
               "(perf.enabled not required); scheduler.budgets.{time_ms,ops}_reflection belong to the reflection gate")
    run.assume("the quality shadow trace (rq_traces.jsonl) sits behind the PERF gate (docs/m7: perf.enabled && "
               "perf.metrics.report_memory && t2.quality.shadow && !t2.quality.enabled): when that documented triple "
               "gate is open in the variant the trace directory is the one expected extra artefact, everything else "
               "must still be identical; when it is closed no trace directory may appear")
    run.assume("every scenario carries a planner request for reflection (so that t3.allow_reflection is the only barrier "
               "in front of reflection) -- either the stashed state flag or, for the reflection gate's legs, "
               "Plan.reflection=True -- and an empty state['memory_index'] that receives reflection writes")
    run.assume("the batch-driver entry is only explored with the agent-level driver's own switch closed in the "
               "reference (no base sets perf.parallel.agents), i.e. reference and variant are both expected to take "
               "the driver's sequential fallback; the differential is always within one entry point and one route; "
               "log staging (a context variable the driver sets) is reset by the harness around every execution")
    run.assume("raw wall-clock fields ms* of the non-canonical streams t3.jsonl, t3_plan.jsonl, t3_dialogue.jsonl "
               "(and gel.jsonl / scheduler.jsonl consumed.ms where that feature is ON in both runs) are masked; "
               "nothing else is")
    run.assume("an assignment whose validated configuration is byte-identical to the reference's is counted, not executed")


def replay(case):
    import tempfile
    _quiet()
    d = tempfile.mkdtemp(prefix="c02r-", dir="/dev/shm" if os.path.isdir("/dev/shm") else None)
    try:
        g = case["gate"]
        bases = bases_for(g)
        base_raw = bases.get(case["base"])
        if base_raw is None:
            raise HarnessError("unknown base %r for gate %s" % (case["base"], g))
        assign = [list(x) for x in case["assign"]]
        route, entry = case.get("route", "stash"), case.get("entry", "turn")
        if not assign:
            obs = execute(d, case["world"], base_raw, case["turns"], "ref", route, entry)
            return [("%s:-:artefact:%s%s" % (g2, path, _vtag(route, entry)),
                     "artefact %s written with the gate of %s off" % (path, g2))
                    for g2, path in forbidden_artefacts(_validate(base_raw), obs.get("tree", {}))]
        res = check_case(d, g, base_raw, assign, case["world"], [tuple(t) for t in case["turns"]],
                         route=route, entry=entry)
        if res is None:
            return []
        return [(_sig(g, assign, res[0], route, entry), res[1])]
    finally:
        shutil.rmtree(d, ignore_errors=True)
