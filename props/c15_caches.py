"""C15 -- bounded caches never exceed capacity, evict LRU deterministically, expire by TTL on the injected
clock, are disabled at zero capacity; the lock wrappers are linearizable; the worker merge is deterministic.

Three legs, all exhaustive inside the stated bounds, all on the real classes of /repo:

(E1) history BFS to closure (mc.explore): for every container and every capacity/TTL/flag setting of the
     alphabet, every operation of the alphabet in every reachable canonical state (internal state of the real
     object + state of a boring reference model built on OrderedDict/list; entry ages canonicalised to
     min(age, ttl+1)).  Oracle per step: return value, eviction report (callbacks), and after the step all
     read-only observers (sizes, byte total, key order, items, membership) equal the reference; capacity
     invariants; zero capacity => disabled; observers must not change the state.
     Configuration dimension of the TTL caches: LRUCache is built through every documented constructor spelling
     (max_entries|capacity x ttl_s|ttl_sec|ttl) for every (capacity, ttl) incl. the zeros, and a ttl of 0 ("never
     expires") is exercised with a far clock advance (1e9 s; entry ages near/far are part of the canonical state) so
     that a substituted default period shows.
(E3b) schedule exploration (mc.sched): 2-3 real threads x 1-2 operations on colliding keys through
     ThreadSafeCache / ThreadSafeBytesCache with an injected InstrumentedRLock and line-level scheduling
     points inside cache.py / lru_bytes.py / lru_det.py, every schedule with <= B preemptions.  Oracle: the
     returns of all operations + the final observable state equal those of SOME sequential order of the
     operations that respects each thread's program order (brute force over all such orders, executed on the
     reference model); no exception, no deadlock.
(E2) merge_caches_deterministic: every permutation of the worker list x every insertion order inside each
     worker cache, for every assignment of key sets to 0-3 workers (the degenerate cardinalities are part of the
     space: an empty worker list, a lone worker, workers that are all empty), bounded / pre-filled targets, both
     order directions, both conflict policies; worker caches plain or behind the lock wrapper.  Oracle: the target
     ends in the same state for all permutations and (first_wins) in the state the documented rule gives on the
     reference model -- the rule "keys in sorted key order" is a statement about every worker, also the only one.
"""
from __future__ import annotations

import itertools
import json
from collections import OrderedDict
from typing import Any, Dict, List, Tuple

from mc.runner import HarnessError, Run, Stats
from mc import explore, sched

import clematis.engine.cache as cache_mod
import clematis.engine.util.lru_bytes as lru_bytes_mod
import clematis.engine.util.lru_det as lru_det_mod
import clematis.engine.util.ring as ring_mod

TRACED_FILES = [cache_mod.__file__, lru_bytes_mod.__file__, lru_det_mod.__file__]


# =====================================================================================================
# helpers
# =====================================================================================================
class FakeClock:
    def __init__(self) -> None:
        self.t = 0.0

    def now(self) -> float:
        return self.t

    def advance(self, d) -> None:
        self.t += float(d)


class World:
    """impl + model (+ clock, + eviction recorder) of one system instance."""
    __slots__ = ("impl", "model", "clock", "ev", "taint")

    def __init__(self) -> None:
        self.impl = None
        self.model = None
        self.clock = None
        self.ev: list = []
        self.taint = False


def _attr(obj, name):
    try:
        return getattr(obj, name)
    except AttributeError:
        raise HarnessError("seam missing: %s has no attribute %r (canonical-state extraction)" % (type(obj).__name__, name))


def norm(x):
    """lists/tuples -> tuples, recursively (hashable, order preserving)."""
    if isinstance(x, (list, tuple)):
        return tuple(norm(y) for y in x)
    if isinstance(x, dict):
        return ("{}",) + tuple(sorted((repr(k), norm(v)) for k, v in x.items()))
    return x


def nkey(key):
    """model-side key normalisation: hashable keys are themselves, unhashable ones are identified by their
    canonical JSON (documented: 'JSON-stable key for dicts/lists/tuples when they are not hashable')."""
    try:
        hash(key)
        return key
    except TypeError:
        return ("~json", json.dumps(key, sort_keys=True))


def hkey(key):
    """JSON gives back lists for tuples: replayed cases must use the same key objects as the explorer."""
    if isinstance(key, list) and key and key[0] == "~t":
        return tuple(hkey(x) for x in key[1:])
    return key


def key_matches(impl_key, model_key) -> bool:
    if isinstance(model_key, tuple) and len(model_key) == 2 and model_key[0] == "~json":
        if not isinstance(impl_key, str):
            return False
        try:
            return json.loads(impl_key) == json.loads(model_key[1])
        except Exception:
            return False
    return impl_key == model_key


def items_match(impl_items, model_items) -> bool:
    impl_items = list(impl_items)
    if len(impl_items) != len(model_items):
        return False
    for (ik, iv), (mk, mv) in zip(impl_items, model_items):
        if not key_matches(ik, mk) or iv != mv:
            return False
    return True


class Chk(list):
    def __init__(self, kind: str, op: str) -> None:
        super().__init__()
        self.kind = kind
        self.op = op

    def bad(self, aspect: str, what: str) -> None:
        self.append(("%s:%s:%s" % (self.kind, self.op, aspect), "%s.%s: %s" % (self.kind, self.op, what)))

    def eq(self, aspect: str, label: str, got, exp) -> bool:
        if got == exp:
            return True
        if norm(got) != norm(exp):
            self.bad(aspect, "%s = %r, reference model says %r" % (label, got, exp))
            return False
        return True


# =====================================================================================================
# reference models (deliberately naive)
# =====================================================================================================
class RefLRUBytes:
    """Entry- and byte-bounded LRU.  A cap of 0 in one dimension = no limit in that dimension; both 0 =
    disabled.  An item larger than a positive byte cap is rejected (no change)."""

    def __init__(self, me: int, mb: int) -> None:
        self.me, self.mb = int(me), int(mb)
        self.d: "OrderedDict[Any, Tuple[Any, int]]" = OrderedDict()

    def total(self) -> int:
        return sum(c for _, c in self.d.values())

    def put(self, k, v, c):
        if self.me == 0 and self.mb == 0:
            return (0, 0), [], "disabled"
        c = max(0, int(c))
        if self.mb and c > self.mb:
            return (0, 0), [], "reject"
        upd = k in self.d
        if upd:
            del self.d[k]
        self.d[k] = (v, c)
        ev = []
        while (self.me and len(self.d) > self.me) or (self.mb and self.total() > self.mb):
            k0, (v0, c0) = self.d.popitem(last=False)
            ev.append((k0, v0, c0))
        return (len(ev), sum(e[2] for e in ev)), ev, ("update" if upd else "insert") + ":evict%d" % len(ev)

    def get(self, k):
        if k in self.d:
            self.d.move_to_end(k)
            return self.d[k][0], "hit"
        return None, "miss"

    def clear(self) -> None:
        self.d.clear()

    def items(self):
        return [(k, v) for k, (v, _) in self.d.items()]

    def canon(self):
        return [[k, v, c] for k, (v, c) in self.d.items()]


class RefNS:
    """Entry-bounded LRU with TTL on read.  ttl == 0: no expiry.  An entry is served while age <= ttl and is
    dropped (and reported as a miss) by a read once age > ttl."""

    def __init__(self, mx: int, ttl: int, clock: FakeClock) -> None:
        self.mx, self.ttl, self.clock = int(mx), int(ttl), clock
        self.d: "OrderedDict[Any, list]" = OrderedDict()  # key -> [ts, value]

    def expired(self, e) -> bool:
        return bool(self.ttl) and (self.clock.t - e[0]) > self.ttl

    def get(self, k):
        e = self.d.get(k)
        if e is None:
            return (False, None), "miss"
        if self.expired(e):
            del self.d[k]
            return (False, None), "expired"
        self.d.move_to_end(k)
        return (True, e[1]), "hit"

    def set(self, k, v):
        upd = k in self.d
        self.d[k] = [self.clock.t, v]
        self.d.move_to_end(k)
        n = 0
        while len(self.d) > self.mx:
            self.d.popitem(last=False)
            n += 1
        return n, ("update" if upd else "insert") + ":evict%d" % n

    def contains_prune(self, k):
        e = self.d.get(k)
        if e is None:
            return False, "absent"
        if self.expired(e):
            del self.d[k]
            return False, "expired"
        return True, "present"

    def items_prune(self):
        out = []
        n = 0
        for k in list(self.d):
            e = self.d[k]
            if self.expired(e):
                del self.d[k]
                n += 1
            else:
                out.append((k, e[1]))
        return out, "pruned%d" % min(n, 2)

    def items_raw(self):
        return [(k, e[1]) for k, e in self.d.items()]

    def invalidate(self) -> int:
        n = len(self.d)
        self.d.clear()
        return n

    def age(self, ts):
        """canonical age class of an entry stamped ``ts`` (used for the model's AND the real object's entries)"""
        if not self.ttl:
            return 0 if (self.clock.t - ts) < FAR_ADVANCE else FAR_ADVANCE
        return min(self.clock.t - ts, self.ttl + 1)

    def canon(self):
        return [[repr(k), e[1], self.age(e[0])] for k, e in self.d.items()]


class RefLRUCache:
    def __init__(self, mx: int, ttl: int, clock: FakeClock) -> None:
        self.ns = RefNS(mx, ttl, clock)
        self.hits = self.misses = self.evicted = 0

    def get2(self, key):
        r, o = self.ns.get(nkey(key))
        if r[0]:
            self.hits += 1
        else:
            self.misses += 1
        return r, o

    def get(self, key):
        r, o = self.get2(key)
        return (r[1] if r[0] else None), o

    def set(self, key, v):
        n, o = self.ns.set(nkey(key), v)
        self.evicted += n
        return None, o

    def contains(self, key):
        return self.ns.contains_prune(nkey(key))

    def items(self):
        return self.ns.items_prune()

    def invalidate(self):
        return self.ns.invalidate()

    def stats(self):
        return {"hits": self.hits, "misses": self.misses, "evicted": self.evicted, "size": len(self.ns.d)}

    def canon(self):
        return self.ns.canon()


class RefCacheManager:
    def __init__(self, mx: int, ttl: int, clock: FakeClock) -> None:
        self.mx, self.ttl, self.clock = mx, ttl, clock
        self.nss: Dict[str, RefNS] = {}
        self.hits = self.misses = self.evicted = 0

    def _ns(self, ns) -> RefNS:
        if ns not in self.nss:
            self.nss[ns] = RefNS(self.mx, self.ttl, self.clock)
        return self.nss[ns]

    def get(self, ns, key):
        r, o = self._ns(ns).get(nkey(key))
        if r[0]:
            self.hits += 1
        else:
            self.misses += 1
        return r, o

    def set(self, ns, key, v):
        n, o = self._ns(ns).set(nkey(key), v)
        self.evicted += n
        return None, o

    def invalidate_namespace(self, ns):
        if ns not in self.nss:
            return 0
        return self.nss[ns].invalidate()

    def invalidate_all(self):
        return sum(n.invalidate() for n in self.nss.values())

    def stats(self):
        return {"hits": self.hits, "misses": self.misses, "evicted": self.evicted,
                "size": sum(len(n.d) for n in self.nss.values())}

    def canon(self):
        return sorted([ns, n.canon()] for ns, n in self.nss.items() if n.d)


class RefDetLRU:
    def __init__(self, cap: int, uog: bool, uop: bool) -> None:
        self.cap, self.uog, self.uop = max(0, int(cap)), bool(uog), bool(uop)
        self.d: "OrderedDict[Any, Any]" = OrderedDict()

    def get(self, k, default=None):
        if self.cap == 0 or k not in self.d:
            return default, "miss"
        if self.uog:
            self.d.move_to_end(k)
        return self.d[k], "hit"

    def put(self, k, v):
        if self.cap == 0:
            return None, [], "disabled"
        if k in self.d:
            self.d[k] = v
            if self.uop:
                self.d.move_to_end(k)
            return None, [], "update"
        self.d[k] = v
        ev = []
        while len(self.d) > self.cap:
            ev.append(self.d.popitem(last=False))
        return (ev[-1] if ev else None), ev, "insert:evict%d" % len(ev)

    def pop_lru(self):
        if self.cap == 0 or not self.d:
            return None, "empty"
        return self.d.popitem(last=False), "popped"

    def clear(self):
        self.d.clear()

    def items(self):
        return list(self.d.items())

    def canon(self):
        return [[k, v] for k, v in self.d.items()]


class RefFifoSet:
    def __init__(self, cap: int) -> None:
        self.cap = max(0, int(cap))
        self.l: list = []

    def add(self, x):
        if self.cap == 0:
            return False, "disabled"
        if x in self.l:
            return False, "present"
        self.l.append(x)
        ev = False
        while len(self.l) > self.cap:
            self.l.pop(0)
            ev = True
        return ev, "insert:evict%d" % int(ev)

    def canon(self):
        return list(self.l)


class RefRing:
    def __init__(self, k: int) -> None:
        self.k = max(0, int(k))
        self.l: list = []

    def add(self, x):
        if self.k == 0:
            return "disabled"
        n = 0
        while len(self.l) >= self.k:
            self.l.pop(0)
            n += 1
        self.l.append(x)
        return "add:evict%d" % n

    def canon(self):
        return list(self.l)


# =====================================================================================================
# E1 systems
# =====================================================================================================
class _Sys:
    kind = "?"
    clone_ok = False

    def __init__(self, **p) -> None:
        self.p = p
        self.name = "%s(%s)" % (self.kind, ",".join("%s=%s" % (k, json.dumps(v, sort_keys=True)) for k, v in sorted(p.items())))
        self._ops = None

    def describe(self):
        d = {"sys": self.kind}
        d.update(self.p)
        return d

    def ops(self, w):
        if self._ops is None:
            self._ops = self.alphabet()
        return self._ops

    def raised(self, op, e):
        return [("%s:%s:raises:%s" % (self.kind, op[0], type(e).__name__),
                 "%s.%s%r raised %r" % (self.kind, op[0], tuple(op[1:]), e))], "raises"


class LRUBytesSys(_Sys):
    kind = "lrubytes"

    def alphabet(self):
        ops = []
        for k in self.p["keys"]:
            for c in self.p["costs"]:
                for t in self.p["vals"]:
                    ops.append(["put", k, "%s%d%s" % (k.upper(), c, t), c])
            ops.append(["get", k])
        ops.append(["get", "zz"])
        ops.append(["clear"])
        return ops

    def fresh(self):
        w = World()
        w.ev = []
        w.impl = lru_bytes_mod.LRUBytes(self.p["me"], self.p["mb"], on_evict=_Rec(w.ev))
        w.model = RefLRUBytes(self.p["me"], self.p["mb"])
        return w

    def step(self, w, op, check):
        me, mb = self.p["me"], self.p["mb"]
        c = Chk(self.kind, op[0])
        del w.ev[:]
        impl, m = w.impl, w.model
        try:
            if op[0] == "put":
                exp, mev, out = m.put(op[1], op[2], op[3])
                got = impl.put(op[1], op[2], op[3])
                if check:
                    c.eq("return", "put%r -> (evicted_n, evicted_bytes)" % (tuple(op[1:]),), got, exp)
                    c.eq("evictions", "on_evict calls (LRU first)", list(w.ev), mev)
            elif op[0] == "get":
                exp, out = m.get(op[1])
                got = impl.get(op[1])
                if check:
                    c.eq("return", "get(%r)" % (op[1],), got, exp)
            elif op[0] == "clear":
                m.clear()
                impl.clear()
                out = "clear"
            else:
                raise HarnessError("unknown op %r" % (op,))
            if check:
                before = self.canon(w)
                keys = list(self.p["keys"])
                c.eq("contains", "contains() per key %r" % keys, [impl.contains(k) for k in keys], [k in m.d for k in keys])
                c.eq("contains", "`in` per key %r" % keys, [(k in impl) for k in keys], [k in m.d for k in keys])
                ne, nb = impl.size_entries(), impl.size_bytes()
                if me and ne > me:
                    c.bad("capacity-entries", "%d entries stored, max_entries=%d" % (ne, me))
                if mb and nb > mb:
                    c.bad("capacity-bytes", "%d bytes accounted, max_bytes=%d" % (nb, mb))
                if me == 0 and mb == 0 and (ne or nb or list(impl.keys())):
                    c.bad("disabled", "both caps zero but cache holds %d entries / %d bytes" % (ne, nb))
                c.eq("size", "size_entries()", ne, len(m.d))
                c.eq("size", "len()", len(impl), len(m.d))
                c.eq("bytes", "size_bytes() (sum of the costs of the stored items is %d)" % m.total(), nb, m.total())
                c.eq("order", "keys() LRU->MRU", list(impl.keys()), list(m.d.keys()))
                c.eq("items", "items() LRU->MRU", list(impl.items()), m.items())
                if self.canon(w) != before:
                    c.bad("observer-mutates", "read-only observers (contains/size/keys/items) changed the state")
        except HarnessError:
            raise
        except Exception as e:  # noqa
            return self.raised(op, e)
        return c[:1], out

    def canon(self, w):
        i = w.impl
        mp = _attr(i, "_map")
        return [list(_attr(i, "_q")), sorted([k, v, cc] for k, (v, cc) in mp.items()), _attr(i, "_bytes"), w.model.canon()]


class _Rec:
    """eviction callback recorder (plain callable object; not a closure so worlds stay copyable)."""

    def __init__(self, sink: list) -> None:
        self.sink = sink

    def __call__(self, *a) -> None:
        self.sink.append(tuple(a))


def _ns_state(nsobj, model_ns: RefNS):
    """(key, value, canonical age) of every stored entry of a real _NamespaceCache, oldest first"""
    d = _attr(nsobj, "_d")
    return [(k, _attr(ent, "value"), model_ns.age(_attr(ent, "ts"))) for k, ent in d.items()]


def _ns_canon(nsobj, model_ns: RefNS):
    return [[repr(k), v, a] for k, v, a in _ns_state(nsobj, model_ns)]


def _ns_state_check(c: "Chk", nsobj, model_ns: RefNS, label: str = "") -> None:
    """recency order and (canonical) entry ages of the real object against the model -- reported at the operation
    that makes them diverge instead of at whatever later read happens to expose it"""
    got = _ns_state(nsobj, model_ns)
    exp = [(k, e[1], model_ns.age(e[0])) for k, e in model_ns.d.items()]
    if not model_ns.ttl:
        # no expiry: what the real object keeps as the time stamp of an entry has no documented meaning (the near/far
        # class is part of the canonical state only so that the explorer reads old entries, it is not demanded)
        got = [g[:2] + (0,) for g in got]
        exp = [x[:2] + (0,) for x in exp]
    ok = len(got) == len(exp) and all(key_matches(g[0], x[0]) and g[1:] == x[1:] for g, x in zip(got, exp))
    if not ok:
        c.bad("state", "%sstored (key, value, age) oldest->newest = %r, reference model says %r" % (label, got, exp))


# 'ttl = 0 means no expiry' is a statement about EVERY clock advance: one far advance (about 31 years of the injected
# clock) reaches beyond any built-in default / fallback period that an implementation might substitute for a configured
# zero.  With ttl = 0 the age of an entry is canonicalised to the two classes near (< FAR_ADVANCE) / far (>= FAR_ADVANCE)
# -- NOT to a single class: the explorer merges histories by canonical state, and only a state in which the stored
# entries ARE old gets its own node and therefore its own reads.
FAR_ADVANCE = 10 ** 9


def _advances(ttl: int):
    if not ttl:
        return [1, FAR_ADVANCE]
    return sorted({1, ttl, ttl + 1})


class NamespaceSys(_Sys):
    kind = "nscache"

    def alphabet(self):
        ops = []
        for k in self.p["keys"]:
            ops.append(["get", k])
            for t in self.p["vals"]:
                ops.append(["set", k, "%s%s" % (k.upper(), t)])
        ops.append(["get", "zz"])
        ops.append(["invalidate"])
        for d in _advances(self.p["ttl"]):
            ops.append(["adv", d])
        return ops

    def fresh(self):
        w = World()
        w.clock = FakeClock()
        w.impl = cache_mod._NamespaceCache(self.p["mx"], self.p["ttl"], w.clock.now)
        w.model = RefNS(self.p["mx"], self.p["ttl"], w.clock)
        return w

    def step(self, w, op, check):
        mx = self.p["mx"]
        c = Chk(self.kind, op[0])
        impl, m = w.impl, w.model
        try:
            if op[0] == "get":
                exp, out = m.get(op[1])
                got = impl.get(op[1])
                if check:
                    c.eq("return", "get(%r) -> (hit, value) at t=%s" % (op[1], w.clock.t), got, exp)
            elif op[0] == "set":
                exp, out = m.set(op[1], op[2])
                got = impl.set(op[1], op[2])
                if check and mx > 0:
                    c.eq("return", "set(%r, %r) -> evicted count" % (op[1], op[2]), got, exp)
            elif op[0] == "invalidate":
                exp = m.invalidate()
                got = impl.invalidate()
                out = "invalidate"
                if check:
                    c.eq("return", "invalidate() -> removed", got, exp)
            elif op[0] == "adv":
                w.clock.advance(op[1])
                out = "adv"
            else:
                raise HarnessError("unknown op %r" % (op,))
            if check:
                before = self.canon(w)
                n = impl.size()
                if n > mx:
                    c.bad("capacity-entries", "%d entries stored, max_entries=%d" % (n, mx))
                c.eq("size", "size()", n, len(m.d))
                c.eq("order", "items() oldest->newest", list(impl.items()), m.items_raw())
                _ns_state_check(c, impl, m)
                if self.canon(w) != before:
                    c.bad("observer-mutates", "size()/items() changed the state")
        except HarnessError:
            raise
        except Exception as e:  # noqa
            return self.raised(op, e)
        return c[:1], out

    def canon(self, w):
        return [_ns_canon(w.impl, w.model), w.model.canon()]


# every documented spelling of the two settings ("max_entries/capacity, ttl_s/ttl_sec/ttl"), one alias per setting:
# name -> keyword arguments.  Each spelling must build the SAME cache for the same (capacity, ttl), zero included.
LRU_CAP_ALIASES = ("max_entries", "capacity")
LRU_TTL_ALIASES = ("ttl_s", "ttl_sec", "ttl")
LRU_CTOR_PRIMARY = "max_entries+ttl_s"


def _lru_ctor(ca: str, ta: str):
    def kw(mx, ttl):
        return {ca: mx, ta: ttl}
    return kw


LRU_CTOR = {"%s+%s" % (ca, ta): _lru_ctor(ca, ta) for ca in LRU_CAP_ALIASES for ta in LRU_TTL_ALIASES}


class LRUCacheSys(_Sys):
    kind = "lrucache"

    def alphabet(self):
        ops = []
        for k in self.p["keys"]:
            ops.append(["get", k])
            ops.append(["get2", k])
            ops.append(["in", k])
            for i, t in enumerate(self.p["vals"]):
                ops.append(["set" if i % 2 == 0 else "put", k, "%s%s" % (json.dumps(k), t)])
        if len(self.p["vals"]) < 2:
            ops.append(["put", self.p["keys"][0], "P"])
        ops.append(["get", "zz"])
        ops.append(["items"])
        ops.append(["invalidate"])
        ops.append(["clear"])
        for d in _advances(self.p["ttl"]):
            ops.append(["adv", d])
        return ops

    def fresh(self):
        w = World()
        w.clock = FakeClock()
        kw = LRU_CTOR[self.p["ctor"]](self.p["mx"], self.p["ttl"])
        w.impl = cache_mod.LRUCache(time_fn=w.clock.now, **kw)
        w.model = RefLRUCache(self.p["mx"], self.p["ttl"], w.clock)
        return w

    def step(self, w, op, check):
        mx = self.p["mx"]
        c = Chk(self.kind, op[0])
        impl, m = w.impl, w.model
        try:
            key = hkey(op[1]) if len(op) > 1 else None
            if op[0] == "get":
                exp, out = m.get(key)
                got = impl.get(key)
                if check:
                    c.eq("return", "get(%r) at t=%s" % (key, w.clock.t), got, exp)
            elif op[0] == "get2":
                exp, out = m.get2(key)
                got = impl.get2(key)
                if check:
                    c.eq("return", "get2(%r) -> (hit, value) at t=%s" % (key, w.clock.t), got, exp)
            elif op[0] in ("set", "put"):
                exp, out = m.set(key, op[2])
                got = getattr(impl, op[0])(key, op[2])
                if check:
                    c.eq("return", "%s(%r, %r)" % (op[0], key, op[2]), got, exp)
            elif op[0] == "in":
                exp, out = m.contains(key)
                got = key in impl
                if check:
                    c.eq("return", "(%r in cache) at t=%s" % (key, w.clock.t), got, exp)
            elif op[0] == "items":
                exp, out = m.items()
                got = impl.items()
                if check and not items_match(got, exp):
                    c.bad("return", "items() = %r at t=%s, reference model says %r (oldest->newest, expired pruned)" % (got, w.clock.t, exp))
            elif op[0] in ("invalidate", "clear"):
                exp = m.invalidate()
                got = getattr(impl, op[0])()
                out = "invalidate"
                if check:
                    c.eq("return", "%s() -> removed" % op[0], got, exp)
            elif op[0] == "adv":
                w.clock.advance(op[1])
                out = "adv"
            else:
                raise HarnessError("unknown op %r" % (op,))
            if check:
                before = self.canon(w)
                n = impl.size()
                if n > mx:
                    c.bad("capacity-entries", "%d entries stored, max_entries=%d" % (n, mx))
                c.eq("size", "size()", n, len(m.ns.d))
                c.eq("size", "len()", len(impl), len(m.ns.d))
                _ns_state_check(c, _attr(impl, "_ns"), m.ns)
                st_i, st_m = dict(impl.stats), m.stats()
                if mx == 0:  # what a disabled cache reports as 'evicted' is not specified
                    st_i.pop("evicted", None)
                    st_m.pop("evicted", None)
                c.eq("stats", "stats", st_i, st_m)
                if self.canon(w) != before:
                    c.bad("observer-mutates", "size()/len()/stats changed the state")
        except HarnessError:
            raise
        except Exception as e:  # noqa
            return self.raised(op, e)
        return c[:1], out

    def canon(self, w):
        return [_ns_canon(_attr(w.impl, "_ns"), w.model.ns), w.model.canon()]


class CacheManagerSys(_Sys):
    kind = "cachemgr"

    def alphabet(self):
        ops = []
        for ns in self.p["nss"]:
            for k in self.p["keys"]:
                ops.append(["get", ns, k])
                for t in self.p["vals"]:
                    ops.append(["set", ns, k, "%s/%s%s" % (ns, json.dumps(k), t)])
            ops.append(["inv_ns", ns])
        ops.append(["get", self.p["nss"][0], "zz"])
        ops.append(["inv_ns", "never-used"])
        ops.append(["inv_all"])
        for d in _advances(self.p["ttl"]):
            ops.append(["adv", d])
        return ops

    def fresh(self):
        w = World()
        w.clock = FakeClock()
        w.impl = cache_mod.CacheManager(max_entries=self.p["mx"], ttl_sec=self.p["ttl"], time_fn=w.clock.now)
        w.model = RefCacheManager(self.p["mx"], self.p["ttl"], w.clock)
        return w

    def step(self, w, op, check):
        mx = self.p["mx"]
        c = Chk(self.kind, op[0])
        impl, m = w.impl, w.model
        try:
            if op[0] == "get":
                key = hkey(op[2])
                exp, out = m.get(op[1], key)
                got = impl.get(op[1], key)
                if check:
                    c.eq("return", "get(%r, %r) -> (hit, value) at t=%s" % (op[1], key, w.clock.t), got, exp)
            elif op[0] == "set":
                key = hkey(op[2])
                exp, out = m.set(op[1], key, op[3])
                got = impl.set(op[1], key, op[3])
                if check:
                    c.eq("return", "set(%r, %r, %r)" % (op[1], key, op[3]), got, exp)
            elif op[0] == "inv_ns":
                exp = m.invalidate_namespace(op[1])
                got = impl.invalidate_namespace(op[1])
                out = "inv_ns"
                if check:
                    c.eq("return", "invalidate_namespace(%r) -> removed" % op[1], got, exp)
            elif op[0] == "inv_all":
                exp = m.invalidate_all()
                got = impl.invalidate_all()
                out = "inv_all"
                if check:
                    c.eq("return", "invalidate_all() -> removed", got, exp)
            elif op[0] == "adv":
                w.clock.advance(op[1])
                out = "adv"
            else:
                raise HarnessError("unknown op %r" % (op,))
            if check:
                before = self.canon(w)
                st_i, st_m = dict(impl.stats), m.stats()
                if mx == 0:
                    st_i.pop("evicted", None)
                    st_m.pop("evicted", None)
                c.eq("stats", "stats", st_i, st_m)
                for ns, nsobj in sorted(_attr(impl, "_ns").items()):
                    if nsobj.size() > mx:
                        c.bad("capacity-entries", "namespace %r holds %d entries, max_entries=%d" % (ns, nsobj.size(), mx))
                    _ns_state_check(c, nsobj, m.nss.get(ns) or RefNS(mx, self.p["ttl"], w.clock), "namespace %r: " % ns)
                if self.canon(w) != before:
                    c.bad("observer-mutates", "stats changed the state")
        except HarnessError:
            raise
        except Exception as e:  # noqa
            return self.raised(op, e)
        return c[:1], out

    def canon(self, w):
        nss = _attr(w.impl, "_ns")
        out = []
        for ns in sorted(nss):
            mns = w.model.nss.get(ns) or RefNS(self.p["mx"], self.p["ttl"], w.clock)
            cn = _ns_canon(nss[ns], mns)
            if cn:
                out.append([ns, cn])
        return [out, w.model.canon()]


class DetLRUSys(_Sys):
    kind = "detlru"

    def alphabet(self):
        ops = []
        for k in self.p["keys"]:
            ops.append(["get", k])
            for t in self.p["vals"]:
                ops.append(["put", k, "%s%s" % (k.upper(), t)])
        ops.append(["get", "zz"])
        ops.append(["pop_lru"])
        ops.append(["clear"])
        return ops

    def fresh(self):
        w = World()
        w.ev = []
        w.impl = lru_det_mod.DeterministicLRU(self.p["cap"], update_on_get=self.p["uog"], update_on_put=self.p["uop"],
                                              on_evict=_Rec(w.ev))
        w.model = RefDetLRU(self.p["cap"], self.p["uog"], self.p["uop"])
        return w

    def step(self, w, op, check):
        cap = self.p["cap"]
        c = Chk(self.kind, op[0])
        del w.ev[:]
        impl, m = w.impl, w.model
        try:
            if op[0] == "get":
                exp, out = m.get(op[1], "DEFAULT")
                got = impl.get(op[1], "DEFAULT")
                if check:
                    c.eq("return", "get(%r, 'DEFAULT')" % (op[1],), got, exp)
            elif op[0] == "put":
                exp, mev, out = m.put(op[1], op[2])
                got = impl.put(op[1], op[2])
                if check:
                    c.eq("return", "put(%r, %r) -> evicted pair" % (op[1], op[2]), got, exp)
                    c.eq("evictions", "on_evict calls", list(w.ev), mev)
            elif op[0] == "pop_lru":
                exp, out = m.pop_lru()
                got = impl.pop_lru()
                if check:
                    c.eq("return", "pop_lru()", got, exp)
            elif op[0] == "clear":
                m.clear()
                impl.clear()
                out = "clear"
            else:
                raise HarnessError("unknown op %r" % (op,))
            if check:
                before = self.canon(w)
                keys = list(self.p["keys"])
                c.eq("contains", "`in` per key %r" % keys, [(k in impl) for k in keys], [k in m.d for k in keys])
                c.eq("contains", "contains() per key %r" % keys, [impl.contains(k) for k in keys], [k in m.d for k in keys])
                n = len(impl)
                if n > cap:
                    c.bad("capacity-entries", "%d entries stored, cap=%d" % (n, cap))
                c.eq("size", "len()", n, len(m.d))
                c.eq("order", "items() LRU->MRU", list(impl.items()), m.items())
                if self.canon(w) != before:
                    c.bad("observer-mutates", "len()/contains()/items() changed the state")
        except HarnessError:
            raise
        except Exception as e:  # noqa
            return self.raised(op, e)
        return c[:1], out

    def canon(self, w):
        i = w.impl
        return [list(_attr(i, "_q")), sorted([k, v] for k, v in _attr(i, "_map").items()), w.model.canon()]


FIFO_CLASSES = {"lruset": lambda: lru_det_mod.DeterministicLRUSet, "ringlru": lambda: ring_mod.DeterministicLRU}


class FifoSetSys(_Sys):
    """DeterministicLRUSet (lru_det.py) and its twin ring.DeterministicLRU: insert-order bounded set."""
    kind = "fifoset"

    def __init__(self, **p):
        super().__init__(**p)
        self.kind = p["cls"]
        self.name = self.name.replace("fifoset", p["cls"], 1)

    def alphabet(self):
        return [["add", k] for k in self.p["keys"]] + [["clear"]]

    def fresh(self):
        w = World()
        w.impl = FIFO_CLASSES[self.p["cls"]]()(self.p["cap"])
        w.model = RefFifoSet(self.p["cap"])
        return w

    def step(self, w, op, check):
        cap = self.p["cap"]
        c = Chk(self.kind, op[0])
        impl, m = w.impl, w.model
        try:
            if op[0] == "add":
                exp, out = m.add(op[1])
                got = impl.add(op[1])
                if check:
                    c.eq("return", "add(%r) -> evicted?" % (op[1],), got, exp)
            elif op[0] == "clear":
                m.l[:] = []
                impl.clear()
                out = "clear"
            else:
                raise HarnessError("unknown op %r" % (op,))
            if check:
                before = self.canon(w)
                keys = list(self.p["keys"])
                c.eq("contains", "contains() per key %r" % keys, [impl.contains(k) for k in keys], [k in m.l for k in keys])
                c.eq("contains", "`in` per key %r" % keys, [(k in impl) for k in keys], [k in m.l for k in keys])
                if impl.size() > cap:
                    c.bad("capacity-entries", "%d members, cap=%d" % (impl.size(), cap))
                c.eq("size", "size()", impl.size(), len(m.l))
                c.eq("size", "len()", len(impl), len(m.l))
                c.eq("state", "insertion order of the members (oldest first)", [x for x in _attr(impl, "_q")], m.l)
                if self.canon(w) != before:
                    c.bad("observer-mutates", "contains()/size() changed the state")
        except HarnessError:
            raise
        except Exception as e:  # noqa
            return self.raised(op, e)
        return c[:1], out

    def canon(self, w):
        i = w.impl
        return [list(_attr(i, "_q")), sorted(_attr(i, "_set")), w.model.canon()]


class RingSys(_Sys):
    """DedupeRing.  Exact model (last k pushed items, duplicates kept) while no discard() happened since the last
    clear(); after a discard() only the capacity / no-exception invariants are demanded (lazily consistent by
    design, unused by the engine)."""
    kind = "ring"

    def alphabet(self):
        keys = self.p["keys"]
        ops = [["add", k] for k in keys]
        ops += [["extend", list(pair)] for pair in self.p["extends"]]
        ops += [["discard", k] for k in keys[:2]]
        ops.append(["clear"])
        return ops

    def fresh(self):
        w = World()
        w.impl = ring_mod.DedupeRing(self.p["k"])
        w.model = RefRing(self.p["k"])
        w.taint = False
        return w

    def step(self, w, op, check):
        kcap = self.p["k"]
        c = Chk(self.kind, op[0])
        impl, m = w.impl, w.model
        try:
            out = op[0]
            if op[0] == "add":
                out = m.add(op[1])
                got = impl.add(op[1])
            elif op[0] == "extend":
                for x in op[1]:
                    m.add(x)
                got = impl.extend(list(op[1]))
            elif op[0] == "discard":
                got = impl.discard(op[1])
                if kcap > 0:
                    w.taint = True
                    out = "discard"
            elif op[0] == "clear":
                m.l[:] = []
                got = impl.clear()
                w.taint = False
            else:
                raise HarnessError("unknown op %r" % (op,))
            if check:
                before = self.canon(w)
                n = len(impl)
                lst = impl.tolist()
                if n > kcap or len(lst) > kcap:
                    c.bad("capacity-entries", "ring holds %d items (tolist %d), k=%d" % (n, len(lst), kcap))
                keys = list(self.p["keys"])
                mem = [impl.contains(k) for k in keys]
                mem2 = [(k in impl) for k in keys]
                if kcap == 0 and (n or lst or any(mem) or any(mem2)):
                    c.bad("disabled", "k=0 but ring reports len=%d tolist=%r membership=%r" % (n, lst, mem))
                if not w.taint:
                    c.eq("order", "tolist() (oldest first)", lst, m.l)
                    c.eq("size", "len()", n, len(m.l))
                    c.eq("contains", "contains() per key %r" % keys, mem, [k in m.l for k in keys])
                    c.eq("contains", "`in` per key %r" % keys, mem2, [k in m.l for k in keys])
                if self.canon(w) != before:
                    c.bad("observer-mutates", "len()/tolist()/contains() changed the state")
        except HarnessError:
            raise
        except Exception as e:  # noqa
            return self.raised(op, e)
        return c[:1], out

    def canon(self, w):
        i = w.impl
        return [list(_attr(i, "_q")), sorted([k, v] for k, v in _attr(i, "_ref").items()), bool(w.taint), w.model.canon()]


SYSTEMS = {"lrubytes": LRUBytesSys, "nscache": NamespaceSys, "lrucache": LRUCacheSys, "cachemgr": CacheManagerSys,
           "detlru": DetLRUSys, "lruset": FifoSetSys, "ringlru": FifoSetSys, "ring": RingSys}


def make_system(desc: dict):
    d = dict(desc)
    kind = d.pop("sys")
    if kind in ("lruset", "ringlru"):
        d["cls"] = kind
    return SYSTEMS[kind](**d)


def e1_systems(thorough: bool) -> List[dict]:
    """quick: 3 keys, 2 values per key; thorough = quick + a wider alphabet (4th key, larger caps, cost 3, ttl 2)
    with one value per key where the graph would otherwise explode (value replacement is covered by the quick part).
    TTL containers: ttl = 0 systems carry the far clock advance (FAR_ADVANCE) and the near/far age class per entry.
    LRUCache: all 6 constructor spellings (2 capacity aliases x 3 TTL aliases) x capacity {0,1,2} x ttl {0,1}
    (quick tier: (2, 1) only through the spelling the engine uses)."""
    out: List[dict] = []
    two = ["", "'"]
    # ---- quick part -------------------------------------------------------------------------------
    keys, costs = ["a", "b", "c"], [0, 1, 2, 5]
    for me in (0, 1, 2):
        for mb in (0, 3, 4):
            out.append({"sys": "lrubytes", "me": me, "mb": mb, "keys": keys, "costs": costs, "vals": two})
    for mx in (0, 1, 2):
        for ttl in (0, 1):
            out.append({"sys": "nscache", "mx": mx, "ttl": ttl, "keys": keys, "vals": two})
    # LRUCache keys: a string, a tuple, an unhashable list (identified by its canonical JSON)
    lkeys = ["a", ["~t", "v", 1], ["c"]]
    # constructor spelling x (capacity, ttl) incl. the zeros: the spelling the engine uses gets the full grid, every other
    # spelling everything but the largest graph (2, 1) in the quick tier -- in particular capacity 0 and ttl 0 through
    # every alias
    for ctor in sorted(LRU_CTOR):
        for mx in (0, 1, 2):
            for ttl in (0, 1):
                if ctor != LRU_CTOR_PRIMARY and (mx, ttl) == (2, 1) and not thorough:
                    continue
                out.append({"sys": "lrucache", "ctor": ctor, "mx": mx, "ttl": ttl, "keys": lkeys, "vals": two})
    mkeys = [["~t", "v", "a"], ["~t", "v", {"q": 1}]]
    for mx in (0, 1, 2):
        for ttl in (0, 1):
            out.append({"sys": "cachemgr", "mx": mx, "ttl": ttl, "nss": ["n1", "n2"], "keys": mkeys,
                        "vals": two if (mx < 2 or ttl == 0) else [""]})
    for cap in (0, 1, 2):
        for uog in (True, False):
            for uop in (True, False):
                out.append({"sys": "detlru", "cap": cap, "uog": uog, "uop": uop, "keys": keys, "vals": two})
    for cls in ("lruset", "ringlru"):
        for cap in (0, 1, 2, 3):
            out.append({"sys": cls, "cap": cap, "keys": ["a", "b", "c", "d"]})
    ext = [list(p) for p in itertools.product(keys, repeat=2)] + [["a", "b", "a"], ["a", "a", "a", "a", "b"]]
    for k in (0, 1, 2, 3):
        out.append({"sys": "ring", "k": k, "keys": keys, "extends": ext})
    if not thorough:
        return out
    # ---- thorough extension -----------------------------------------------------------------------
    keys4, costs5 = ["a", "b", "c", "d"], [0, 1, 2, 3, 5]
    for me in (0, 1, 2, 3):
        for mb in (0, 3, 4, 6):
            if me == 0 and mb == 0:
                continue
            out.append({"sys": "lrubytes", "me": me, "mb": mb, "keys": keys4, "costs": costs5, "vals": [""]})
    for mx in (1, 2, 3):
        for ttl in (0, 1, 2):
            out.append({"sys": "nscache", "mx": mx, "ttl": ttl, "keys": keys4, "vals": two if mx < 3 else [""]})
    lkeys4 = lkeys + [{"x": 1, "y": [2]}]
    for mx in (1, 2, 3):
        for ttl in (0, 1, 2):
            out.append({"sys": "lrucache", "ctor": LRU_CTOR_PRIMARY, "mx": mx, "ttl": ttl, "keys": lkeys4,
                        "vals": two if mx < 3 else [""]})
    for ctor in sorted(LRU_CTOR):
        if ctor != LRU_CTOR_PRIMARY:
            out.append({"sys": "lrucache", "ctor": ctor, "mx": 2, "ttl": 2, "keys": lkeys, "vals": two})
    mkeys3 = mkeys + ["plain"]
    for mx, ttl, vals in ((2, 1, two), (2, 2, [""]), (1, 2, two), (3, 0, [""])):
        out.append({"sys": "cachemgr", "mx": mx, "ttl": ttl, "nss": ["n1", "n2"], "keys": mkeys if vals == two else mkeys3, "vals": vals})
    for cap in (1, 2, 3):
        for uog in (True, False):
            for uop in (True, False):
                out.append({"sys": "detlru", "cap": cap, "uog": uog, "uop": uop, "keys": keys4, "vals": two})
    for cls in ("lruset", "ringlru"):
        for cap in (2, 4, 5):
            out.append({"sys": cls, "cap": cap, "keys": ["a", "b", "c", "d", "e", "f"]})
    ext4 = [list(p) for p in itertools.product(keys4[:3], repeat=2)] + [["a", "b", "a"], ["d", "d", "d", "d", "d", "a"]]
    for k in (2, 4, 5):
        out.append({"sys": "ring", "k": k, "keys": keys4, "extends": ext4})
    return out


def _e1_worker(chunk, st: Stats, max_states: int):
    for desc in chunk:
        system = make_system(desc)
        info = explore.closure(system, st, max_states=max_states, sample_every=997)
        st.add("e1_systems")
        st.add("e1_states", info["states"])
        st.add("e1_states_" + desc["sys"], info["states"])
        if not info["closed"]:
            st.add("e1_not_closed")
        st.notes["e1_max_depth"] = max(st.notes.get("e1_max_depth", 0), info["depth"])
        st.notes["e1_largest_state_graph"] = max(st.notes.get("e1_largest_state_graph", 0), info["states"])


# =====================================================================================================
# E3b: lock wrappers under controlled schedules
# =====================================================================================================
def _const0() -> float:
    return 0.0


class _ThreadScenario:
    """wrapper in {"TSC/LRUCache", "TSBC/LRUBytes", "TSC/DetLRU"}; params; setup ops; one op list per thread."""

    def __init__(self, case: dict) -> None:
        self.case = case
        self.wrapper = case["wrapper"]
        self.params = case["params"]
        self.setup = case.get("setup") or []
        self.programs = case["programs"]

    # ---- real objects ------------------------------------------------------------------
    def build(self, ex):
        lock = ex.lock("wrapper-lock")
        p = self.params
        clock = FakeClock()
        if self.wrapper == "TSC/LRUCache":
            inner = cache_mod.LRUCache(max_entries=p["cap"], ttl=p.get("ttl", 0), time_fn=clock.now)
            w = cache_mod.ThreadSafeCache(inner, lock=lock)
        elif self.wrapper == "TSC/DetLRU":
            inner = lru_det_mod.DeterministicLRU(p["cap"])
            w = cache_mod.ThreadSafeCache(inner, lock=lock)
        elif self.wrapper == "TSBC/LRUBytes":
            inner = lru_bytes_mod.LRUBytes(p["me"], p["mb"])
            w = cache_mod.ThreadSafeBytesCache(inner, lock=lock)
        else:
            raise HarnessError("unknown wrapper %r" % self.wrapper)
        for op in self.setup:
            if op[0] == "adv":
                clock.advance(op[1])
            else:
                self.do_impl(inner, op)
        return w, inner, lock

    @staticmethod
    def do_impl(obj, op):
        if op[0] == "put":
            return obj.put(*op[1:])
        if op[0] == "get":
            return obj.get(op[1])
        if op[0] == "in":
            return op[1] in obj
        if op[0] == "items":
            return norm(list(obj.items()))
        raise HarnessError("unknown op %r" % (op,))

    def final_impl(self, inner):
        if self.wrapper == "TSC/LRUCache":
            s = inner.stats
            return (norm(inner.items()), len(inner), s["hits"], s["misses"])
        if self.wrapper == "TSC/DetLRU":
            return (norm(list(inner.items())), len(inner))
        return (norm(list(inner.items())), norm(list(inner.keys())), inner.size_entries(), inner.size_bytes())

    # ---- reference model ---------------------------------------------------------------
    def model(self):
        p = self.params
        if self.wrapper == "TSC/LRUCache":
            return RefLRUCache(p["cap"], p.get("ttl", 0), FakeClock())
        if self.wrapper == "TSC/DetLRU":
            return RefDetLRU(p["cap"], True, True)
        return RefLRUBytes(p["me"], p["mb"])

    def do_model(self, m, op, through_wrapper=True):
        if self.wrapper == "TSC/LRUCache":
            if op[0] == "adv":
                m.ns.clock.advance(op[1])
                return None
            if op[0] == "put":
                m.set(op[1], op[2])
                return None
            if op[0] == "get":
                return m.get(op[1])[0]
            if op[0] == "in":
                return m.contains(op[1])[0]
            return norm(m.items()[0])
        if self.wrapper == "TSC/DetLRU":
            if op[0] == "put":
                m.put(op[1], op[2])
                return None  # ThreadSafeCache.put returns None
            if op[0] == "get":
                return m.get(op[1])[0]
            if op[0] == "in":
                return op[1] in m.d
            return norm(m.items())
        if op[0] == "put":
            return m.put(op[1], op[2], op[3])[0]
        if op[0] == "get":
            return m.get(op[1])[0]
        if op[0] == "in":
            return op[1] in m.d
        return norm(m.items())

    def final_model(self, m):
        if self.wrapper == "TSC/LRUCache":
            s = m.stats()
            live = norm(m.items()[0])  # the final read prunes expired entries, like LRUCache.items()
            return (live, len(m.ns.d), s["hits"], s["misses"])
        if self.wrapper == "TSC/DetLRU":
            return (norm(m.items()), len(m.d))
        return (norm(m.items()), norm(list(m.d.keys())), len(m.d), m.total())

    def sequential_outcomes(self):
        """every interleaving of the programs that respects program order, run on the reference model"""
        progs = self.programs
        outs = set()
        idx = [0] * len(progs)

        def rec(order):
            if len(order) == sum(len(p) for p in progs):
                m = self.model()
                for op in self.setup:
                    self.do_model(m, op)
                rets = [[None] * len(p) for p in progs]
                for t, i in order:
                    rets[t][i] = norm(self.do_model(m, progs[t][i]))
                outs.add((norm(rets), self.final_model(m)))
                return
            for t in range(len(progs)):
                if idx[t] < len(progs[t]):
                    order.append((t, idx[t]))
                    idx[t] += 1
                    rec(order)
                    idx[t] -= 1
                    order.pop()

        rec([])
        return outs

    # ---- one controlled execution ------------------------------------------------------
    def make(self, ex):
        w, inner, lock = self.build(ex)
        rets = [[("not-run",)] * len(p) for p in self.programs]

        def body(t):
            def run():
                for i, op in enumerate(self.programs[t]):
                    try:
                        rets[t][i] = norm(self.do_impl(w, op))
                    except Exception as e:  # noqa -- an operation must not raise; recorded as its outcome
                        rets[t][i] = ("raised", type(e).__name__)
            return run

        return [body(t) for t in range(len(self.programs))], (inner, lock, rets)

    def judge(self, ex, ctx, allowed):
        """-> list of (sig, what)"""
        inner, lock, rets = ctx
        tag = "threads:%s" % self.wrapper
        prog = json.dumps(self.programs)
        if ex.deadlock:
            return [(tag + ":deadlock", "deadlock under schedule %r for programs %s" % (ex.choices(), prog))]
        for r in itertools.chain.from_iterable(rets):
            if isinstance(r, tuple) and len(r) == 2 and r[0] == "raised":
                return [(tag + ":raises:" + r[1], "an operation raised %s under schedule %r; programs %s (setup %s), returns %r"
                         % (r[1], ex.choices(), prog, json.dumps(self.setup), rets))]
        try:
            fin = self.final_impl(inner)
        except Exception as e:  # noqa
            return [(tag + ":final-state-raises:" + type(e).__name__, "reading the final state raised %r under schedule %r; programs %s"
                     % (e, ex.choices(), prog))]
        got = (norm(rets), fin)
        if got not in allowed:
            return [(tag + ":not-linearizable",
                     "returns %r + final state %r under schedule %r equal no sequential order of programs %s (setup %s, params %s); "
                     "%d sequential outcomes exist" % (rets, fin, ex.choices(), prog, json.dumps(self.setup),
                                                        json.dumps(self.params), len(allowed)))]
        return []


THREAD_ALPHABET = {
    "TSC/LRUCache": {
        "full": [["put", "a", "A1"], ["put", "a", "A2"], ["put", "b", "B1"], ["get", "a"], ["get", "b"], ["in", "a"], ["items"]],
        "small": [["put", "a", "A1"], ["put", "b", "B1"], ["get", "a"], ["items"]],
        "setup": [[], [["put", "a", "A0"]]],
    },
    "TSC/DetLRU": {
        "full": [["put", "a", "A1"], ["put", "a", "A2"], ["put", "b", "B1"], ["get", "a"], ["get", "b"], ["in", "a"], ["items"]],
        "small": [["put", "a", "A1"], ["put", "b", "B1"], ["get", "a"], ["items"]],
        "setup": [[], [["put", "a", "A0"]]],
    },
    "TSBC/LRUBytes": {
        "full": [["put", "a", "A1", 2], ["put", "a", "A2", 1], ["put", "b", "B1", 2], ["get", "a"], ["get", "b"], ["in", "a"], ["items"]],
        "small": [["put", "a", "A1", 2], ["put", "b", "B1", 2], ["get", "a"], ["items"]],
        "setup": [[], [["put", "a", "A0", 1]]],
    },
}


def thread_scenarios(thorough: bool) -> List[dict]:
    out: List[dict] = []
    configs = [("TSC/LRUCache", {"cap": 1}), ("TSBC/LRUBytes", {"me": 2, "mb": 3}), ("TSC/DetLRU", {"cap": 1})]
    if thorough:
        configs += [("TSC/LRUCache", {"cap": 2}), ("TSBC/LRUBytes", {"me": 1, "mb": 0})]
    for wrapper, params in configs:
        al = THREAD_ALPHABET[wrapper]
        full, small = al["full"], al["small"]
        primary = (wrapper, params) in configs[:2]
        first = (wrapper, params) == configs[0]
        # (1,1): every unordered pair of single operations, with and without a pre-filled entry
        for setup in al["setup"]:
            for i, j in itertools.combinations_with_replacement(range(len(full)), 2):
                out.append({"kind": "threads", "wrapper": wrapper, "params": params, "setup": setup,
                            "programs": [[full[i]], [full[j]]], "bound": 3 if thorough else 2})
        if wrapper == "TSC/LRUCache" and params == {"cap": 1}:
            # an expired entry is waiting to be pruned by the first read (TTL 1, entry age 5)
            xp = {"cap": 1, "ttl": 1}
            xs = [["put", "a", "A0"], ["adv", 5]]
            for i, j in itertools.combinations_with_replacement(range(len(full)), 2):
                out.append({"kind": "threads", "wrapper": wrapper, "params": xp, "setup": xs,
                            "programs": [[full[i]], [full[j]]], "bound": 3 if thorough else 2})
            if thorough:
                for p0 in itertools.product(range(len(small)), repeat=2):
                    for q in range(len(full)):
                        out.append({"kind": "threads", "wrapper": wrapper, "params": xp, "setup": xs,
                                    "programs": [[small[p0[0]], small[p0[1]]], [full[q]]], "bound": 2})
        # (2,1): one thread does two operations
        a2 = full if (thorough and primary) else small
        for setup in (al["setup"] if (thorough and (first or not primary)) else al["setup"][:1]):
            for p0 in itertools.product(range(len(a2)), repeat=2):
                for q in range(len(a2)):
                    if not primary and not thorough and (p0[0] + p0[1] + q) % 2:
                        continue  # secondary wrapper in the quick tier: every other program
                    out.append({"kind": "threads", "wrapper": wrapper, "params": params, "setup": setup,
                                "programs": [[a2[p0[0]], a2[p0[1]]], [a2[q]]], "bound": 2})
        # (1,1,1): three threads
        for tri in itertools.combinations_with_replacement(range(len(small)), 3):
            if not primary and not thorough:
                continue
            out.append({"kind": "threads", "wrapper": wrapper, "params": params, "setup": [],
                        "programs": [[small[t]] for t in tri], "bound": 2 if (thorough and first) else 1})
        if thorough:
            # (2,2) on the small alphabet
            for p0, p1 in itertools.combinations_with_replacement(list(itertools.product(range(len(small)), repeat=2)), 2):
                out.append({"kind": "threads", "wrapper": wrapper, "params": params, "setup": [],
                            "programs": [[small[p0[0]], small[p0[1]]], [small[p1[0]], small[p1[1]]]], "bound": 2})
    return out


def _thread_worker(chunk, st: Stats):
    for case in chunk:
        sc = _ThreadScenario(case)
        allowed = sc.sequential_outcomes()
        st.add("thread_programs")
        if len(allowed) > 1:
            st.add("thread_programs_order_sensitive")
        seen_out = set()

        def on_exec(ex, ctx, sc=sc, allowed=allowed, case=case):
            st.add("transitions")
            st.add("validated")
            st.add("schedules")
            st.add("sched_points", ex.points)
            res = sc.judge(ex, ctx, allowed)
            inner, lock, rets = ctx
            if res:
                for sig, what in res:
                    c = dict(case)
                    c["choices"] = ex.choices()
                    st.violation(sig, what, c)
                st.distinct("outcomes", ("threads", sc.wrapper, res[0][0]))
                return
            if lock.acquisitions < sum(len(p) for p in sc.programs):
                # informational only: the property does not prescribe HOW access is serialised
                st.add("executions_with_fewer_lock_acquisitions_than_operations")
            try:
                o = (norm(rets), sc.final_impl(inner))
            except Exception:
                o = ("?",)
            if o not in seen_out:
                seen_out.add(o)
                st.distinct("states", ("threads", json.dumps(case, sort_keys=True), repr(o)))
            if ex.preemptions() > 0:
                st.add("nontrivial")

        info = sched.explore(sc.make, len(sc.programs), TRACED_FILES, case["bound"], on_exec)
        st.distinct("outcomes", ("threads", sc.wrapper, "linearizable", min(len(seen_out), 4)))
        for p, n in info["by_preemptions"].items():
            st.add("schedules_with_%d_preemptions" % p, n)
        st.notes["sched_max_points_per_execution"] = max(st.notes.get("sched_max_points_per_execution", 0), info["max_points"])
        st.notes["sched_max_executions_per_program"] = max(st.notes.get("sched_max_executions_per_program", 0), info["executions"])
        if len(seen_out) > 1:
            st.add("thread_programs_with_several_observed_outcomes")
        if st.n.get("thread_programs", 0) % 40 == 1:
            st.sample({k: case[k] for k in ("kind", "wrapper", "params", "setup", "programs", "bound")})


# =====================================================================================================
# E2: merge_caches_deterministic
# =====================================================================================================
ORDER_KEYS = {
    "asc": (lambda w: (w,), lambda k: (k,)),
    "desc": (lambda w: (-w,), lambda k: tuple(-ord(ch) for ch in k)),
}


def _mk_target(tcfg, clock=None):
    kind, cap = tcfg["kind"], tcfg["cap"]
    if kind == "LRUCache":
        t = cache_mod.LRUCache(max_entries=cap, ttl=0, time_fn=_const0)
    elif kind == "TSC(LRUCache)":
        t = cache_mod.ThreadSafeCache(cache_mod.LRUCache(max_entries=cap, ttl=0, time_fn=_const0))
    elif kind == "DetLRU":
        t = lru_det_mod.DeterministicLRU(cap)
    else:
        raise HarnessError("unknown target %r" % kind)
    for k, v in tcfg.get("pre", []):
        t.put(k, v)
    return t


def _mk_worker_cache(kind, pairs):
    if kind == "DetLRU":
        c = lru_det_mod.DeterministicLRU(16)
    elif kind in ("LRUCache", "TSC(LRUCache)"):
        c = cache_mod.LRUCache(max_entries=16, ttl=0, time_fn=_const0)
    else:
        raise HarnessError("unknown worker cache %r" % kind)
    for k, v in pairs:
        c.put(k, v)
    if kind == "TSC(LRUCache)":  # the documented shared-cache spelling, here as a per-worker isolate
        c = cache_mod.ThreadSafeCache(c)
    return c


def _ref_merge(tcfg, workers, order, policy, touch=False):
    """documented rule: workers in sorted worker-key order, keys in sorted key order, first value wins.
    ``touch``: whether the equality probe of assert_equal counts as a use of the entry (unspecified)."""
    wk, kk = ORDER_KEYS[order]
    d: "OrderedDict[str, Any]" = OrderedDict()
    cap = tcfg["cap"]

    def put(k, v):
        if cap <= 0:
            return
        d[k] = v
        d.move_to_end(k)
        while len(d) > cap:
            d.popitem(last=False)

    for k, v in tcfg.get("pre", []):
        put(k, v)
    for wid, content in sorted(workers, key=lambda t: wk(t[0])):
        for k in sorted(content, key=kk):
            if k in d:
                if policy == "assert_equal":
                    if d[k] != content[k]:
                        return "raised", None
                    if touch:
                        d.move_to_end(k)
                continue
            put(k, content[k])
    return "ok", list(d.items())


def merge_groups(thorough: bool) -> List[dict]:
    keys = ["a", "b", "c"]
    subsets = [list(s) for r in range(0, 4) for s in itertools.combinations(keys, r)]
    targets = []
    for kind in ("LRUCache", "DetLRU", "TSC(LRUCache)"):
        for cap in ((0, 1, 2, 3, 4) if thorough else (1, 2, 4)):
            for pre in ([], [["a", "T"]], [["c", "c"], ["a", "a"]]):
                if kind == "TSC(LRUCache)" and not thorough and (cap != 2 or pre):
                    continue
                if len(pre) == 2 and not (thorough or (kind == "LRUCache" and cap == 2)):
                    continue
                targets.append({"kind": kind, "cap": cap, "pre": pre})
    out = []
    # number of workers: the degenerate cardinalities 0 (nothing to merge: the target stays as it is) and 1 (no other
    # worker to conflict with -- the key order rule and the LRU bound of the target still apply) belong to "for every list
    # of per-worker caches" just like 2 and 3; likewise the inputs in which every worker cache is empty.
    nworkers = (0, 1, 2, 3)
    for nw in nworkers:
        for contents in itertools.product(subsets, repeat=nw):
            if nw == 3 and not thorough and max(len(c) for c in contents) > 2:
                continue
            for t in targets:
                if nw == 3 and not thorough and not (t["kind"] == "LRUCache" and t["cap"] in (1, 2) and not t["pre"]):
                    continue
                if nw == 3 and thorough and (t["kind"] != "LRUCache" or len(t["pre"]) == 2):
                    continue
                # worker caches: of the target's family; behind the lock wrapper too where the target is wrapped, and (few
                # workers, thorough) for the plain LRUCache target
                wkinds = ["DetLRU"] if t["kind"] == "DetLRU" else ["LRUCache"]
                if t["kind"] == "TSC(LRUCache)" or (thorough and nw <= 2 and t["kind"] == "LRUCache"):
                    wkinds.append("TSC(LRUCache)")
                for wkind in wkinds:
                    if nw == 0 and wkind != wkinds[0]:
                        continue
                    for vals in ("per-worker", "equal"):
                        if nw == 0 and vals != "equal":
                            continue  # no worker, no value
                        for order in ("asc", "desc"):
                            for policy in ("first_wins", "assert_equal"):
                                if policy == "assert_equal" and order == "desc" and not thorough:
                                    continue
                                out.append({"kind": "merge", "target": t, "contents": [list(c) for c in contents],
                                            "values": vals, "order": order, "policy": policy, "worker_kind": wkind})
    return out


def _merge_variants(case):
    """every permutation of the worker list x every insertion order inside every worker cache"""
    contents = case["contents"]
    n = len(contents)
    ids = list(range(1, n + 1))
    per_worker = [list(itertools.permutations(c)) for c in contents]
    for ins in itertools.product(*per_worker):
        for perm in itertools.permutations(range(n)):
            yield [(ids[i], list(ins[i])) for i in perm]


def _value(case, wid, k):
    return k if case["values"] == "equal" else "%s@%d" % (k, wid)


def _run_merge(case, variant):
    wk, kk = ORDER_KEYS[case["order"]]
    target = _mk_target(case["target"])
    wcs = [(wid, _mk_worker_cache(case["worker_kind"], [(k, _value(case, wid, k)) for k in order])) for wid, order in variant]
    try:
        r = cache_mod.merge_caches_deterministic(target, wcs, worker_order_key=wk, key_order_key=kk, on_conflict=case["policy"])
        outcome = "ok" if r is None else "returned:%r" % (r,)
    except AssertionError:
        outcome = "raised"
    except Exception as e:  # noqa
        return "error:" + type(e).__name__, None
    return outcome, [list(kv) for kv in target.items()]


def check_merge(case, st: Stats = None):
    """-> list of (sig, what, variant)"""
    workers = [(i + 1, {k: _value(case, i + 1, k) for k in c}) for i, c in enumerate(case["contents"])]
    exp_out, exp_state = _ref_merge(case["target"], workers, case["order"], case["policy"])
    allowed = [(exp_out, norm(exp_state))]
    if case["policy"] == "assert_equal":
        o2, s2 = _ref_merge(case["target"], workers, case["order"], case["policy"], touch=True)
        allowed.append((o2, norm(s2)))
    res = []
    first = None
    if case.get("variant"):  # replay: the canonical worker list first, then the stored permutation
        stored = [(int(w), list(o)) for w, o in case["variant"]]
        variants = [next(iter(_merge_variants(case))), stored]
    else:
        variants = _merge_variants(case)
    for variant in variants:
        got_out, got_state = _run_merge(case, variant)
        if st is not None:
            st.add("transitions")
            st.add("validated")
            st.add("merges")
        tag = "merge:%s" % case["policy"]
        if got_out.startswith("error:") or got_out.startswith("returned:"):
            res.append((tag + ":" + got_out.split(":")[0], "merge %s for worker list %r (case %s)" % (got_out, variant, json.dumps(case)), variant))
            break
        if first is None:
            first = (got_out, got_state, variant)
        elif (got_out, got_state if got_out == "ok" else None) != (first[0], first[1] if first[0] == "ok" else None):
            res.append((tag + ":order-dependent",
                        "target after merge is %s %r for worker list %r but %s %r for %r (same workers, same contents; target %s, order %s)"
                        % (got_out, got_state, variant, first[0], first[1], first[2], json.dumps(case["target"]), case["order"]), variant))
            break
        if got_out not in [a[0] for a in allowed]:
            res.append((tag + ":conflict-outcome", "merge outcome %s, documented rule gives %s; worker list %r (target %s, order %s)"
                        % (got_out, exp_out, variant, json.dumps(case["target"]), case["order"]), variant))
            break
        if got_out == "ok" and (got_out, norm(got_state)) not in allowed:
            res.append((tag + ":differs-from-rule", "target after merge %r, documented rule (workers sorted, keys sorted, first wins) gives %r; "
                        "worker list %r (target %s, order %s)" % (got_state, exp_state, variant, json.dumps(case["target"]), case["order"]), variant))
            break
    return res, (exp_out, exp_state)


def _merge_worker(chunk, st: Stats):
    for case in chunk:
        res, exp = check_merge(case, st)
        st.add("merge_groups")
        st.distinct("states", ("merge", json.dumps(case, sort_keys=True)))
        for sig, what, variant in res:
            c = dict(case)
            c["variant"] = variant
            st.violation(sig, what, c)
        nconf = len(set(itertools.chain.from_iterable(case["contents"]))) < sum(len(c) for c in case["contents"])
        st.distinct("outcomes", ("merge", case["policy"], exp[0], nconf, bool(res)))
        if nconf or len(case["contents"]) > 1 or any(len(c) > 1 for c in case["contents"]):
            st.add("nontrivial")
        st.add("merge_groups_with_%d_workers" % len(case["contents"]))
        if st.n.get("merge_groups", 0) % 500 == 1:
            st.sample(case)


# =====================================================================================================
# entry points
# =====================================================================================================
def _seams():
    for mod, names in ((cache_mod, ["_NamespaceCache", "LRUCache", "CacheManager", "ThreadSafeCache", "ThreadSafeBytesCache",
                                    "merge_caches_deterministic"]),
                       (lru_bytes_mod, ["LRUBytes"]), (lru_det_mod, ["DeterministicLRU", "DeterministicLRUSet"]),
                       (ring_mod, ["DedupeRing", "DeterministicLRU"])):
        for n in names:
            if not hasattr(mod, n):
                raise HarnessError("seam missing: %s.%s" % (mod.__name__, n))


def run(run: Run) -> None:
    _seams()
    run.rule = ("E1: per container x capacity/TTL/flag setting (zeros included; LRUCache additionally x every constructor spelling "
                "{max_entries,capacity} x {ttl_s,ttl_sec,ttl}), BFS over all operation histories to closure of the canonical state "
                "graph; clock advances {1, ttl, ttl+1} resp., for ttl = 0 ('never expires'), {1, 1e9} s with the entry ages "
                "kept in the canonical state as near/far "
                "(non-trivial = transition that changes the canonical state); E3b: per wrapper x program (2-3 threads x 1-2 ops), "
                "every schedule with <= bound preemptions at lock and line granularity (non-trivial = execution with >= 1 preemption); "
                "E2: per merge input (0-3 workers incl. the empty list, a lone worker and all-empty workers; worker caches plain or lock-wrapped), "
                "every permutation of the worker list x every insertion order inside every worker "
                "(non-trivial = >1 worker, conflicting keys, or a worker holding >= 2 keys)")
    run.notes["sched_selftest"] = sched.selftest()

    systems = e1_systems(run.thorough)
    max_states = 400000
    run.notes["e1_system_count"] = len(systems)
    # big systems first so that the pool balances
    run.pmap(_e1_worker, systems, extra=(max_states,), chunks=len(systems), procs=16 if run.thorough else None)
    if run.n.get("e1_not_closed"):
        run.cap("E1: %d state graphs hit the %d-state cap before closing" % (run.n["e1_not_closed"], max_states))
    else:
        run.notes["e1_all_state_graphs_closed"] = True

    scen = thread_scenarios(run.thorough)
    run.notes["thread_program_count"] = len(scen)
    run.pmap(_thread_worker, scen, chunks=min(len(scen), 256))

    groups = merge_groups(run.thorough)
    run.notes["merge_group_count"] = len(groups)
    run.pmap(_merge_worker, groups, chunks=min(len(groups), 128))

    run.assume("TTL boundary: an entry is served while age <= ttl and expires once age > ttl ('advance past TTL'); ttl = 0 means no expiry; "
               "expiry is lazy (on read), an expired but unread entry still occupies its slot (anchor: 'TTL on read')")
    run.assume("LRUBytes: a zero cap in ONE dimension means 'no limit in that dimension' (t1/t2 build the cache when either cap is > 0); "
               "both zero = disabled; an item above a positive byte cap is rejected without any change")
    run.assume("clock: monotone, integer-valued advances from {1, ttl, ttl+1} (ttl > 0) resp. {1, 1e9} (ttl = 0); ages above ttl are "
               "canonicalised to ttl+1; when ttl = 0 ages are canonicalised to the two classes < 1e9 / >= 1e9 (a substituted expiry "
               "period of 1e9 s or more would not show)")
    run.assume("LRUCache constructor: one alias per setting is passed (max_entries|capacity, ttl_s|ttl_sec|ttl); an explicitly passed "
               "value, 0 included, is the configured value.  Precedence between SEVERAL aliases given at once and the defaults "
               "used when a setting is omitted are not documented and not checked")
    run.assume("threads: preemption only at lock acquisitions and at source-line boundaries inside cache.py, lru_bytes.py, lru_det.py "
               "(a data race inside one source line, e.g. `x += 1`, is not visible); preemption bound as stated per program")
    run.assume("what a zero-capacity TTL cache reports as 'evicted' (set() return / stats) is unspecified and not compared")
    run.assume("DedupeRing.discard(): after a discard only capacity / no-exception / disabled invariants are checked until the next clear()")
    run.assume("merge: worker order keys and key order keys are pairwise distinct (ties fall back to list order by design); worker caches are "
               "large enough not to evict; under assert_equal only raise/no-raise and permutation-independence are compared; "
               "0 <= workers <= 3, <= 3 keys; an empty worker list / empty workers must leave the target as it was")
    run.assume("random long histories beyond the closure / real pools under jitter are not part of this check (sampling)")


def replay(case):
    kind = case.get("kind")
    if kind == "history":
        return explore.replay_history(make_system(case["system"]), case["history"])
    if kind == "threads":
        sc = _ThreadScenario(case)
        allowed = sc.sequential_outcomes()
        ex, ctx = sched.run_schedule(sc.make, len(sc.programs), TRACED_FILES, case.get("choices") or [])
        if ex.error:
            raise HarnessError(ex.error)
        return sc.judge(ex, ctx, allowed)
    if kind == "merge":
        res, _ = check_merge(case)
        return [(sig, what) for sig, what, _ in res]
    raise HarnessError("unknown case kind %r" % kind)
