"""C17 — scheduling: determinism, eligibility, starvation bound, budgets bind, yield precedence.

Engines E1 (explicit-state BFS to closure) + E2 (small-scope enumeration) + E5 (owned clock).

(a) ``sched``  BFS to closure over all select/yield histories of the REAL ``next_turn`` + ``on_yield``
    (clematis/engine/scheduler.py) driven the way clematis/scripts/demo.py drives them
    (select at time t; the turn takes d ms; ``on_yield(reset = pick_reason == "RESET_CONSEC")`` at t+d;
    optional head->tail rotation of the picked agent; optional idle gap g before the next selection) for
    n in 2..4 agents x policy x allowance x aging_ms x rotation.  A state is
    (queue, idle = now - last_ran per agent, allowance counters, "selections since my last turn" per agent);
    absolute times are canonicalised to idle durations (shift invariance is re-validated on every transition by
    executing the selection at a second time base with the dicts built in the opposite insertion order).  The
    starvation bound B = 2(n-1)*allowance+1 is a state invariant: a state violating it is reported and not
    expanded, so the graph is finite exactly when the bound holds; a depth cap 4B+4 is a safety net.
    Oracle per transition: selection pure + deterministic; pick queued; pick under its allowance unless every
    agent is saturated, then pick = lexicographic minimum with reason RESET_CONSEC and all counters zero after
    its yield; documented policy (round_robin: first eligible in queue order; fair_queue with aging > 0: highest
    tier idle//aging among eligible, lexicographic tie-break; fair_queue with aging = 0: the statement is silent,
    either documented reading is accepted); yield bookkeeping; wait <= B.
(b) ``yield``  ``_should_yield`` over every budget x consumption x wall x elapsed combination against a reference
    precedence function (class level: WALL > BUDGET_* > QUANTUM > none; which of several exhausted stage budgets is
    named is not checked, a consumption strictly above its budget may or may not count as exhausted).
(c) ``turn``   full real turns, scheduler enabled, budgets from {absent,0,1,2}^4, wall {absent,W}, the FakeClock
    advanced inside the stage seams: clamps (pops, layers, hits used, plan ops), exactly one boundary, reason
    precedence, later-stage records absent.
(c') ``resumed slices``  slice HISTORIES on one shared state, the way clematis/scripts/demo.py drives the engine (one
    state dict, one text, the agent comes round again): after every distinct first slice that stopped at a boundary
    before Apply (nothing applied, version_etag and snapshots untouched) the identical turn is run again on the same
    state object in the same process - nothing is reset, so whatever the earlier slice left behind (turn-level result
    cache in the state, process-global stage caches) is in play - and judged by the same per-slice oracle.  A stage
    whose seam is not entered on a resumed slice was served from a store: it takes no time, and what the slice consumes
    of its budget is what the stored result holds (hits used = k_used of the stored T2 result), so the budget must bind
    and be named with the same precedence as on the slice that computed it.
(d) ``driver histories``  the real scheduling DRIVER (clematis/scripts/demo.py ``main()``: select -> run_one_turn with the
    driver-authored scheduler log -> bookkeeping/rotation only for turns that yielded) is run over every sequence of per-turn
    stage-duration scripts (so yielding and completing turns mix inside one run, on one shared state, with the driver's own
    variables living across the turns) x policy x allowance (x wall).  Oracle: the scheduler records of the run are, in
    order, exactly the turns that had to stop at a stage boundary under the reference precedence (that turn's agent, that
    boundary, an allowed reason) - no record for a turn that ran to completion - and the turn records agree.
"""
from __future__ import annotations

import itertools
import json
import os
import shutil
import sys
import time as _realtime
import types

from mc.runner import Run, Stats, HarnessError

from clematis.engine import scheduler as sched_mod

# ====================================================================================================
# (a) scheduler BFS
# ====================================================================================================
AGENTS = ["A", "B", "C", "D", "E"]
BASE1 = 100_000          # time base of the primary execution
BASE2 = 7_777_777        # time base of the shift-invariance / determinism re-execution
PICK_REASONS = ("ROUND_ROBIN", "AGING_BOOST", "RESET_CONSEC")


class _Clk:
    __slots__ = ("t",)

    def __init__(self, t=0):
        self.t = t

    def now_ms(self):
        return self.t


def bound(n, m):
    return 2 * (n - 1) * m + 1


def _mk_sched(agents, q, idle, consec, now, rev=False):
    order = list(reversed(agents)) if rev else list(agents)
    ix = {a: i for i, a in enumerate(agents)}
    return {
        "queue": list(q),
        "last_ran_ms": {a: now - idle[ix[a]] for a in order},
        "consec_turns": {a: consec[ix[a]] for a in order},
    }


def _cfg_tuple(c):
    return (int(c["n"]), str(c["policy"]), int(c["allowance"]), int(c["aging"]), bool(c["rotate"]))


def sched_init(n):
    agents = AGENTS[:n]
    s = sched_mod.init_scheduler_state(list(reversed(agents)), now_ms=0)
    if s["queue"] != sorted(agents) or any(s["consec_turns"][a] != 0 for a in agents) or any(
            s["last_ran_ms"][a] != 0 for a in agents):
        raise HarnessError("init_scheduler_state no longer gives the sorted queue with zero counters")
    return (tuple(s["queue"]), (0,) * n, (0,) * n, (0,) * n)


class _Desc:
    """lazy one-line description of a scheduler configuration + state (only formatted on a violation)"""
    __slots__ = ("cfg", "state")

    def __init__(self, cfg, state):
        self.cfg, self.state = cfg, state

    def __str__(self):
        n, policy, m, aging, rotate = self.cfg
        q, idle, consec, wait = self.state
        return "n=%d policy=%s allowance=%d aging=%d rotate=%s queue=%s idle=%s used=%s" % (
            n, policy, m, aging, rotate, list(q), list(idle), list(consec))


def sched_step(cfg, state, d, g):
    """One select + yield (+rotation, +gap) on fresh real objects.
    returns (violations [(sig, what)], successor state or None, info dict)"""
    n, policy, m, aging, rotate = cfg
    agents = AGENTS[:n]
    ix = {a: i for i, a in enumerate(agents)}
    q, idle, consec, wait = state
    fair = {"max_consecutive_turns": m, "aging_ms": aging}
    out = []
    desc = _Desc(cfg, state)

    now = BASE1
    s1 = _mk_sched(agents, q, idle, consec, now)
    b_last = dict(s1["last_ran_ms"])
    b_consec = dict(s1["consec_turns"])
    clk = _Clk(now)
    try:
        r1 = sched_mod.next_turn(clk, s1, policy, fair)
        pick, reason = r1[0], r1[2]
    except Exception as e:  # the core promises never to raise
        return [("sched:next_turn-raises:%s" % type(e).__name__, "next_turn raised %r in %s" % (e, desc))], None, {}
    if s1["queue"] != list(q) or s1["last_ran_ms"] != b_last or s1["consec_turns"] != b_consec or len(s1) != 3:
        out.append(("sched:next_turn-mutates-state", "selection changed the scheduler state in %s" % desc))
        s1 = _mk_sched(agents, q, idle, consec, now)
    # same (state, clock-relative-to-state, policy) => same pick: other time base, other dict insertion order
    s2 = _mk_sched(agents, q, idle, consec, BASE2, rev=True)
    fair2 = {"aging_ms": aging, "max_consecutive_turns": m}
    try:
        r2 = sched_mod.next_turn(_Clk(BASE2), s2, policy, fair2)
    except Exception as e:
        r2 = ("<raised %r>" % (e,), {}, None)
    if (r2[0], r2[2]) != (pick, reason):
        out.append(("sched:nondeterministic:%s" % policy,
                    "same state/relative clock gave (%r,%r) and (%r,%r) in %s" % (pick, reason, r2[0], r2[2], desc)))

    info = {"pick": pick, "reason": reason}
    if pick not in q:
        out.append(("sched:pick-not-queued", "picked %r which is not in the queue; %s" % (pick, desc)))
        return out, None, info
    eligible = [a for a in q if consec[ix[a]] < m]
    info["saturated"] = n - len(eligible)
    if eligible:
        if reason == "RESET_CONSEC":
            out.append(("sched:spurious-reset", "RESET_CONSEC signalled although %s still have allowance; %s" % (eligible, desc)))
        if pick not in eligible:
            out.append(("sched:pick-saturated:%s" % policy,
                        "picked %r (used %d of %d) while %s still have allowance; %s" % (pick, consec[ix[pick]], m, eligible, desc)))
        elif policy == "round_robin":
            if pick != eligible[0]:
                out.append(("sched:policy:round_robin:not-first-eligible",
                            "picked %r, first eligible in queue order is %r; %s" % (pick, eligible[0], desc)))
        elif policy == "fair_queue" and aging > 0:
            tiers = {a: max(0, idle[ix[a]]) // aging for a in eligible}
            top = max(tiers.values())
            want = min(a for a in eligible if tiers[a] == top)
            if pick != want:
                out.append(("sched:policy:fair_queue:not-highest-tier-lex",
                            "picked %r, highest aging tier with lexicographic tie-break is %r (tiers %s); %s" % (
                                pick, want, tiers, desc)))
        elif policy == "fair_queue":
            if pick not in (min(eligible), eligible[0]):
                out.append(("sched:policy:fair_queue:aging0",
                            "picked %r, neither the lexicographically first nor the first queued eligible agent; %s" % (pick, desc)))
    else:
        if pick != min(q):
            out.append(("sched:reset-not-lex-first", "all saturated, picked %r instead of %r; %s" % (pick, min(q), desc)))
        if reason != "RESET_CONSEC":
            out.append(("sched:all-saturated:no-reset-signal",
                        "all agents saturated but reason is %r, not RESET_CONSEC; %s" % (reason, desc)))
    if reason not in PICK_REASONS:
        out.append(("sched:unknown-pick-reason", "reason %r; %s" % (reason, desc)))

    # ---- yield bookkeeping exactly as the driver does it
    reset = reason == "RESET_CONSEC"
    clk.t = now + d
    try:
        sched_mod.on_yield(clk, s1, pick, {}, "", fair, reset=reset)
    except Exception as e:
        out.append(("sched:on_yield-raises:%s" % type(e).__name__, "on_yield raised %r; %s" % (e, desc)))
        return out, None, info
    if s1["queue"] != list(q):
        out.append(("sched:on_yield:queue-mutated", "queue %s -> %s; %s" % (list(q), s1["queue"], desc)))
    exp_last = {a: now - idle[ix[a]] for a in agents}
    exp_last[pick] = now + d
    if {a: s1["last_ran_ms"].get(a) for a in agents} != exp_last:
        out.append(("sched:on_yield:last-ran", "last_ran_ms %s expected %s (pick %r, yield at %d); %s" % (
            s1["last_ran_ms"], exp_last, pick, now + d, desc)))
    got_c = {a: s1["consec_turns"].get(a) for a in agents}
    if reset:
        if any(got_c[a] != 0 for a in agents):
            out.append(("sched:on_yield:reset-not-zero", "after the reset turn the counters are %s; %s" % (got_c, desc)))
    else:
        exp_c = {a: consec[ix[a]] for a in agents}
        exp_c[pick] += 1
        if got_c != exp_c:
            out.append(("sched:on_yield:consec", "counters %s expected %s; %s" % (got_c, exp_c, desc)))
    qq = list(s1["queue"])
    if rotate:  # clematis/scripts/demo.py: head -> tail of the agent that ran
        try:
            qq.remove(pick)
            qq.append(pick)
        except ValueError:
            pass
    now2 = now + d + g
    try:
        idle2 = tuple(int(now2 - s1["last_ran_ms"][a]) for a in agents)
        consec2 = tuple(int(s1["consec_turns"][a]) for a in agents)
    except Exception as e:
        out.append(("sched:on_yield:state-shape", "state lost an agent: %r; %s" % (e, desc)))
        return out, None, info
    wait2 = tuple(0 if a == pick else wait[ix[a]] + 1 for a in agents)
    B = bound(n, m)
    info["maxwait"] = max(wait2)
    if max(wait2) > B:
        starved = [a for a in agents if wait2[ix[a]] > B]
        out.append(("sched:starvation:%s" % policy,
                    "%s waited %d selections > bound %d; %s" % (starved, max(wait2), B, desc)))
        return out, None, info
    return out, (tuple(qq), idle2, consec2, wait2), info


def _sched_case(cfg, path):
    n, policy, m, aging, rotate = cfg
    return {"kind": "sched", "n": n, "policy": policy, "allowance": m, "aging": aging, "rotate": rotate,
            "history": [list(p) for p in path]}


def bfs_config(cfg, advs, gaps, st: Stats):
    n, policy, m, aging, rotate = cfg
    timed = policy == "fair_queue" and aging > 0
    # for round_robin and aging=0 the accepted picks are a function of (queue, counters) only (checked on every
    # transition by the policy oracle), so the idle durations are not part of the canonical state there
    canon = (lambda s: s) if timed else (lambda s: (s[0], s[2], s[3]))
    init = sched_init(n)
    seen = {canon(init)}
    frontier = [(init, ())]
    depth = 0
    B = bound(n, m)
    cap = 4 * B + 4
    maxwait = 0
    ntr = 0
    outs = set()
    nviol = 0
    tag = "n%d/%s/m%d/a%d/r%d" % (n, policy, m, aging, int(rotate))
    while frontier:
        if depth >= cap:
            st.add("depth_cap_hit")
            st.notes["depth_cap_config"] = tag
            break
        nxt = []
        for state, path in frontier:
            for d in advs:
                for g in gaps:
                    viols, succ, info = sched_step(cfg, state, d, g)
                    ntr += 1
                    for sig, what in viols:
                        st.violation(sig, what, _sched_case(cfg, path + ((d, g),)))
                    nviol += bool(viols)
                    oc = (policy, info.get("reason"), info.get("pick"), info.get("saturated"), bool(viols))
                    if oc not in outs:
                        outs.add(oc)
                        st.distinct("outcomes", ("sched",) + oc)
                    if info.get("saturated"):
                        st.add("nontrivial")
                    maxwait = max(maxwait, info.get("maxwait", 0))
                    if succ is None:
                        continue
                    c = canon(succ)
                    if c in seen:
                        continue
                    seen.add(c)
                    nxt.append((succ, path + ((d, g),)))
        frontier = nxt
        depth += 1
        if nviol >= 500:
            # the oracle already failed on hundreds of transitions of this configuration (the verdict is fixed); a broken
            # bookkeeping can make the idle durations grow without bound, so stop instead of running into the depth cap
            st.add("sched_configs_abandoned_after_500_violations")
            break
    st.add("transitions", ntr)
    st.add("validated", ntr)
    st.add("sched_transitions", ntr)
    st.add("sched_states", len(seen))
    for c in seen:  # int digests are taken as they are by Stats.distinct (the count does not depend on the hash seed)
        st.distinct("states", hash(("sched", cfg, c)))
    st.notes["sched_max_depth"] = max(int(st.notes.get("sched_max_depth", 0)), depth)
    st.notes["sched_max_wait_over_bound_x1000"] = max(int(st.notes.get("sched_max_wait_over_bound_x1000", 0)),
                                                      int(1000 * maxwait / B))
    if maxwait == B:
        st.add("sched_configs_reaching_bound")
    return len(seen), ntr, depth, maxwait


def replay_sched(case):
    cfg = _cfg_tuple(case)
    state = sched_init(cfg[0])
    res = []
    for d, g in case["history"]:
        viols, succ, _ = sched_step(cfg, state, int(d), int(g))
        res.extend(viols)
        if succ is None:
            break
        state = succ
    seen, out = set(), []
    for sig, what in res:
        if sig not in seen:
            seen.add(sig)
            out.append((sig, what))
    return out


# ====================================================================================================
# (b) _should_yield against a reference precedence function
# ====================================================================================================
BKEYS = ("t1_iters", "t1_pops", "t2_k", "t3_ops")
BREASON = {"t1_iters": "BUDGET_T1_ITERS", "t1_pops": "BUDGET_T1_POPS", "t2_k": "BUDGET_T2_K", "t3_ops": "BUDGET_T3_OPS"}
Q_MS = 20
W_MS = 50


def ref_yield(budgets, consumed):
    """Allowed outcomes (set of reason strings / None) for one boundary.  Class precedence only."""
    el = consumed.get("ms", 0)
    if budgets.get("wall_ms") is not None and el >= budgets["wall_ms"]:
        return {"WALL_MS"}
    eq = [k for k in BKEYS if budgets.get(k) is not None and consumed.get(k) is not None and consumed[k] == budgets[k]]
    over = [k for k in BKEYS if budgets.get(k) is not None and consumed.get(k) is not None and consumed[k] > budgets[k]]
    rest = "QUANTUM_EXCEEDED" if el >= budgets["quantum_ms"] else None
    if eq:
        return {BREASON[k] for k in eq + over}
    if over:  # the statement does not say whether an overshoot counts as "budget reached"
        return {BREASON[k] for k in over} | {rest}
    return {rest}


def _cls(r):
    if r is None:
        return "NONE"
    if r == "WALL_MS":
        return "WALL"
    if r == "QUANTUM_EXCEEDED":
        return "QUANTUM"
    if isinstance(r, str) and r.startswith("BUDGET_"):
        return "BUDGET"
    return "OTHER"


def _allowed_cls(allowed):
    return "|".join(sorted({_cls(a) for a in allowed}))


def check_yield(budgets, consumed, fn=None):
    if fn is None:
        from clematis.engine.orchestrator import core
        fn = core._should_yield
    sc = {"slice_idx": 1, "started_ms": 0, "budgets": dict(budgets), "agent_id": "A"}
    allowed = ref_yield(budgets, consumed)
    try:
        got = fn(sc, dict(consumed))
    except Exception as e:
        return [("yield:raises:%s" % type(e).__name__, "_should_yield raised %r for budgets=%s consumed=%s" % (e, budgets, consumed))], allowed, "RAISES"
    if got in allowed:
        return [], allowed, got
    sig = "yield:expected-%s:got-%s" % (_allowed_cls(allowed), _cls(got))
    if _cls(got) == "BUDGET" and "BUDGET" in _allowed_cls(allowed):
        sig = "yield:names-unexhausted-budget"
    return [(sig, "_should_yield(budgets=%s, consumed=%s) = %r, allowed %s" % (
        json.dumps(budgets, sort_keys=True), json.dumps(consumed, sort_keys=True), got, sorted(map(str, allowed))))], allowed, got


def _yield_worker(chunk, st: Stats, vals, walls, elapsed):
    from clematis.engine.orchestrator import core
    fn = core._should_yield
    opts = [None] + list(vals)
    cvecs = list(itertools.product(opts, repeat=4))
    cbases = [{k: v for k, v in zip(BKEYS, cvec) if v is not None} for cvec in cvecs]
    outs = set()
    ncase = nnon = 0
    for bvec in chunk:
        base = {k: v for k, v in zip(BKEYS, bvec) if v is not None}
        base["quantum_ms"] = Q_MS
        for wall in walls:
            budgets = dict(base)
            if wall is not None:
                budgets["wall_ms"] = wall
            st.distinct("states", ("yield-budgets", bvec, wall))
            for cbase in cbases:
                bhit = False
                for k, v in cbase.items():
                    if base.get(k) == v:
                        bhit = True
                for el in elapsed:
                    consumed = dict(cbase)
                    consumed["ms"] = el
                    viols, allowed, got = check_yield(budgets, consumed, fn)
                    ncase += 1
                    if int(wall is not None and el >= wall) + int(el >= Q_MS) + int(bhit) >= 2:
                        nnon += 1
                    oc = (frozenset(allowed), got)
                    if oc not in outs:
                        outs.add(oc)
                        st.distinct("outcomes", ("yield", _allowed_cls(allowed), str(got)))
                    for sig, what in viols:
                        st.violation(sig, what, {"kind": "yield", "budgets": budgets, "consumed": consumed})
    st.add("transitions", ncase)
    st.add("validated", ncase)
    st.add("yield_cases", ncase)
    st.add("nontrivial", nnon)


# ====================================================================================================
# (c) full turns
# ====================================================================================================
STAGES = ("T1", "T2", "T3", "T4", "Apply")
STAGE_FILE = {"T1": "t1.jsonl", "T2": "t2.jsonl", "T4": "t4.jsonl", "Apply": "apply.jsonl"}
T3_FILES = ("t3.jsonl", "t3_plan.jsonl", "t3_dialogue.jsonl")
LABELS = ["apple", "pear", "fig", "plum", "kiwi", "lime"]
NOW_ISO = "2025-01-02T00:00:00+00:00"
NOW_MS = 1735776000000

WORLDS = {
    # graph id -> (nodes [(id,label)], edges [(src,dst)])
    "W1": {"g1": ([("a", "apple"), ("b", "pear"), ("c", "fig"), ("d", "plum")], [("a", "b"), ("b", "c"), ("c", "d")])},
    "W2": {"g1": ([("a", "apple"), ("b", "pear"), ("c", "fig"), ("d", "plum")], [("a", "b"), ("b", "c"), ("c", "d")]),
           "g2": ([("p", "apple"), ("q", "kiwi"), ("r", "lime")], [("p", "q"), ("q", "r")])},
}
EPISODES = [("ep1", "apple"), ("ep2", "apple pear"), ("ep3", "fig apple"), ("ep4", "plum"), ("ep5", "kiwi lime")]


def _vec(text):
    import numpy as np
    t = text.lower()
    return np.asarray([1.0 if w in t else 0.0 for w in LABELS], dtype=np.float32)


class _Enc:
    def encode(self, texts):
        return [_vec(t) for t in texts]


class _AttrDict(dict):
    def __getattr__(self, name):
        try:
            return self[name]
        except KeyError as e:
            raise AttributeError(name) from e

    def __setattr__(self, name, value):
        self[name] = value


def _to_attrdict(o):
    if isinstance(o, dict):
        return _AttrDict({k: _to_attrdict(v) for k, v in o.items()})
    if isinstance(o, list):
        return [_to_attrdict(v) for v in o]
    return o


def build_state(world):
    from clematis.graph.store import InMemoryGraphStore, Node, Edge
    from clematis.memory.index import InMemoryIndex
    store = InMemoryGraphStore()
    for gid, (nodes, edges) in WORLDS[world].items():
        store.ensure(gid)
        store.upsert_nodes(gid, [Node(id=i, label=lb) for i, lb in nodes])
        store.upsert_edges(gid, [Edge(id="%s>%s" % (s, t), src=s, dst=t, weight=0.8, rel="supports") for s, t in edges])
    idx = InMemoryIndex()
    for eid, txt in EPISODES:
        idx.add({"id": eid, "owner": "A", "text": txt, "vec_full": _vec(txt), "ts": "2025-01-01T00:00:00+00:00",
                 "aux": {"importance": 0.5}})
    return {"version_etag": "0", "store": store, "active_graphs": sorted(WORLDS[world]), "mem_index": idx}


def world_reach(world, text, layers):
    """node ids within `layers` hops of the seeds (labels contained in the text), per graph union"""
    out = set()
    for gid, (nodes, edges) in WORLDS[world].items():
        cur = {i for i, lb in nodes if lb in text.lower()}
        seen = set(cur)
        for _ in range(layers):
            cur = {t for s, t in edges if s in cur} - seen
            seen |= cur
        out |= seen
    return out


def world_label_ids(world):
    m = {}
    for gid, (nodes, edges) in WORLDS[world].items():
        for i, lb in nodes:
            m.setdefault(lb, set()).add(i)
    return m


class _Rec:
    def __init__(self, script):
        self.script = script
        self.calls = []
        self.t1 = None
        self.heappops = 0
        self.in_t1 = False
        self.t2 = []
        self.t2_stage = None     # result of the T2 STAGE call (t2[] also holds retrievals issued from inside T3)
        self.plan_len = None
        self.extra_calls = []
        # resumed slices only: stage results computed by EARLIER slices of the same history on the (unchanged) state
        # {"T1": T1Result, "T2": T2Result, "T3": plan length, "T4": True}; a stage whose seam is not entered on a
        # resumed slice although such a result exists was served from a store (zero duration, same consumption)
        self.carry = {}


class _FakeTime:
    def __init__(self, h):
        self._h = h

    def perf_counter(self):
        return self._h.clock_ms / 1000.0

    def __getattr__(self, n):
        return getattr(_realtime, n)


class _HeapqProxy:
    def __init__(self, real, h):
        self._real = real
        self._h = h

    def heappop(self, heap):
        r = self._h.rec
        if r is not None and r.in_t1:
            r.heappops += 1
        return self._real.heappop(heap)

    def __getattr__(self, n):
        return getattr(self._real, n)


class Harness:
    """Owns the seams for full turns (installed once per process, one `rec` per turn)."""

    def __init__(self, scratch):
        self.logs = os.path.join(scratch, "logs")
        self.snaps = os.path.join(scratch, "snaps")
        os.makedirs(self.logs, exist_ok=True)
        os.makedirs(self.snaps, exist_ok=True)
        self.clock_ms = 1000
        self.rec = None
        self._cfg_cache = {}
        self._saved = None
        self.last_consumed = None
        self.hist = None   # the slice history executed last: {"state", "cfg", "text", "script", "slices": [(rec, logs)], "carry"}

    # ---- seams
    def install(self):
        import heapq as real_heapq
        import clematis.engine.orchestrator as orch
        from clematis.engine.orchestrator import core
        import clematis.engine.stages.t1 as t1m
        from clematis.engine.stages.t2 import core as t2core
        for mod, names in ((core, ("time", "t4_filter", "apply_changes", "deliberate", "_should_yield", "_get_stage_callable")),
                           (t1m, ("heapq", "t1_propagate", "_T1_CACHE", "_T1_CACHE_CFG")), (t2core, ("t2_semantic",))):
            for nm in names:
                if not hasattr(mod, nm):
                    raise HarnessError("seam missing: %s.%s" % (mod.__name__, nm))
        import clematis.engine.stages.t2.cache as t2c
        for nm in ("_T2_CACHE", "_T2_CACHE_CFG"):
            if not hasattr(t2c, nm):
                raise HarnessError("seam missing: t2.cache.%s" % nm)
        self._mods = (orch, core, t1m, t2core, t2c)
        self._saved = {
            "core.time": core.time, "core.t4_filter": core.t4_filter, "core.apply_changes": core.apply_changes,
            "t1m.heapq": t1m.heapq,
            "orch.t1_propagate": orch.__dict__.get("t1_propagate"), "orch.t2_semantic": orch.__dict__.get("t2_semantic"),
            "orch.t3_deliberate": orch.__dict__.get("t3_deliberate"),
            "env": os.environ.get("CLEMATIS_LOG_DIR"),
        }
        real_t4, real_apply = core.t4_filter, core.apply_changes
        h = self

        def w_t1(ctx, state, text):
            r = h.rec
            r.calls.append("T1")
            r.in_t1 = True
            try:
                res = t1m.t1_propagate(ctx, state, text)
            finally:
                r.in_t1 = False
            r.t1 = res
            h.clock_ms += r.script[0]
            return res

        def w_t2(ctx, state, text, t1):
            r = h.rec
            # (a retrieval issued from inside T3 is never "the T2 stage", also when the T2 stage itself was served
            #  from the turn-level store on a resumed slice and therefore never entered this seam)
            first = "T2" not in r.calls and "T3" not in r.calls
            (r.calls if first else r.extra_calls).append("T2")
            res = t2core.t2_semantic(ctx, state, text, t1)
            r.t2.append(res)
            if first:
                r.t2_stage = res
                h.clock_ms += r.script[1]
            return res

        def w_t3(ctx, state, bundle):
            r = h.rec
            r.calls.append("T3")
            plan = core.deliberate(bundle)
            r.plan_len = sum(1 for _ in (getattr(plan, "ops", []) or []))
            h.clock_ms += r.script[2]
            return plan

        def w_t4(ctx, state, t1, t2, plan, utter):
            r = h.rec
            r.calls.append("T4")
            res = real_t4(ctx, state, t1, t2, plan, utter)
            h.clock_ms += r.script[3]
            return res

        def w_apply(ctx, state, t4):
            r = h.rec
            r.calls.append("Apply")
            res = real_apply(ctx, state, t4)
            h.clock_ms += r.script[4]
            return res

        core.time = _FakeTime(self)
        core.t4_filter = w_t4
        core.apply_changes = w_apply
        t1m.heapq = _HeapqProxy(real_heapq, self)
        orch.t1_propagate = w_t1
        orch.t2_semantic = w_t2
        orch.t3_deliberate = w_t3
        os.environ["CLEMATIS_LOG_DIR"] = self.logs

    def uninstall(self):
        if not self._saved:
            return
        orch, core, t1m, t2core, t2c = self._mods
        core.time = self._saved["core.time"]
        core.t4_filter = self._saved["core.t4_filter"]
        core.apply_changes = self._saved["core.apply_changes"]
        t1m.heapq = self._saved["t1m.heapq"]
        for nm in ("t1_propagate", "t2_semantic", "t3_deliberate"):
            v = self._saved["orch." + nm]
            if v is None:
                orch.__dict__.pop(nm, None)
                if nm == "t3_deliberate":
                    core.__dict__.pop(nm, None)
            else:
                setattr(orch, nm, v)
        if self._saved["env"] is None:
            os.environ.pop("CLEMATIS_LOG_DIR", None)
        else:
            os.environ["CLEMATIS_LOG_DIR"] = self._saved["env"]
        self._saved = None

    def reset_caches(self):
        orch, core, t1m, t2core, t2c = self._mods
        t1m._T1_CACHE = None
        t1m._T1_CACHE_CFG = None
        if hasattr(t1m, "_T1_CACHE_KIND"):
            t1m._T1_CACHE_KIND = None
        t2c._T2_CACHE = None
        t2c._T2_CACHE_CFG = None
        if hasattr(t2c, "_T2_CACHE_KIND"):
            t2c._T2_CACHE_KIND = None

    def _clean(self):
        for d in (self.logs, self.snaps):
            for e in os.scandir(d):
                if e.is_dir(follow_symlinks=False):
                    shutil.rmtree(e.path, ignore_errors=True)
                else:
                    os.unlink(e.path)

    def config(self, budgets, wall):
        key = (tuple(budgets.get(k) for k in BKEYS), wall)
        raw = self._cfg_cache.get(key)
        if raw is None:
            from configs.validate import validate_config
            b = {k: budgets.get(k) for k in BKEYS}
            b["wall_ms"] = wall
            raw = validate_config({
                "t1": {"decay": {"mode": "exp_floor", "rate": 0.6, "floor": 0.05}},
                "t2": {"sim_threshold": 0.3},  # hits then vary with the text (0, 1, 2, 4-5)
                "t4": {"snapshot_dir": self.snaps},
                "scheduler": {"enabled": True, "policy": "round_robin", "quantum_ms": Q_MS, "budgets": b},
            })
            sb = raw["scheduler"]["budgets"]
            for k in BKEYS:
                if sb.get(k) != budgets.get(k):
                    raise HarnessError("validator changed budget %s: %r -> %r" % (k, budgets.get(k), sb.get(k)))
            if sb.get("wall_ms") != wall or raw["scheduler"]["quantum_ms"] != Q_MS or raw["scheduler"]["enabled"] is not True:
                raise HarnessError("validator changed wall/quantum/enabled: %r" % (raw["scheduler"],))
            self._cfg_cache[key] = raw
        return _to_attrdict(json.loads(json.dumps(raw)))

    def driver_config(self, policy, allowance, wall):
        """Configuration FILE for the driver (clematis/scripts/demo.py --config): the repository's stock configs/config.yaml
        - what the driver runs with by default - with the snapshot directory redirected into the scratch area and a
        scheduler section: enabled, quantum Q_MS, stage budgets absent, optional wall, fairness allowance."""
        key = ("driver", policy, allowance, wall)
        path = self._cfg_cache.get(key)
        if path is None:
            try:
                import yaml
                from configs import validate as _cv
                src = os.path.join(os.path.dirname(os.path.abspath(_cv.__file__)), "config.yaml")
                with open(src, "r", encoding="utf-8") as f:
                    raw = yaml.safe_load(f) or {}
            except Exception as e:
                raise HarnessError("stock configuration not loadable for the driver leg: %r" % (e,))
            raw.setdefault("t4", {})["snapshot_dir"] = self.snaps
            budgets = {} if wall is None else {"wall_ms": int(wall)}
            raw["scheduler"] = {"enabled": True, "policy": policy, "quantum_ms": Q_MS, "budgets": budgets,
                                "fairness": {"max_consecutive_turns": int(allowance), "aging_ms": 200}}
            cdir = os.path.join(os.path.dirname(self.logs), "driver-cfg")
            os.makedirs(cdir, exist_ok=True)
            path = os.path.join(cdir, "cfg-%s-%d-%s.yaml" % (policy, allowance, wall))
            with open(path, "w", encoding="utf-8") as f:
                yaml.safe_dump(raw, f, sort_keys=True)
            self._cfg_cache[key] = path
        return path

    def read_logs(self):
        out = {}
        for e in os.scandir(self.logs):
            if e.is_file() and e.name.endswith(".jsonl"):
                with open(e.path, "r", encoding="utf-8") as f:
                    out[e.name] = [json.loads(ln) for ln in f if ln.strip()]
        return out

    # ---- one execution
    def run_turn(self, case):
        import clematis.engine.orchestrator as orch
        self.hist = None
        self._clean()
        self.reset_caches()
        self.clock_ms = 1000
        budgets = {k: case["budgets"].get(k) for k in BKEYS}
        cfg = self.config(budgets, case.get("wall"))
        state = build_state(case["world"])
        if case.get("warm"):
            # an earlier slice of the same process ran the same text on the same state WITHOUT budgets and left its
            # results in the process-global stage caches: the budgets of THIS slice must bind all the same
            cfg0 = self.config({k: None for k in BKEYS}, None)
            ctx0 = types.SimpleNamespace(turn_id=0, agent_id="A", now=NOW_ISO, now_ms=NOW_MS, cfg=cfg0, config=cfg0, enc=_Enc())
            self.rec = _Rec((0, 0, 0, 0, 0))
            try:
                orch.run_turn(ctx0, state, case["text"])
            finally:
                self.rec = None
            self._clean()
            self.clock_ms = 1000
        if case.get("warm") == "reuse-ctx":
            # a driver that keeps ONE context object across slices and only swaps the configuration in
            ctx = ctx0
            ctx.turn_id, ctx.cfg, ctx.config = 1, cfg, cfg
        else:
            ctx = types.SimpleNamespace(turn_id=1, agent_id="A", now=NOW_ISO, now_ms=NOW_MS, cfg=cfg, config=cfg, enc=_Enc())
        self.hist = None
        self.rec = rec = _Rec(tuple(int(x) for x in case["script"]))
        try:
            result = orch.run_turn(ctx, state, case["text"])
        finally:
            self.rec = None
        logs = self.read_logs()
        if not case.get("warm"):
            self.hist = {"state": state, "cfg_key": (budgets, case.get("wall")), "text": case["text"],
                         "script": rec.script, "slices": [(rec, logs)], "carry": {}}
        return rec, logs, state, result

    def resumable(self):
        """The slice executed last stopped at a boundary BEFORE Apply and left the state untouched: the driver runs the
        same turn again (clematis/scripts/demo.py: one shared state, one text, the agent comes round again)."""
        hs = self.hist
        if not hs:
            return None
        rec, logs = hs["slices"][-1]
        sr = logs.get("scheduler.jsonl", [])
        if len(sr) != 1 or sr[0].get("stage_end") not in STAGES[:4]:
            return None
        i = STAGES.index(sr[0]["stage_end"])
        if any(c not in STAGES[: i + 1] for c in rec.calls):
            return None
        if hs["state"].get("version_etag") != "0" or any(True for _ in os.scandir(self.snaps)):
            return None
        return sr[0]["stage_end"]

    def next_slice(self):
        """One more slice of the history executed last: same process (the process-global stage caches and everything the
        earlier slices left in `state` stay as they are), same state object, same configuration, text, agent and
        stage-duration script, a fresh context object with the next turn id, the slice clock restarted."""
        import clematis.engine.orchestrator as orch
        hs = self.hist
        prev, _ = hs["slices"][-1]
        carry = dict(hs["carry"])
        if "T1" in prev.calls and prev.t1 is not None:
            carry["T1"] = prev.t1
        if prev.t2_stage is not None:
            carry["T2"] = prev.t2_stage
        if "T3" in prev.calls and prev.plan_len is not None:
            carry["T3"] = prev.plan_len
        if "T4" in prev.calls:
            carry["T4"] = True
        hs["carry"] = carry
        cfg = self.config(*hs["cfg_key"])
        self._clean()
        self.clock_ms = 1000
        ctx = types.SimpleNamespace(turn_id=1 + len(hs["slices"]), agent_id="A", now=NOW_ISO, now_ms=NOW_MS, cfg=cfg,
                                    config=cfg, enc=_Enc())
        self.rec = rec = _Rec(hs["script"])
        rec.carry = carry
        try:
            orch.run_turn(ctx, hs["state"], hs["text"])
        finally:
            self.rec = None
        logs = self.read_logs()
        hs["slices"].append((rec, logs))
        return rec, logs, hs["state"]


def eval_turn(case, rec, logs, state):
    """oracle for one turn; returns ([(sig, what)], outcome, nontrivial)"""
    out = []
    budgets = {k: case["budgets"].get(k) for k in BKEYS}
    wall = case.get("wall")
    world, text, script = case["world"], case["text"], [int(x) for x in case["script"]]
    ngraphs = len(WORLDS[world])
    multi = ":multi-graph" if ngraphs > 1 else ""
    desc = "world=%s text=%r budgets=%s wall=%s script=%s" % (world, text, json.dumps(budgets, sort_keys=True), wall, script)
    clamped = False
    resumed = int(case.get("resume") or 0)
    carry = rec.carry if resumed else {}
    # a stage whose seam was not entered on a resumed slice although an earlier slice of the history computed its
    # result on the same, unchanged state: served from a store - no time passes in the seam, and the result the turn
    # works with (hence what the slice consumes of its budgets) is the stored one
    served = {s for s in STAGES[:4] if s not in rec.calls and s in carry}
    if resumed:
        desc += " [slice %d of a history of identical slices; every earlier one stopped before Apply%s]" % (
            resumed + 1, ("; %s not recomputed" % "/".join(sorted(served))) if served else "")

    t1res = rec.t1 if "T1" in rec.calls else carry.get("T1")
    if t1res is None or (rec.calls[:1] != ["T1"] and "T1" not in served):
        if resumed:
            return [("turn:stage-skipped-without-yield", "T1 did not run (calls=%s); %s" % (rec.calls, desc))], (
                "turn", "no-T1", "-"), False
        raise HarnessError("T1 seam not reached: calls=%s" % rec.calls)
    # ---------- clamps
    m1 = getattr(t1res, "metrics", {}) or {}
    pops, iters = int(m1.get("pops", 0)), int(m1.get("iters", 0))
    if pops > 0 and rec.heappops == 0 and not case.get("warm") and not resumed:   # (a warm-cache hit legitimately performs no pops)
        raise HarnessError("heappop seam in t1 no longer observes pops (metrics say %d)" % pops)
    bp, bi, bk, bo = budgets["t1_pops"], budgets["t1_iters"], budgets["t2_k"], budgets["t3_ops"]
    if bp is not None:
        if max(pops, rec.heappops) > bp:
            out.append(("clamp:t1_pops" + multi, "T1 popped %d (counted %d) > t1_pops=%d over %d graph(s); %s" % (
                pops, rec.heappops, bp, ngraphs, desc)))
        clamped = clamped or max(pops, rec.heappops) >= bp
    touched = {d.get("id") for d in (getattr(t1res, "graph_deltas", []) or []) if isinstance(d, dict)}
    if bi is not None:
        # the layer cap is a depth: the metric adds the depths of the active graphs, so it is bounded per graph
        if iters > bi * ngraphs:
            out.append(("clamp:t1_iters", "T1 reports %d layers > t1_iters=%d x %d graph(s); %s" % (iters, bi, ngraphs, desc)))
        reach = world_reach(world, text, bi)
        if not touched <= reach:
            out.append(("clamp:t1_layers-reach", "T1 touched %s, beyond %d layer(s) from the seeds (%s); %s" % (
                sorted(touched - reach), bi, sorted(reach), desc)))
        clamped = clamped or iters >= bi
    lab = world_label_ids(world)
    t2res = rec.t2_stage if rec.t2_stage is not None else (carry.get("T2") if "T2" in served else None)
    # (the result a resumed slice works with is held to this slice's cap as well, also when it came out of a store)
    for n_call, t2 in enumerate(([t2res] if "T2" in served and t2res is not None else []) + list(rec.t2)):
        m2 = getattr(t2, "metrics", {}) or {}
        if bk is not None:
            ku = m2.get("k_used")
            if ku is not None and int(ku) > bk:
                out.append(("clamp:t2_k", "T2 call %d used %s hits > t2_k=%d; %s" % (n_call, ku, bk, desc)))
            allowed_nodes = set()
            for ep in list(getattr(t2, "retrieved", []) or [])[:bk]:
                tx = (getattr(ep, "text", None) or (ep.get("text") if isinstance(ep, dict) else "") or "").lower()
                for lb, ids in lab.items():
                    if lb in tx:
                        allowed_nodes |= ids
            res_ids = {d.get("id") for d in (getattr(t2, "graph_deltas_residual", []) or []) if isinstance(d, dict)}
            if not res_ids <= allowed_nodes:
                out.append(("clamp:t2_k:residual", "T2 call %d nudged %s, not derivable from the first %d hit(s) (%s); %s" % (
                    n_call, sorted(res_ids - allowed_nodes), bk, sorted(allowed_nodes), desc)))
            clamped = clamped or (ku is not None and int(ku) >= bk)
    plan_len = rec.plan_len if "T3" in rec.calls else carry.get("T3")
    if bo is not None and plan_len is not None:
        if plan_len > bo:
            out.append(("clamp:t3_ops", "plan has %d ops > t3_ops=%d; %s" % (plan_len, bo, desc)))
        clamped = clamped or plan_len >= bo
    if bo is not None:
        for r in logs.get("t3_plan.jsonl", []):
            tot = sum(int(v) for v in (r.get("ops_counts") or {}).values())
            if tot > bo:
                out.append(("clamp:t3_ops:post-rag", "logged plan has %d ops > t3_ops=%d; %s" % (tot, bo, desc)))

    # ---------- yield structure
    sched_recs = logs.get("scheduler.jsonl", [])
    turn_recs = logs.get("turn.jsonl", [])
    if len(sched_recs) > 1:
        out.append(("turn:more-than-one-boundary", "%d scheduler records in one turn; %s" % (len(sched_recs), desc)))
    if len(turn_recs) != 1:
        out.append(("turn:turn-record-count", "%d turn.jsonl records; %s" % (len(turn_recs), desc)))
    actual = None
    if sched_recs:
        actual = (sched_recs[0].get("stage_end"), sched_recs[0].get("reason"))
    tr = turn_recs[0] if turn_recs else {}
    if bool(tr.get("yielded")) != bool(actual):
        out.append(("turn:yielded-flag-vs-scheduler-record", "turn.yielded=%r but scheduler records=%d; %s" % (
            tr.get("yielded"), len(sched_recs), desc)))
    if actual and tr.get("yielded") and tr.get("yield_reason") != actual[1]:
        out.append(("turn:reason-differs-between-records", "turn.yield_reason=%r scheduler.reason=%r; %s" % (
            tr.get("yield_reason"), actual[1], desc)))

    bd = {k: v for k, v in budgets.items() if v is not None}
    bd["quantum_ms"] = Q_MS
    if wall is not None:
        bd["wall_ms"] = wall
    elapsed = 0
    stop_at = None
    simultaneous = False
    for i, stage in enumerate(STAGES):
        if stage not in rec.calls and stage not in served:
            out.append(("turn:stage-skipped-without-yield", "stage %s did not run although no boundary before it fired; calls=%s; %s" % (
                stage, rec.calls, desc)))
            break
        if stage in rec.calls:   # (the clock only advances inside a seam that was entered)
            elapsed += script[i]
        consumed = {"ms": elapsed}
        if stage == "T1":
            consumed["t1_iters"], consumed["t1_pops"] = iters, pops
        elif stage == "T2":
            ku = (getattr(t2res, "metrics", {}) or {}).get("k_used") if t2res is not None else None
            if ku is not None:
                consumed["t2_k"] = int(ku)
        elif stage == "T3":
            if plan_len is not None:
                consumed["t3_ops"] = plan_len
        allowed = ref_yield(bd, consumed)
        nconds = int(wall is not None and elapsed >= wall) + int(elapsed >= Q_MS) + int(
            any(bd.get(k) is not None and consumed.get(k) == bd[k] for k in BKEYS))
        here = actual is not None and actual[0] == stage
        if here:
            simultaneous = nconds >= 2
            if actual[1] not in allowed:
                if None in allowed and len(allowed) == 1:
                    sig = "turn:spurious-yield:%s" % _cls(actual[1])
                else:
                    sig = "turn:expected-%s:got-%s" % (_allowed_cls(allowed), _cls(actual[1]))
                out.append((sig, "boundary %s consumed=%s: reason %r, allowed %s; %s" % (
                    stage, json.dumps(consumed, sort_keys=True), actual[1], sorted(map(str, allowed)), desc)))
            stop_at = i
            break
        if None not in allowed:
            out.append(("turn:missed-yield:%s" % _allowed_cls(allowed),
                        "boundary %s consumed=%s should yield with %s but the turn went on (actual yield %s); %s" % (
                            stage, json.dumps(consumed, sort_keys=True), sorted(map(str, allowed)), actual, desc)))
            break
    else:
        if actual is not None:
            out.append(("turn:yield-at-unknown-boundary", "scheduler record names stage_end=%r; %s" % (actual[0], desc)))
    if stop_at is not None:
        later = STAGES[stop_at + 1:]
        ran_later = [s for s in rec.calls if s in later]
        if ran_later:
            out.append(("turn:later-stage-ran", "yielded at %s but %s still ran; %s" % (STAGES[stop_at], ran_later, desc)))
        for s in later:
            files = T3_FILES if s == "T3" else (STAGE_FILE[s],)
            for fn in files:
                if logs.get(fn):
                    out.append(("turn:later-record-present:%s" % fn, "yielded at %s but %s has %d record(s); %s" % (
                        STAGES[stop_at], fn, len(logs[fn]), desc)))
    outcome = ("turn", actual[0] if actual else "-", actual[1] if actual else "-")
    nontrivial = bool(actual) and (simultaneous or clamped)
    return out, outcome, nontrivial


RESUMED = ":resumed-slice"


def _applied_after_yield(h, case, logs, state):
    # a yield before Apply must not have applied anything
    sched_recs = logs.get("scheduler.jsonl", [])
    if sched_recs and sched_recs[0].get("stage_end") in ("T1", "T2", "T3", "T4"):
        snaps = [e.name for e in os.scandir(h.snaps)]
        if state.get("version_etag") != "0" or snaps:
            return [("turn:applied-after-yield", "yielded at %s but version_etag=%r snapshots=%s; %s" % (
                sched_recs[0].get("stage_end"), state.get("version_etag"), snaps, json.dumps(case, sort_keys=True)))]
    return []


def check_first(h: Harness, case):
    """first slice of a history: fresh state, process-global stage caches reset"""
    h.last_consumed = None
    try:
        rec, logs, state, _ = h.run_turn(case)
    except HarnessError:
        raise
    except Exception as e:  # a turn with the scheduler on must not crash for any valid budget setting
        return [("turn:raises:%s" % type(e).__name__, "run_turn raised %r; %s" % (e, json.dumps(case, sort_keys=True)))], (
            "turn", "raises", type(e).__name__), False
    viols, outcome, nontrivial = eval_turn(case, rec, logs, state)
    viols.extend(_applied_after_yield(h, case, logs, state))
    # script entries after the boundary where the turn stopped were never read by any seam: every script that
    # shares the consumed prefix is the same execution
    h.last_consumed = None
    sched_recs = logs.get("scheduler.jsonl", [])
    if len(sched_recs) == 1 and sched_recs[0].get("stage_end") in STAGES:
        i = STAGES.index(sched_recs[0]["stage_end"])
        if all(c in STAGES[: i + 1] for c in rec.calls):
            h.last_consumed = i + 1
    return viols, outcome, nontrivial


def check_next(h: Harness, base, depth, seen):
    """Slice `depth`+1 of the history the harness executed last (it must be resumable): the per-slice oracle is the one
    of the first slice - the state is untouched, so the same clamps, the same boundary and the same reason precedence
    apply to what THIS slice consumes.  Clauses an earlier slice of the same history already failed (`seen`) are not
    reported again.  returns (violations, outcome, nontrivial, stages served without recomputation)"""
    case = dict(base, resume=depth)
    try:
        rec, logs, state = h.next_slice()
    except HarnessError:
        raise
    except Exception as e:
        h.hist = None
        return [("turn:raises:%s%s" % (type(e).__name__, RESUMED), "run_turn raised %r on slice %d; %s" % (
            e, depth + 1, json.dumps(case, sort_keys=True)))], ("turn", "raises", type(e).__name__), False, ()
    viols, outcome, nontrivial = eval_turn(case, rec, logs, state)
    viols.extend(_applied_after_yield(h, case, logs, state))
    new = []
    for sig, what in viols:
        if sig not in seen:
            new.append((sig + RESUMED, what))
    seen.update(sig for sig, _ in viols)
    served = tuple(s for s in STAGES[:4] if s not in rec.calls and s in rec.carry and (
        outcome[1] == "-" or (outcome[1] in STAGES and STAGES.index(s) <= STAGES.index(outcome[1]))))
    return new, outcome, nontrivial, served


def check_turn(h: Harness, case):
    """One case from scratch: the first slice, then `resume` more identical slices as long as each stopped before Apply
    (a history that ends earlier is outside the explored space: nothing to judge)."""
    n = int(case.get("resume") or 0)
    base = {k: v for k, v in case.items() if k != "resume"}
    res = check_first(h, base)
    if not n or base.get("warm"):
        return res
    h.last_consumed = None
    seen = {sig for sig, _ in res[0]}
    for d in range(1, n + 1):
        if h.resumable() is None:
            return [], ("turn", "history-ends", "-"), False
        res = check_next(h, base, d, seen)[:3]
        if h.hist is None:
            break
    return res


def minimise_turn(h, case, sig, what):
    """drop budgets / wall / script entries / the second graph while the same signature still fires"""
    cur, cur_what = json.loads(json.dumps(case)), what

    def still(c):
        for s_, w_ in check_turn(h, c)[0]:
            if s_ == sig:
                return w_
        return None
    cands = []
    for k in BKEYS:
        cands.append(("budgets", k))
    cands.append(("wall", None))
    for i in range(5):
        cands.append(("script", i))
    for what_, k in cands:
        c = json.loads(json.dumps(cur))
        if what_ == "budgets":
            if c["budgets"].get(k) is None:
                continue
            c["budgets"][k] = None
            if still(c) is None:  # the budget is needed: shrink its value instead
                for v in range(0, int(cur["budgets"][k])):
                    c["budgets"][k] = v
                    if still(c) is not None:
                        break
                else:
                    continue
        elif what_ == "wall":
            if c.get("wall") is None:
                continue
            c["wall"] = None
        else:
            if not c["script"][k]:
                continue
            c["script"][k] = 0
        w = still(c)
        if w is not None:
            cur, cur_what = c, w
    h.last_consumed = None
    return cur, cur_what


def _dedupe(viols):
    seen, out = set(), []
    for sig, what in viols:
        if sig not in seen:
            seen.add(sig)
            out.append((sig, what))
    return out


def _turn_worker(chunk, st: Stats, scratch_root, scripts, texts, worlds, rdepth=1, rfrom=("T2", "T3", "T4")):
    import logging
    logging.disable(logging.CRITICAL)
    scratch = os.path.join(scratch_root, "turn-%d" % os.getpid())
    h = Harness(scratch)
    h.install()
    minimised = set()
    try:
        first = first_resumed = True
        for bvec, wall in chunk:
            budgets = dict(zip(BKEYS, bvec))
            st.distinct("states", ("turn-cfg", bvec, wall))
            for world in worlds:
                for text in texts:
                    dead = set()
                    for script in scripts:
                        if any(script[:k] in dead for k in range(1, 6)):
                            st.add("turn_scripts_same_execution_skipped")
                            continue
                        case = {"kind": "turn", "world": world, "text": text, "budgets": budgets, "wall": wall,
                                "script": list(script)}
                        viols, outcome, nontrivial = check_first(h, case)
                        if h.last_consumed is not None:
                            dead.add(tuple(script[: h.last_consumed]))
                        # resumed-slice leg: the turn stopped before Apply, so the driver runs it again on the same state
                        follow = []
                        seen = {sg for sg, _w in viols}
                        for d in range(1, rdepth + 1):
                            if h.hist is None or h.resumable() not in rfrom:
                                break
                            follow.append((d,) + check_next(h, case, d, seen))
                        if first:  # harness determinism: the very first execution is repeated
                            first = False
                            v2, o2, _ = check_first(h, case)
                            if (sorted(viols), outcome) != (sorted(v2), o2):
                                raise HarnessError("turn harness nondeterministic on %s" % json.dumps(case, sort_keys=True))
                        if follow and first_resumed:  # ... and the first history is re-executed from scratch (= the replay path)
                            first_resumed = False
                            d, fv, fo = follow[-1][:3]
                            v2, o2, _ = check_turn(h, dict(case, resume=d))
                            if (sorted(fv), fo) != (sorted(v2), o2):
                                raise HarnessError("resumed-slice harness nondeterministic on %s" % json.dumps(
                                    dict(case, resume=d), sort_keys=True))
                        for d, fv, fo, fnon, fserved in follow:
                            st.add("transitions")
                            st.add("validated")
                            st.add("turns_resumed")
                            st.add("turns_resumed:served-from-store:%s" % ("+".join(fserved) or "nothing"))
                            if fnon and fserved:
                                st.add("nontrivial")
                                st.add("turns_resumed_nontrivial")
                            st.distinct("states", ("turn-resumed", bvec, wall, d, fserved))
                            st.distinct("outcomes", ("resumed", d, fserved) + tuple(fo[1:]))
                            for sig, what in _dedupe(fv):
                                if sig in minimised:
                                    continue
                                minimised.add(sig)
                                mc, mw = minimise_turn(h, dict(case, resume=d), sig, what)
                                st.violation(sig, mw, mc)
                        st.add("transitions")
                        st.add("validated")
                        st.add("turns")
                        if nontrivial:
                            st.add("nontrivial")
                        st.distinct("outcomes", outcome)
                        st.add("turn_outcome:%s:%s" % (outcome[1], outcome[2]))
                        for sig, what in _dedupe(viols):
                            if sig in minimised:
                                continue
                            minimised.add(sig)
                            mc, mw = minimise_turn(h, case, sig, what)
                            st.violation(sig, mw, mc)
                    # warm-process leg: same turn after an unbudgeted slice populated the stage caches
                    cold = None
                    for warm_kind in (True, "reuse-ctx"):
                        wcase = {"kind": "turn", "world": world, "text": text, "budgets": budgets, "wall": wall,
                                 "script": [0, 0, 0, 0, 0], "warm": warm_kind}
                        viols, outcome, nontrivial = check_turn(h, wcase)
                        st.add("transitions")
                        st.add("validated")
                        st.add("turns_warm")
                        st.distinct("outcomes", ("warm", str(warm_kind)) + tuple(outcome))
                        if cold is None:
                            cold = {sg for sg, _w in check_turn(h, dict(wcase, warm=False))[0]}
                        for sig, what in _dedupe(viols):
                            # only the clamp clauses are meaningful here (the warm-up slice legitimately applied and logged),
                            # and only where the cold execution of the same turn does not already report the same clause
                            if sig.startswith("clamp:") and sig not in cold:
                                tag = "warm-cache" if warm_kind is True else "reused-context"
                                st.violation(sig + ":" + tag, what + " [after an unbudgeted slice %s]" % (
                                    "warmed the stage caches" if warm_kind is True else "ran on the same context object"), wcase)
    finally:
        h.uninstall()
        shutil.rmtree(scratch, ignore_errors=True)


# ====================================================================================================
# (d) driver histories: the real scheduling driver loop (clematis/scripts/demo.py main) over several turns
# ====================================================================================================
DRIVER_AGENTS = ("A", "B", "C")
DRIVER_TEXT = "hello world"


def _driver_bd(case):
    bd = {"quantum_ms": Q_MS}
    if case.get("wall") is not None:
        bd["wall_ms"] = int(case["wall"])
    return bd


def _driver_ref_step(bd, script, calls):
    """Reference boundary of ONE turn of a driver history.  Stage budgets are absent in this leg, so the only boundary
    conditions are the clock ones (wall, quantum); the clock advances only inside a stage seam that was entered (a stage
    served from a store takes no time, so it cannot newly satisfy a clock condition).
    returns (stage, allowed reasons) for the first boundary at which the turn has to stop, or None"""
    elapsed = 0
    for i, stage in enumerate(STAGES):
        if stage in calls:
            elapsed += script[i]
        allowed = ref_yield(bd, {"ms": elapsed})
        if None not in allowed:
            return stage, allowed
    return None


def run_driver(h: "Harness", case):
    """One run of the real driver: `clematis.scripts.demo.main()` with the stock configuration file (snapshot directory
    redirected, scheduler section added), len(history) steps; turn k of the run takes history[k] ms inside its stage seams.
    returns (steps [(agent the driver selected, _Rec)], logs, exception or None)"""
    import contextlib
    import io
    import clematis.scripts.demo as demo
    for nm in ("main", "run_one_turn"):
        if not hasattr(demo, nm):
            raise HarnessError("seam missing: clematis.scripts.demo.%s" % nm)
    h.hist = None
    h._clean()
    h.reset_caches()
    path = h.driver_config(case["policy"], int(case["allowance"]), case.get("wall"))
    scripts = [tuple(int(x) for x in s) for s in case["history"]]
    agents = list(DRIVER_AGENTS[: int(case.get("agents", len(DRIVER_AGENTS)))])
    steps = []
    real = demo.run_one_turn

    def w_turn(agent_id, *a, **k):
        if len(steps) >= len(scripts):
            raise HarnessError("the driver ran more turns than --steps=%d" % len(scripts))
        rec = _Rec(scripts[len(steps)])
        steps.append((str(agent_id), rec))
        h.rec = rec
        h.clock_ms = 1000
        try:
            return real(agent_id, *a, **k)
        finally:
            h.rec = None

    saved_argv = sys.argv
    demo.run_one_turn = w_turn
    sys.argv = ["demo", "--config", path, "--agents", ",".join(agents), "--steps", str(len(scripts)),
                "--text", DRIVER_TEXT, "--fixed-now-ms", "13371337"]
    err = None
    try:
        with contextlib.redirect_stdout(io.StringIO()):
            demo.main()
    except HarnessError:
        raise
    except (Exception, SystemExit) as e:
        err = e
    finally:
        demo.run_one_turn = real
        sys.argv = saved_argv
        h.rec = None
    return steps, h.read_logs(), err


def eval_driver(case, steps, logs, err):
    """Oracle for one driver run.  The scheduler records the driver authors (scheduler.jsonl of the run) are, in order, exactly
    the boundary yields of the run: one record per turn that had to stop at a stage boundary - naming that turn's agent,
    that boundary and an allowed reason - and none for a turn that ran to completion; the orchestrator's own turn records
    (yielded / yield_reason) tell the same story.
    returns ([(sig, what)], [outcome per step], nontrivial)"""
    out = []
    bd = _driver_bd(case)
    hist = [list(map(int, s)) for s in case["history"]]
    desc = "driver run policy=%s allowance=%d agents=%s wall=%s history=%s" % (
        case["policy"], int(case["allowance"]), case.get("agents", len(DRIVER_AGENTS)), case.get("wall"), hist)
    if err is not None:
        return [("driver:raises:%s" % type(err).__name__, "demo.main() raised %r after %d turn(s); %s" % (
            err, len(steps), desc))], [("driver", "raises", type(err).__name__)], False
    if len(steps) != len(hist):
        out.append(("driver:turn-count", "the driver ran %d turn(s) for --steps=%d; %s" % (len(steps), len(hist), desc)))
    expected = []      # (step, agent, stage, allowed) for every turn that has to stop at a boundary
    flags = []
    outcomes = []
    for k, (agent, rec) in enumerate(steps):
        if rec.calls[:1] != ["T1"]:
            out.append(("driver:stage-skipped-without-yield", "turn %d (%s) did not start with T1: calls=%s; %s" % (
                k + 1, agent, rec.calls, desc)))
        ref = _driver_ref_step(bd, rec.script, rec.calls)
        flags.append(ref is not None)
        if ref is None:
            outcomes.append(("driver", "-", "-"))
            continue
        stage, allowed = ref
        expected.append((k, agent, stage, allowed))
        outcomes.append(("driver", stage, _allowed_cls(allowed)))
        ran_later = [s for s in rec.calls if s in STAGES[STAGES.index(stage) + 1:]]
        if ran_later:
            out.append(("driver:later-stage-ran", "turn %d (%s) had to stop at %s (allowed %s) but %s still ran; %s" % (
                k + 1, agent, stage, sorted(map(str, allowed)), ran_later, desc)))
    sched = logs.get("scheduler.jsonl", [])
    turns = logs.get("turn.jsonl", [])
    got = [(r.get("agent"), r.get("stage_end"), r.get("reason")) for r in sched]
    want = [(a, s, "|".join(sorted(map(str, al)))) for _k, a, s, al in expected]
    tflags = [bool(t.get("yielded")) for t in turns]
    if len(turns) != len(steps):
        out.append(("driver:turn-record-count", "%d turn.jsonl records for %d turns; %s" % (len(turns), len(steps), desc)))
    elif tflags != flags:
        k = next(i for i in range(len(flags)) if flags[i] != tflags[i])
        if flags[k]:
            out.append(("driver:missed-yield:%s" % outcomes[k][2],
                        "turn %d (%s, stages %s) had to stop at boundary %s but its turn record is not a yield; %s" % (
                            k + 1, steps[k][0], steps[k][1].calls, outcomes[k][1], desc)))
        else:
            out.append(("driver:spurious-yield", "turn %d (%s, stages %s) met no boundary condition but its turn record says "
                        "yielded (%r); %s" % (k + 1, steps[k][0], steps[k][1].calls, turns[k].get("yield_reason"), desc)))
    if len(got) > len(want):
        out.append(("driver:yield-record-without-boundary-yield",
                    "scheduler.jsonl of the run has %d record(s) %s but only %d turn(s) stopped at a stage boundary %s "
                    "(turn records yielded=%s); %s" % (len(got), got, len(want), want, tflags, desc)))
    elif len(got) < len(want):
        out.append(("driver:boundary-yield-not-recorded",
                    "scheduler.jsonl of the run has %d record(s) %s but %d turn(s) stopped at a stage boundary %s; %s" % (
                        len(got), got, len(want), want, desc)))
    else:
        for n_rec, ((k, agent, stage, allowed), (g_agent, g_stage, g_reason)) in enumerate(zip(expected, got)):
            where = "record %d of scheduler.jsonl %s belongs to turn %d (%s stopped at %s, allowed %s)" % (
                n_rec + 1, (g_agent, g_stage, g_reason), k + 1, agent, stage, sorted(map(str, allowed)))
            if g_agent != agent:
                out.append(("driver:record-names-other-agent", "%s; %s" % (where, desc)))
            if g_stage != stage:
                out.append(("driver:record-names-other-boundary", "%s; %s" % (where, desc)))
            if g_reason not in allowed:
                out.append(("driver:expected-%s:got-%s" % (_allowed_cls(allowed), _cls(g_reason)), "%s; %s" % (where, desc)))
            if len(turns) == len(steps) and tflags == flags and turns[k].get("yield_reason") != g_reason:
                out.append(("driver:reason-differs-between-records", "%s but the turn record says %r; %s" % (
                    where, turns[k].get("yield_reason"), desc)))
    # a run in which a turn that stopped at a boundary and a turn that ran to completion both occur
    nontrivial = any(flags) and not all(flags)
    return _dedupe(out), outcomes, nontrivial


def check_driver(h: "Harness", case):
    steps, logs, err = run_driver(h, case)
    return eval_driver(case, steps, logs, err)


def minimise_driver(h, case, sig, what):
    """the shortest prefix of the history that still shows the signature, then stage durations zeroed while it does"""
    def still(c):
        for s_, w_ in check_driver(h, c)[0]:
            if s_ == sig:
                return w_
        return None
    cur, cur_what = json.loads(json.dumps(case)), what
    for n in range(1, len(case["history"])):
        c = dict(cur, history=[list(s) for s in case["history"][:n]])
        w = still(c)
        if w is not None:
            cur, cur_what = c, w
            break
    for k in range(len(cur["history"])):
        if any(cur["history"][k]):
            c = json.loads(json.dumps(cur))
            c["history"][k] = [0, 0, 0, 0, 0]
            w = still(c)
            if w is not None:
                cur, cur_what = c, w
    if cur.get("wall") is not None:
        c = dict(cur, wall=None)
        w = still(c)
        if w is not None:
            cur, cur_what = c, w
    return cur, cur_what


def _driver_worker(chunk, st: Stats, scratch_root, alphabet, length):
    import logging
    logging.disable(logging.CRITICAL)
    scratch = os.path.join(scratch_root, "driver-%d" % os.getpid())
    h = Harness(scratch)
    h.install()
    minimised = set()
    try:
        first = True
        for policy, allowance, wall, head in chunk:
            for tail in itertools.product(alphabet, repeat=length - 1):
                history = [list(head)] + [list(s) for s in tail]
                case = {"kind": "driver", "policy": policy, "allowance": allowance, "wall": wall,
                        "agents": len(DRIVER_AGENTS), "history": history}
                viols, outcomes, nontrivial = check_driver(h, case)
                if first:  # harness determinism: the first run of every worker is repeated
                    first = False
                    v2, o2, _ = check_driver(h, case)
                    if (sorted(viols), outcomes) != (sorted(v2), o2):
                        raise HarnessError("driver harness nondeterministic on %s" % json.dumps(case, sort_keys=True))
                st.add("transitions", len(history))
                st.add("validated", len(history))
                st.add("driver_runs")
                st.add("driver_turns", len(history))
                st.distinct("states", ("driver", policy, allowance, wall, tuple(map(tuple, history))))
                for oc in set(outcomes):
                    st.distinct("outcomes", oc)
                if nontrivial:
                    st.add("nontrivial")
                    st.add("driver_runs_mixing_yielding_and_completing_turns")
                for sig, what in viols:
                    if sig in minimised:
                        continue
                    minimised.add(sig)
                    mc, mw = minimise_driver(h, case, sig, what)
                    st.violation(sig, mw, mc)
    finally:
        h.uninstall()
        shutil.rmtree(scratch, ignore_errors=True)


# ====================================================================================================
# driver
# ====================================================================================================
def _dispatch(chunk, st: Stats, scratch_root, P):
    for item in chunk:
        kind = item[0]
        if kind == "sched":
            bfs_config(item[1], P["advs"], P["gaps"], st)
        elif kind == "yield":
            _yield_worker(item[1], st, P["yvals"], P["walls"], P["elapsed"])
        elif kind == "turn":
            _turn_worker(item[1], st, scratch_root, P["scripts"], P["texts"], P["worlds"], P["resume_depth"], P["resume_from"])
        elif kind == "driver":
            _driver_worker(item[1], st, scratch_root, P["driver_steps"], P["driver_len"])
        else:
            raise HarnessError("unknown work item %r" % (kind,))


def _scripts(max_nonzero, durs):
    out = [(0, 0, 0, 0, 0)]
    for k in range(1, max_nonzero + 1):
        for pos in itertools.combinations(range(5), k):
            for vals in itertools.product(durs, repeat=k):
                s = [0] * 5
                for p, v in zip(pos, vals):
                    s[p] = v
                out.append(tuple(s))
    return out


def params(thorough):
    durs = (Q_MS // 2, Q_MS, W_MS)
    if thorough:
        return {
            "ns": (2, 3, 4), "allow": (1, 2, 3), "aging": (0, 100), "advs": (0, 50, 100, 300), "gaps": (0, 50),
            "yvals": (0, 1, 2, 3), "walls": (None, Q_MS, W_MS), "elapsed": (0, Q_MS - 1, Q_MS, W_MS - 1, W_MS, W_MS + 1),
            "bvals": (None, 0, 1, 2), "twalls": (None, W_MS), "scripts": _scripts(2, durs),
            "texts": ("apple", "fig", "plum", "zzz"), "worlds": ("W1", "W2"),
            # resumed-slice leg: up to two more identical slices after every distinct first slice that stopped before Apply
            "resume_depth": 2, "resume_from": ("T1", "T2", "T3", "T4"),
            # driver histories: every sequence of 4 turns over {no time, a quantum inside T1 / T4 / Apply, the wall inside T3}
            "driver_steps": [(0, 0, 0, 0, 0), (Q_MS, 0, 0, 0, 0), (0, 0, 0, Q_MS, 0), (0, 0, 0, 0, Q_MS), (0, 0, W_MS, 0, 0)],
            "driver_len": 4, "driver_walls": (None, W_MS), "driver_allow": (1, 2),
        }
    return {
        "ns": (2, 3, 4), "allow": (1, 2, 3), "aging": (0, 100), "advs": (0, 50, 100, 300), "gaps": (0,),
        "yvals": (0, 1, 2), "walls": (None, Q_MS, W_MS), "elapsed": (0, Q_MS - 1, Q_MS, W_MS - 1, W_MS, W_MS + 1),
        "bvals": (None, 0, 1, 2), "twalls": (None, W_MS),
        # zero; one stage takes a quantum / the wall; two stages take half a quantum each (elapsed time accumulates)
        "scripts": _scripts(1, (Q_MS, W_MS)) + [s for s in _scripts(2, (Q_MS // 2,)) if sum(1 for x in s if x) == 2],
        "texts": ("apple", "fig", "plum", "zzz"), "worlds": ("W1", "W2"),
        # resumed-slice leg: one more identical slice after every distinct first slice that stopped at the T2, T3 or T4
        # boundary (a slice that stopped at T1 leaves nothing in the state; thorough tier)
        "resume_depth": 1, "resume_from": ("T2", "T3", "T4"),
        # driver histories: every sequence of 3 turns over {no time, a quantum inside T1 / T3 / Apply}
        "driver_steps": [(0, 0, 0, 0, 0), (Q_MS, 0, 0, 0, 0), (0, 0, Q_MS, 0, 0), (0, 0, 0, 0, Q_MS)],
        "driver_len": 3, "driver_walls": (None,), "driver_allow": (1, 2),
    }


def run(run: Run) -> None:
    P = params(run.thorough)
    items = []
    # heavy BFS configurations first so the pool balances
    cfgs = [(n, pol, m, ag, rot) for n in P["ns"] for pol in ("round_robin", "fair_queue") for m in P["allow"]
            for ag in P["aging"] for rot in (False, True)]
    cfgs.sort(key=lambda c: (-(c[0] ** 3) * c[2] * (8 if (c[1] == "fair_queue" and c[3] > 0) else 1), c))
    for c in cfgs:
        items.append(("sched", c))
    bvecs = list(itertools.product(P["bvals"], repeat=4))
    tcfg = [(bv, w) for bv in bvecs for w in P["twalls"]]
    nt = 96 if run.thorough else 48
    for i in range(nt):
        part = tcfg[i::nt]
        if part:
            items.append(("turn", part))
    yb = list(itertools.product([None] + list(P["yvals"]), repeat=4))
    ny = 64 if run.thorough else 32
    for i in range(ny):
        part = yb[i::ny]
        if part:
            items.append(("yield", part))
    dcfg = [(pol, m, w, head) for pol in ("round_robin", "fair_queue") for m in P["driver_allow"] for w in P["driver_walls"]
            for head in P["driver_steps"]]
    for d in dcfg:
        items.append(("driver", [d]))
    # interleave: the few very large BFS items first, then everything else
    heavy = [it for it in items if it[0] == "sched"][:8]
    rest = [it for it in items if it not in heavy]
    items = heavy + rest
    run.pmap(_dispatch, items, extra=(run.scratch, P), chunks=len(items), procs=None)

    run.samples[:] = [
        {"kind": "sched", "n": 3, "policy": "fair_queue", "allowance": 2, "aging": 100, "rotate": False,
         "history": [[300, 0], [0, 0], [50, 0], [100, 0], [300, 0], [0, 0], [0, 0]]},
        {"kind": "sched", "n": 4, "policy": "round_robin", "allowance": 1, "aging": 0, "rotate": True,
         "history": [[0, 0], [50, 0], [50, 0], [300, 0], [0, 0]]},
        {"kind": "yield", "budgets": {"t1_iters": 1, "t2_k": 2, "quantum_ms": Q_MS, "wall_ms": W_MS}, "consumed": {"ms": W_MS, "t1_iters": 1}},
        {"kind": "turn", "world": "W1", "text": "apple", "budgets": {"t1_iters": None, "t1_pops": None, "t2_k": 2, "t3_ops": None},
         "wall": W_MS, "script": [0, W_MS, 0, 0, 0]},
        {"kind": "turn", "world": "W1", "text": "zzz", "budgets": {"t1_iters": 1, "t1_pops": 1, "t2_k": 1, "t3_ops": None},
         "wall": None, "script": [Q_MS // 2, 0, Q_MS // 2, 0, 0]},
        {"kind": "turn", "world": "W2", "text": "fig", "budgets": {"t1_iters": None, "t1_pops": None, "t2_k": None, "t3_ops": None},
         "wall": W_MS, "script": [0, 0, 0, 0, Q_MS]},
        {"kind": "turn", "world": "W1", "text": "apple", "budgets": {"t1_iters": None, "t1_pops": None, "t2_k": 2, "t3_ops": None},
         "wall": None, "script": [0, 0, 0, 0, 0], "resume": 1},
        {"kind": "driver", "policy": "round_robin", "allowance": 1, "wall": None, "agents": 3,
         "history": [[Q_MS, 0, 0, 0, 0], [0, 0, 0, 0, 0], [0, 0, 0, 0, Q_MS]]},
    ]
    if run.n.get("depth_cap_hit"):
        run.cap("scheduler BFS hit the depth safety net 4B+4 in %d configuration(s) (e.g. %s)" % (
            run.n["depth_cap_hit"], run.notes.get("depth_cap_config")))
    if run.n.get("sched_configs_abandoned_after_500_violations"):
        run.cap("%d scheduler configuration(s) were abandoned after 500 violating transitions each" %
                run.n["sched_configs_abandoned_after_500_violations"])
    nturn = len(tcfg) * len(P["worlds"]) * len(P["texts"]) * len(P["scripts"])
    run.notes["sched_configs"] = len(cfgs)
    run.notes["turn_cases_planned"] = nturn
    run.notes["alphabet"] = {
        "agents": list(P["ns"]), "allowance": list(P["allow"]), "aging_ms": list(P["aging"]), "clock_advance_ms": list(P["advs"]),
        "idle_gap_ms": list(P["gaps"]), "rotation": [False, True], "policies": ["round_robin", "fair_queue"],
        "yield_budget_values": ["absent"] + list(P["yvals"]), "yield_wall": ["absent", Q_MS, W_MS], "yield_elapsed": list(P["elapsed"]),
        "turn_budget_values": ["absent", 0, 1, 2], "turn_wall": ["absent", W_MS], "quantum_ms": Q_MS,
        "turn_scripts": len(P["scripts"]), "turn_texts": list(P["texts"]), "turn_worlds": list(P["worlds"]),
        "turn_resumed_slices": P["resume_depth"], "turn_resumed_after_stop_at": list(P["resume_from"]),
        "driver_turn_durations": [list(s_) for s_ in P["driver_steps"]], "driver_history_length": P["driver_len"],
        "driver_wall": ["absent" if w is None else w for w in P["driver_walls"]], "driver_allowance": list(P["driver_allow"]),
        "driver_agents": len(DRIVER_AGENTS),
    }
    ndrv = len(dcfg) * len(P["driver_steps"]) ** (P["driver_len"] - 1)
    run.notes["driver_runs_planned"] = ndrv
    if run.n.get("driver_runs", 0) != ndrv:
        raise HarnessError("driver enumeration incomplete: %s of %d" % (run.n.get("driver_runs"), ndrv))
    if run.n.get("turns", 0) + run.n.get("turn_scripts_same_execution_skipped", 0) != nturn:
        raise HarnessError("turn enumeration incomplete: %s + %s of %d" % (
            run.n.get("turns"), run.n.get("turn_scripts_same_execution_skipped"), nturn))
    run.rule = (
        "(a) BFS to closure of the real next_turn/on_yield state graph for every (agents, policy, allowance, aging, rotation) "
        "configuration over the clock-advance alphabet, starvation bound as state invariant; non-trivial = a selection made "
        "while at least one agent is saturated; (b) every budgets x consumed x wall x elapsed tuple of _should_yield against the "
        "reference precedence; non-trivial = at least two of {wall, budget, quantum} conditions hold at once; (c) every "
        "(budget vector, wall, world, text, stage-duration script) full turn; non-trivial = the turn yielded at a boundary where "
        "two conditions coincide or a clamp was binding; (c') slice histories: after every distinct first slice that stopped at "
        "a boundary before Apply (quick: T2/T3/T4, thorough: also T1) the same turn is run again on the SAME state object in the "
        "same process (same configuration, text, agent, stage-duration script; quick 1, thorough 2 more slices, each only if its "
        "predecessor again stopped before Apply) and judged by the same per-slice oracle; a stage whose seam is not entered on a "
        "resumed slice was served from a store: it takes no time and the slice consumes what the stored result holds (hits used "
        "= k_used of the stored T2 result); non-trivial = a resumed slice with a stage served from a store that yielded with a "
        "binding clamp or two coinciding conditions; (d) driver histories: the real driver loop clematis/scripts/demo.py main() "
        "(stock configuration file + scheduler section, 3 agents, one shared state, driver-authored scheduler.jsonl) is run for "
        "every sequence of per-turn stage-duration scripts of the stated length over the stated alphabet x policy x allowance "
        "(x wall), stage budgets absent; oracle: the scheduler records of the run are, in order, exactly the turns that had to "
        "stop at a stage boundary under the reference precedence (agent of that turn, that boundary, an allowed reason), none "
        "for a turn that ran to completion, and the turn records' yielded flags / reasons agree; non-trivial = a run in which "
        "both a turn that stopped at a boundary and a turn that ran to completion occur")
    run.notes["resumed_slices"] = {
        "depth": P["resume_depth"], "after_first_slice_stopped_at": list(P["resume_from"]),
        "executed": int(run.n.get("turns_resumed", 0)),
        "with_T2_served_from_store": int(sum(v for k, v in run.n.items()
                                             if k.startswith("turns_resumed:served-from-store:") and "T2" in k.split(":")[-1])),
        "nontrivial": int(run.n.get("turns_resumed_nontrivial", 0)),
    }
    run.assume("the driver calls on_yield after every selection with reset = (pick reason == RESET_CONSEC), as clematis/scripts/demo.py "
               "does for yielded turns; turns that do not yield (no bookkeeping) are outside the bound's premise")
    run.assume("selection depends on absolute time only through now - last_ran_ms (re-validated per transition at a second time base); "
               "clock never runs backwards; agent ids are single upper-case letters (lexicographic = alphabetical)")
    run.assume("round_robin and fair_queue with aging_ms=0 are documented as clock-free, so idle durations are left out of the "
               "canonical state there (the policy oracle checks the clock-free pick on every transition)")
    run.assume("full turns: perf/parallel/GEL/reflection gates off, rule-based T3, process-global T1/T2 caches reset before the "
               "first slice of every history (a warm T2 stage cache is keyed without the slice cap; cache transparency is property "
               "C05); resumed slices keep whatever the earlier slices left in the process and in the state (turn-level result "
               "cache included), with the budgets unchanged between the slices of one history")
    run.assume("resumed slices: only histories whose earlier slices all stopped before Apply and left version_etag and the snapshot "
               "directory untouched are continued, so the graph/memory world the reference reach and hit sets are computed from "
               "is the initial one; time spent in a store lookup is zero (the fake clock only advances inside the stage seams), so "
               "on a resumed slice quantum/wall cannot newly expire at the boundary of a stage served from a store")
    run.assume("orchestrator clock = core.time.perf_counter (FakeClock); elapsed time only advances inside the five stage seams")
    run.assume("driver histories: the driver is entered through clematis.scripts.demo.main() with --config/--agents/--steps/--text/"
               "--fixed-now-ms, logs through CLEMATIS_LOG_DIR; the per-turn scripts are switched at the driver's call of "
               "run_one_turn; stage budgets are absent there (only wall/quantum boundaries), so a stage served from a store "
               "cannot satisfy a new boundary condition; which agent the driver selects next and whether it runs on_yield for "
               "a turn that did not yield is not judged (the statement only speaks about selections followed by their "
               "bookkeeping) - only that every scheduler record corresponds to a real boundary yield of the recorded agent")
    run.assume("which of several exhausted stage budgets is named, and whether consumption strictly above a budget counts as "
               "exhausted, is not part of the statement and not checked")


def replay(case):
    kind = case.get("kind")
    if kind == "sched":
        return replay_sched(case)
    if kind == "yield":
        return check_yield(case["budgets"], case["consumed"])[0]
    if kind == "driver":
        import logging
        import tempfile
        logging.disable(logging.CRITICAL)
        d = tempfile.mkdtemp(prefix="c17r-", dir="/dev/shm" if os.path.isdir("/dev/shm") else None)
        h = Harness(d)
        h.install()
        try:
            return check_driver(h, case)[0]
        finally:
            h.uninstall()
            shutil.rmtree(d, ignore_errors=True)
    if kind == "turn":
        import logging
        import tempfile
        logging.disable(logging.CRITICAL)
        d = tempfile.mkdtemp(prefix="c17r-", dir="/dev/shm" if os.path.isdir("/dev/shm") else None)
        h = Harness(d)
        h.install()
        try:
            return _dedupe(check_turn(h, case)[0])
        finally:
            h.uninstall()
            shutil.rmtree(d, ignore_errors=True)
    raise HarnessError("unknown case kind %r" % (kind,))
