"""C16 — JSONL log streams stay well-formed, ordered and lossless.

Nine legs, each an exhaustive enumeration of a stated bounded space on the real code:

(1) append   E3c  appender atomicity.  ``clematis.io.log.open`` is shadowed by a *virtual append device*: the real
             ``io.BufferedWriter`` (or the raw layer itself for ``buffering=0``) on top of a raw layer that records
             every raw ``write``/``seek``/truncating open as an event, O_APPEND / offset semantics taken from the
             mode string.  Each writer is run alone to obtain its event sequence (append-only writers cannot observe
             each other), then EVERY interleaving of the writers' event sequences is materialised on one byte array.
             Oracle: the file is the pre-existing content followed by a permutation of complete LF-terminated JSON
             lines, one per appended record, per-writer order kept.
(2) normalize E2  ``normalize_for_identity`` over record shapes x stream names x CI on/off: only the documented
             volatile fields change, idempotent, input not mutated, inert with CI off / on other streams.
(3) stager   E2   ``LogStager`` driven with the documented drain -> flush -> retry-once protocol (as
             ``orchestrator/parallel.py`` does): every arrival sequence of <= n records over 2 turns x 3 streams x
             2 slices, every limit class (1, every prefix sum of the size estimates -1/0/+1, 32 MiB).  Oracle: per
             file the concatenated flush output is in (turn, slice, arrival) order — i.e. the same for every limit —
             a single-drain flush is globally in (turn, stage order, slice, arrival) order, nothing lost/duplicated.
(4) rewrite  E2+E4 ``rewrite_jsonl`` keeps the record list (JSON-strict, order) for direct rewrites and for
             append -> read -> rewrite compaction, is idempotent on bytes; killed before any os-level call of the
             atomic write the destination is the old or the new file.
(5) rotate   E1+E4 ``scripts/rotate_logs.main`` over all histories {append n bytes, rotate(max_bytes, backups N)}
             from every initial generation set, with a kill (BaseException) before every os-level call made by the
             rotation.  Oracle on contents (unique token per generation).
(6) capture  E2   deferred writes: a record appended while a ``LogMux`` is active reaches the file only in the commit
             phase.  Every producer history over {append the producer's one re-used dict, top-level updates of it} x
             streams x CI x append entry point x path to the file (write-through, mux + ``logmux.flush``, mux +
             ``LogStager`` + unbuffered writer).  Oracle: the file holds, in order, the value each record had when it
             was appended — what the write-through path writes by construction.
(7) rewrite-conc E3b ``rewrite_jsonl`` called by 2-3 real threads of one process (same target / two targets in one
             directory) under the baton scheduler of ``mc.sched``: every schedule with <= bound preemptions, a switch
             being possible before every source line of ``clematis/io/atomic.py``.  Oracle: no call fails, each target
             is exactly one writer's complete record list (a reader thread, thorough tier, never sees anything else).
(1b) append-threads E3b 2-3 appender THREADS of one process (same / different streams, both entry points) on real files
             under the baton scheduler, a switch being possible before every source line of ``clematis/io/log.py``: whatever
             the appender shares between calls (handles, buffers, caches) is exposed to every schedule with <= bound
             preemptions.  Oracle as in (1), per stream.
(8) lifecycle E1  one process, one log directory: every history over {append to X (two entry points), append to a second
             stream, compaction of X, rotation of the directory} — the maintenance operations of legs (4)/(5) interleaved
             with the appends of leg (1) on the SAME files.  Oracle: after every step the directory equals the reference
             model (live record list + generations .1..N per stream): appends that follow a compaction / rotation land in
             the live file of the stream, generations are not touched by later appends.
(9) addressing E2 HOW a stream is named: legs (3), (4) and (6) are repeated (shorter histories) with the stream handed
             over as a PATH — "./NAME", "dir/NAME", "d1/<another stream's name>/NAME", an absolute path, and for the stager
             a different addressing per stream.  Oracle: unchanged — the stream's name (stage ordinal, identity class) is
             the basename of the path (documented for default_key_for and rewrite_jsonl), the path only decides where
             the lines land.  A violating path-addressed run is re-run under bare names (differential twin): signatures
             the twin does not produce are marked ``:path-addressed``.
Leg (4) also varies HOW the records are handed to ``rewrite_jsonl`` (``Iterable[dict]``: list, tuple, dict view, one-shot
iterator, generator, generator streaming the file being compacted).
"""
from __future__ import annotations

import copy
import errno
import io
import itertools
import json
import os
import shutil
import tempfile
import types

from mc.runner import NCPU, HarnessError, Run, Stats

import clematis.io.log as clog
import clematis.io.atomic as catomic
import clematis.engine.util.io_logging as iol
import clematis.scripts.rotate_logs as rl


def J(x):
    """JSON-strict, key-order-insensitive canonical text (1 / 1.0 / True stay distinct)."""
    return json.dumps(x, sort_keys=True, ensure_ascii=False)


def Jo(x):
    """JSON-strict AND key-order-sensitive text (the bytes of a legacy-format log line depend on key order)."""
    return json.dumps(x, ensure_ascii=False)


class Crash(BaseException):
    """simulated process death (not an Exception on purpose)"""


def _viol(st, sig, what, case):
    """st.violation keeps the smallest case per signature; avoid its double json.dumps for cases that cannot win"""
    best = st.__dict__.setdefault("_c16_best", {})
    n = len(json.dumps(case, default=repr))
    st.add("violating_cases")
    if sig in best and best[sig] <= n:
        return
    best[sig] = n
    st.violation(sig, what, case)


_FRESH = [0]


def _fresh_dir(root, tag):
    """a directory whose path no earlier execution of this process has used.  The harness never deletes or re-creates
    a file under a path the implementation has appended to and will append to again: external deletion is not an
    operation of the property, and an implementation that keeps append handles open must not be judged on it."""
    _FRESH[0] += 1
    d = os.path.join(root, "%s%d" % (tag, _FRESH[0]))
    os.makedirs(d)
    return d


def _set_ci(val):
    if val is None:
        os.environ.pop("CI", None)
    else:
        os.environ["CI"] = val


# =====================================================================================================
# (2) identity normalisation  — the clause oracle is also used by legs (1) and (4) for expected lines
# =====================================================================================================
IDENTITY = ("t1.jsonl", "t2.jsonl", "t4.jsonl", "apply.jsonl", "turn.jsonl")
REFLECTION = "t3_reflection.jsonl"


def _stream_class(name):
    if name == "turn.jsonl":
        return "turn"
    if name in IDENTITY:
        return "identity"
    if name == REFLECTION:
        return "reflection"
    return "other"


def _is_zero_number(v):
    return isinstance(v, (int, float)) and not isinstance(v, bool) and v == 0


def norm_clauses(name, inp, out, ci_on):
    """Clause oracle from the property statement + the function's documentation.  Returns [(clause, detail)]."""
    cls = _stream_class(name)
    if not isinstance(out, dict):
        return [("not-a-dict", "returned %r" % (type(out).__name__,))]
    if (not ci_on) or cls == "other":
        if Jo(out) != Jo(inp):
            return [("changed-when-inert", "record changed although CI is off / stream is not an identity stream")]
        return []
    fails = []
    yielded = bool(inp.get("yielded"))
    if cls == "reflection":
        may = {"ms"}
    else:
        # durations, timestamps; slice markers only when the turn did NOT yield
        may = {"ms", "now", "durations_ms"}
        if not yielded:
            may |= {"yielded", "slice_idx"}
    for k in out:
        if k not in inp:
            fails.append(("key-added", "key %r added" % (k,)))
    for k in inp:
        if k in may:
            continue
        if k not in out:
            if k in ("yielded", "slice_idx") and cls != "reflection":
                fails.append(("yield-slice-marker-dropped", "%r dropped although yielded=%r" % (k, inp.get("yielded"))))
            else:
                fails.append(("nonvolatile-dropped", "non-volatile key %r dropped" % (k,)))
        elif k == "yielded" and yielded and cls != "reflection":
            if not out[k]:
                fails.append(("yield-slice-marker-changed", "yielded %r -> %r" % (inp[k], out[k])))
        elif k == "slice_idx" and yielded and cls != "reflection":
            same = Jo(out[k]) == Jo(inp[k])
            if not same:
                try:
                    same = int(out[k]) == int(inp[k]) and not isinstance(out[k], bool)
                except Exception:
                    same = False
            if not same:
                fails.append(("yield-slice-marker-changed", "slice_idx %r -> %r on a yielded turn" % (inp[k], out[k])))
        elif Jo(out[k]) != Jo(inp[k]):
            fails.append(("nonvolatile-changed", "non-volatile key %r: %s -> %s" % (k, Jo(inp[k]), Jo(out[k]))))
    ks_in = [k for k in inp if k in out]
    ks_out = [k for k in out if k in inp]
    if ks_in != ks_out:
        fails.append(("key-order", "surviving keys reordered %r -> %r" % (ks_in, ks_out)))
    # documented erasure of the volatile fields
    if "ms" in out and "ms" in inp and not _is_zero_number(out["ms"]):
        fails.append(("volatile-not-erased", "ms=%r not zeroed" % (out["ms"],)))
    if cls in ("identity", "turn") and "now" in out:
        fails.append(("volatile-not-erased", "now kept"))
    if cls == "turn":
        d = out.get("durations_ms")
        if isinstance(inp.get("durations_ms"), dict) and isinstance(d, dict):
            if any(not _is_zero_number(v) for v in d.values()):
                fails.append(("volatile-not-erased", "durations_ms=%s not zeroed" % (Jo(d),)))
        if not yielded and ("yielded" in out or "slice_idx" in out):
            fails.append(("volatile-not-erased", "non-yield slice marker kept: %s" % Jo({k: out[k] for k in ("yielded", "slice_idx") if k in out})))
    return fails


def check_normalize(case):
    """case: {kind:normalize, name, ci, rec(list of [k,v] pairs — key order is part of the input)}"""
    name, ci = case["name"], case["ci"]
    rec = {k: copy.deepcopy(v) for k, v in case["rec"]}
    before = Jo(rec)
    ci_on = isinstance(ci, str) and ci.lower() == "true"
    old = os.environ.get("CI")
    _set_ci(ci)
    cls = _stream_class(name)
    try:
        try:
            out = iol.normalize_for_identity(name, rec)
            out_text = Jo(out)
            out2 = iol.normalize_for_identity(name, out)
            out2_text = Jo(out2)
            after_out = Jo(out)
        except Exception as e:  # total on JSON objects
            return [("normalize:raises:%s" % cls, "normalize_for_identity(%r, %s) CI=%r raised %r" % (name, before, ci, e))]
    finally:
        _set_ci(old)
    res = []
    ctx = "normalize_for_identity(%r, %s) CI=%r -> %s" % (name, before, ci, out_text)
    if Jo(rec) != before:
        res.append(("normalize:mutates-input:%s" % cls, ctx + " ; input afterwards %s" % Jo(rec)))
    for clause, detail in norm_clauses(name, json.loads(before), out, ci_on):
        res.append(("normalize:%s:%s" % (clause, cls), ctx + " ; " + detail))
    if out2_text != out_text or after_out != out_text:
        res.append(("normalize:not-idempotent:%s" % cls, ctx + " ; second application -> %s" % out2_text))
    return res


def normalize_cases(thorough):
    ms = [None, ("ms", 12.5), ("ms", 3)]
    now = [None, ("now", "2025-06-01T00:00:00Z"), ("now", 1717200000)]
    dur = [None, ("durations_ms", {"t1": 1.5, "t2": 2}), ("durations_ms", {}), ("durations_ms", 7)]
    yld = [None, ("yielded", False), ("yielded", True)]
    sli = [None, ("slice_idx", 0), ("slice_idx", 2)]
    nest = [None, ("meta", {"ms": 5, "a": [1, {"now": "x", "slice_idx": 1}], "z": None})]
    extra = [None, "wrap"]
    if thorough:
        ms.append(("ms", "fast"))
        yld += [("yielded", 1), ("yielded", 0), ("yielded", None), ("yielded", "no")]
        sli += [("slice_idx", "1"), ("slice_idx", None)]
        dur.append(("durations_ms", {"t1": {"inner": 2.5}, "é": 1}))
    streams = ["t1.jsonl", "t2.jsonl", "t4.jsonl", "apply.jsonl", "turn.jsonl", REFLECTION, "t3_plan.jsonl",
               "scheduler.jsonl", "custom.jsonl"]
    cis = [None, "false", "true"] + (["", "TRUE", "1"] if thorough else [])
    for combo in itertools.product(ms, now, dur, yld, sli, nest, extra):
        fields = [c for c in combo[:-1] if c is not None]
        if combo[-1] == "wrap":
            fields = [("turn", 3), ("agent", "Ä✓")] + fields + [("zz_tail", [1.0, True, None])]
        for order in (0, 1):
            f = list(fields) if order == 0 else list(reversed(fields))
            if order == 1 and len(fields) < 2:
                continue
            yield f, streams, cis


def _normalize_worker(chunk, st: Stats):
    for fields, streams, cis in chunk:
        rec = [[k, v] for k, v in fields]
        for name in streams:
            for ci in cis:
                case = {"kind": "normalize", "name": name, "ci": ci, "rec": rec}
                st.add("states")
                st.add("transitions", 2)
                st.add("validated")
                st.add("normalize_cases")
                res = check_normalize(case)
                for sig, what in res:
                    _viol(st, sig, what, case)
                ci_on = isinstance(ci, str) and ci.lower() == "true"
                vol = {"ms", "now", "durations_ms", "yielded", "slice_idx"} & {k for k, _ in fields}
                if ci_on and vol and _stream_class(name) != "other":
                    st.add("nontrivial")
                st.distinct("outcomes", ("normalize", _stream_class(name), ci_on, bool(vol), bool(dict(fields).get("yielded")),
                                         tuple(sorted(s for s, _ in res))))
    if chunk:
        st.sample({"kind": "normalize", "name": "turn.jsonl", "ci": "true", "rec": [[k, v] for k, v in chunk[0][0]]})


# =====================================================================================================
# (1) appender atomicity — virtual append device + all interleavings of raw events
# =====================================================================================================
SHARED = ("trunc", "write", "seek_end", "truncate_to")


# the device of the writer whose solo run is in progress.  A handle normally lives inside one append call; an
# implementation may also keep it open across calls (handle cache).  Such a handle is then used by the next writer of
# the same process as well: its raw events belong to the writer that is running, not to the one that opened it.
_ACTIVE = [None]


class _VRaw(io.RawIOBase):
    def __init__(self, dev, hid, path, append):
        super().__init__()
        self._dev0, self._hid, self._path, self._append = dev, hid, path, append
        self._pos = len(dev.files[path]) if append else 0
        self.mode = "ab" if append else "rb+"
        self.name = path

    @property
    def _dev(self):
        dev = _ACTIVE[0] or self._dev0
        if self._hid not in dev.known:
            # inherited open file description (shared offset, same O_APPEND flag); the file exists: it was opened
            dev.known.add(self._hid)
            dev.inherited += 1
            if self._path not in dev.files:
                dev.files[self._path] = bytearray()
                dev._touch(self._path)
            dev.events.append(("inherit", self._hid, self._path, (self._append, self._pos)))
        return dev

    def readable(self):
        return False

    def writable(self):
        return True

    def seekable(self):
        return True

    def fileno(self):
        raise io.UnsupportedOperation("virtual device has no descriptor")

    def isatty(self):
        return False

    def tell(self):
        return self._pos

    def seek(self, off, whence=0):
        f = self._dev.files[self._path]
        if whence == 0:
            self._pos = off
            self._dev.events.append(("seek_set", self._hid, self._path, off))
        elif whence == 1:
            self._pos += off
            if off:
                self._dev.events.append(("seek_cur", self._hid, self._path, off))
        elif whence == 2:
            self._pos = len(f) + off
            self._dev.events.append(("seek_end", self._hid, self._path, off))
        else:
            raise ValueError("whence")
        return self._pos

    def truncate(self, size=None):
        size = self._pos if size is None else size
        _apply_truncate(self._dev.files[self._path], size)
        self._dev.events.append(("truncate_to", self._hid, self._path, size))
        return size

    def write(self, b):
        data = bytes(b)
        f = self._dev.files[self._path]
        pos = len(f) if self._append else self._pos
        _apply_write(f, pos, data)
        self._pos = pos + len(data)
        self._dev.events.append(("write", self._hid, self._path, data))
        return len(data)  # assumption: a raw write to a regular file is not short


def _apply_write(f, pos, data):
    if pos > len(f):
        f.extend(b"\0" * (pos - len(f)))
    f[pos:pos + len(data)] = data


def _apply_truncate(f, size):
    if size < len(f):
        del f[size:]
    else:
        f.extend(b"\0" * (size - len(f)))


class _Dev:
    """records the raw events of ONE writer running alone on its own view of the file"""

    _serial = [0]

    def __init__(self, wid, bufsize, initial, realdir=None):
        self.wid, self.bufsize = wid, bufsize
        _Dev._serial[0] += 1
        self.serial = _Dev._serial[0]          # handle ids stay unique when a handle outlives its device
        self.files = {p: bytearray(b) for p, b in initial.items()}
        self.events = []
        self.nh = 0
        self.opens = 0
        self.known = set()
        self.inherited = 0
        # existence (not content) of the virtual files is mirrored by empty placeholders in the real log directory so
        # that an implementation asking os.path.exists() gets the answer of its solo view
        self.realdir = realdir
        if realdir:
            os.makedirs(realdir, exist_ok=True)
            for f in os.listdir(realdir):
                os.unlink(os.path.join(realdir, f))
            for p in self.files:
                self._touch(p)

    def _touch(self, path):
        if self.realdir:
            with io.open(os.path.join(self.realdir, path), "ab"):
                pass

    def open(self, file, mode="r", buffering=-1, encoding=None, errors=None, newline=None, closefd=True, opener=None):
        path = os.fspath(file)
        if isinstance(path, bytes):
            path = os.fsdecode(path)
        path = os.path.basename(path)
        core = mode.replace("b", "").replace("t", "")
        binary = "b" in mode
        if core in ("r", "") or opener is not None or not isinstance(file, (str, bytes, os.PathLike)):
            raise HarnessError("virtual append device: unsupported open(%r, %r)" % (file, mode))
        exists = path in self.files
        if core[0] == "r" and not exists:
            raise FileNotFoundError(errno.ENOENT, "No such file or directory", path)
        if core[0] == "x" and exists:
            raise FileExistsError(errno.EEXIST, "File exists", path)
        self.opens += 1
        hid = "%d.%d.%d" % (self.serial, self.wid, self.nh)
        self.nh += 1
        self.known.add(hid)
        append = core[0] == "a"
        if core[0] in "wx":
            self.files[path] = bytearray()
            self.events.append(("trunc", hid, path, None))
        elif not exists:
            self.files[path] = bytearray()
        if not exists:
            self._touch(path)
        self.events.append(("open", hid, path, append))
        raw = _VRaw(self, hid, path, append)
        if buffering == 0:
            if not binary:
                raise ValueError("can't have unbuffered text I/O")
            return raw
        bs = self.bufsize if buffering in (-1, 1) or buffering < 0 else int(buffering)
        buf = io.BufferedWriter(raw, bs)
        if binary:
            return buf
        return io.TextIOWrapper(buf, encoding=encoding or "utf-8", errors=errors, newline=newline,
                                line_buffering=(buffering == 1))


def _steps(events):
    """group a writer's events into steps = (local ops..., one shared op); a step is one scheduling unit"""
    steps, cur = [], []
    for ev in events:
        cur.append(ev)
        if ev[0] in SHARED:
            steps.append(tuple(cur))
            cur = []
    return steps


def _replay_steps(initial, steps_by_writer, order):
    files = {p: bytearray(b) for p, b in initial.items()}
    hpos, happ = {}, {}
    idx = [0] * len(steps_by_writer)
    for w in order:
        step = steps_by_writer[w][idx[w]]
        idx[w] += 1
        for kind, hid, path, arg in step:
            f = files.setdefault(path, bytearray())
            if kind == "open":
                hpos[hid], happ[hid] = 0, arg
            elif kind == "inherit":
                happ.setdefault(hid, arg[0])
                hpos.setdefault(hid, arg[1])
            elif kind == "trunc":
                del f[:]
            elif kind == "seek_set":
                hpos[hid] = arg
            elif kind == "seek_cur":
                hpos[hid] += arg
            elif kind == "seek_end":
                hpos[hid] = len(f) + arg
            elif kind == "truncate_to":
                _apply_truncate(f, arg)
            elif kind == "write":
                pos = len(f) if happ[hid] else hpos[hid]
                _apply_write(f, pos, arg)
                hpos[hid] = pos + len(arg)
    return files


def _interleavings(counts):
    counts = list(counts)
    n = sum(counts)
    cur = []

    def rec():
        if len(cur) == n:
            yield tuple(cur)
            return
        for w in range(len(counts)):
            if counts[w]:
                counts[w] -= 1
                cur.append(w)
                yield from rec()
                cur.pop()
                counts[w] += 1
    return rec()


_UNI = "Ägent-✓-日本語 \n\r\n \t\"q\"\\ \U0001F600"
APPEND_FILE = "t1.jsonl"
SEED_REC = {"id": "seed", "agent": _UNI}


def _mk_record(shape, w, i):
    r = {"id": "w%d-%d" % (w, i), "turn": i + 1, "agent": _UNI, "ms": 12.5 + w, "now": "2025-06-01T00:00:0%dZ" % w}
    if shape == "k5":
        r["pad"] = "é" * 2600          # 5.2 KB: between a 4 KiB and an 8 KiB buffer
    elif shape == "k9":
        r["pad"] = "é" * 4600          # 9.2 KB  > io.DEFAULT_BUFFER_SIZE
    elif shape == "k70":
        r["pad"] = "ab✓" * 14400       # 72 KB   > pipe buffer (64 KiB)
    elif shape != "u":
        raise HarnessError("shape %r" % shape)
    r["tail"] = [w, i]
    return r


def _expected_t1(rec):
    """t1.jsonl is an identity stream and the check runs with CI=true: ms zeroed, now dropped (documented)."""
    out = {k: v for k, v in rec.items() if k != "now"}
    if "ms" in out:
        out["ms"] = 0.0
    return out


def _verify_file(data, init_bytes, expected, memo):
    """expected: {(w,i): canonical text}; returns (failure class, detail) or None.  memo: line bytes -> key|None"""
    if not data.startswith(init_bytes):
        return "existing-content-damaged", "pre-existing line no longer at the start of the file"
    body = bytes(data[len(init_bytes):])
    if not body:
        return ("lost-record", "file has no appended data") if expected else None
    if not body.endswith(b"\n"):
        return "missing-final-LF", "file does not end with LF (tail %r)" % body[-20:]
    lines = body[:-1].split(b"\n")
    seen = []
    for ln in lines:
        if ln in memo:
            key = memo[ln]
        else:
            key = None
            try:
                obj = json.loads(ln.decode("utf-8"))
                if isinstance(obj, dict) and isinstance(obj.get("tail"), list) and len(obj["tail"]) == 2:
                    k = (obj["tail"][0], obj["tail"][1])
                    if k in expected and J(obj) == expected[k]:
                        key = k
            except Exception:
                key = None
            memo[ln] = key
        if key is None:
            return "torn-or-garbled-line", "line %r… (len %d) is not one complete appended record" % (ln[:40], len(ln))
        seen.append(key)
    if len(set(seen)) != len(seen):
        return "duplicate-record", "records %r" % (seen,)
    if set(seen) != set(expected):
        return "lost-record", "missing %r" % (sorted(set(expected) - set(seen)),)
    last = {}
    for w, i in seen:
        if last.get(w, -1) > i:
            return "writer-order", "writer %d records out of order: %r" % (w, seen)
        last[w] = i
    return None


def check_append(case, st: Stats = None):
    """case: {kind:append, writers:[[shape,...],...], bufsize, init: absent|line, api: [...], order?: [...]}
    Runs each writer alone on the virtual device, then materialises every interleaving (or just case['order'])."""
    writers, bufsize, init = case["writers"], case["bufsize"], case["init"]
    old_ci = os.environ.get("CI")
    _set_ci("true")
    old_dir = os.environ.get("CLEMATIS_LOG_DIR")
    # a private real log directory per process (the appender creates it; the device keeps existence placeholders there)
    if old_dir:
        tmpdir = os.path.join(os.path.dirname(old_dir.rstrip("/")) or old_dir, "c16-append-%d" % os.getpid())
        os.makedirs(tmpdir, exist_ok=True)
    else:
        tmpdir = tempfile.mkdtemp(prefix="c16a", dir="/dev/shm" if os.path.isdir("/dev/shm") else None)
    os.environ["CLEMATIS_LOG_DIR"] = tmpdir
    init_bytes = b"" if init == "absent" else (json.dumps(SEED_REC, ensure_ascii=False) + "\n").encode("utf-8")
    initial = {} if init == "absent" else {APPEND_FILE: init_bytes}
    steps_by_writer, expected = [], {}
    shapeinfo = set()
    saved_open = clog.__dict__.get("open", None)
    res = []
    try:
        for w, shapes in enumerate(writers):
            dev = _Dev(w, bufsize, initial, os.environ["CLEMATIS_LOG_DIR"])
            clog.open = dev.open
            _ACTIVE[0] = dev
            api = clog.append_jsonl if (w % 2 == 0) else clog._append_jsonl_unbuffered
            try:
                for i, shape in enumerate(shapes):
                    rec = _mk_record(shape, w, i)
                    expected[(w, i)] = J(_expected_t1(rec))
                    keep = Jo(rec)
                    n_ev = len(dev.events)
                    try:
                        api(APPEND_FILE, rec)
                    except HarnessError:
                        raise
                    except Exception as e:
                        return [("append:raised", "append of a %s record (file %s) raised %r" % (shape, init, e))]
                    if Jo(rec) != keep:
                        res.append(("append:mutates-record", "record mutated by append"))
                    nw = sum(1 for ev in dev.events[n_ev:] if ev[0] == "write")
                    if nw == 0:
                        raise HarnessError("seam bypassed: append produced no raw write on the virtual device "
                                           "(clematis.io.log no longer writes through its module-level open)")
                    if nw > 1:
                        shapeinfo.add("multi-write-record")
                    if dev.inherited:
                        shapeinfo.add("handle-kept-open")
            finally:
                _ACTIVE[0] = None
                if saved_open is None:
                    clog.__dict__.pop("open", None)
                else:
                    clog.open = saved_open
            for ev in dev.events:
                if ev[0] in ("trunc", "truncate_to", "seek_set", "seek_end") or (ev[0] == "open" and not ev[3]) \
                        or (ev[0] == "inherit" and not ev[3][0]):
                    shapeinfo.add("non-append")
            steps_by_writer.append(_steps(dev.events))
            if st is not None:
                st.add("transitions", len(shapes))
                st.add("raw_events", len(dev.events))
    finally:
        _set_ci(old_ci)
        if old_dir is None:
            os.environ.pop("CLEMATIS_LOG_DIR", None)
        else:
            os.environ["CLEMATIS_LOG_DIR"] = old_dir
        shutil.rmtree(tmpdir, ignore_errors=True)
    counts = [len(s) for s in steps_by_writer]
    given = case.get("order")
    if given is not None and [list(given).count(w) for w in range(len(counts))] == counts and len(given) == sum(counts):
        orders = [tuple(given)]
    else:
        # no stored interleaving, or it does not fit this implementation's event sequences: enumerate all
        orders = _interleavings(counts)
    memo = {}
    suffix = "".join(":" + s for s in sorted(shapeinfo))
    for order in orders:
        files = _replay_steps(initial, steps_by_writer, order)
        data = files.get(APPEND_FILE, bytearray())
        bad = _verify_file(data, init_bytes, expected, memo)
        if st is not None:
            st.add("states")
            st.add("validated")
            st.add("interleavings")
            if len(set(order)) > 1:
                st.add("nontrivial")
        if bad:
            res.append(("append:%s%s" % (bad[0], suffix),
                        "writers %r bufsize %d file %s interleaving %r of raw events: %s" % (writers, bufsize, init, list(order), bad[1]),
                        list(order)))
            break  # one witness per configuration is enough (bounds the cost on broken implementations)
        elif st is not None:
            # outcome class = order of the writers' records in the file
            body = bytes(data[len(init_bytes):])
            st.distinct("outcomes", ("append", tuple(memo[ln][0] for ln in body[:-1].split(b"\n")) if body else ()))
    return res


def append_configs(thorough):
    shapes = ["u", "k9", "k70"]
    per_writer = [[s] for s in shapes] + [[a, b] for a in shapes for b in shapes]
    bufs = [4096, 8192] + ([131072] if thorough else [])
    out = []
    for bs in bufs:
        for init in ("absent", "line"):
            for a in per_writer:
                for b in per_writer:
                    out.append({"kind": "append", "writers": [a, b], "bufsize": bs, "init": init})
            three = per_writer if thorough else [[s] for s in shapes]
            for a in three:
                for b in three:
                    for c in three:
                        out.append({"kind": "append", "writers": [a, b, c], "bufsize": bs, "init": init})
    if thorough:
        # a record between the 4 KiB (st_blksize) and 8 KiB (DEFAULT_BUFFER_SIZE) buffer sizes
        pw5 = [["k5"], ["k5", "u"], ["u", "k5"], ["k5", "k5"], ["k5", "k9"]]
        for bs in bufs:
            for a in pw5:
                for b in pw5:
                    out.append({"kind": "append", "writers": [a, b], "bufsize": bs, "init": "line"})
    return out


def _append_worker(chunk, st: Stats):
    for case in chunk:
        st.add("append_configs")
        res = check_append(case, st)
        for r in res:
            c = dict(case)
            if len(r) > 2:
                c["order"] = r[2]
            _viol(st, r[0], r[1], c)
    if chunk:
        st.sample(chunk[0])


# =====================================================================================================
# (9) addressing — HOW a stream is named when it is handed to an entry point that takes a stream path
# =====================================================================================================
# Every entry point that takes a stream (default_key_for / LogStager.stage, append_jsonl, _append_jsonl_unbuffered,
# rewrite_jsonl, LogMux) takes a PATH that is joined onto the logs directory; the stream's NAME — which selects its stage
# ordinal and whether it is an identity stream — is documented as the basename of that path (default_key_for: "derived
# from the basename of file_path"; rewrite_jsonl: "using the file's basename").  So a path with directory components, a
# "./" prefix or an absolute path changes WHERE the lines land and nothing else.  The directories are provided by the
# harness (the writers are only documented to create the logs directory itself).
ADDRS = ("bare", "dot", "sub", "nested", "abs")
ABS_PLACEHOLDER = "/c16-abs-root"          # capture-only runs never touch the file system


def _addr_path(addr, name, root):
    """the path under which stream ``name`` is addressed; ``root`` = the logs directory (for absolute addressing)"""
    if addr == "bare":
        return name
    if addr == "dot":
        return "./" + name
    if addr == "sub":
        return "part-07/" + name
    if addr == "nested":
        return "n1/scheduler.jsonl/" + name        # a directory component that looks like another stream's name
    if addr == "abs":
        return os.path.join(root or ABS_PLACEHOLDER, "abs", name)
    raise HarnessError("addressing %r" % (addr,))


def _addr_mkdirs(logdir, fp):
    os.makedirs(os.path.dirname(os.path.join(logdir, fp)), exist_ok=True)


# =====================================================================================================
# (3) LogStager under the drain -> flush -> retry protocol
# =====================================================================================================
ST_TURNS = (1, 2)
ST_STREAMS = ("t1.jsonl", "turn.jsonl", "zz_custom.jsonl")
ST_SLICES = (0, 1)
# documented canonical stream order (docs/m9/overview.md, PR71): t1 -> ... -> turn -> scheduler; unknown streams last
DOC_ORD = {"t1.jsonl": 1, "turn.jsonl": 8, "zz_custom.jsonl": 99}
ST_CELLS = [(t, s, sl) for t in ST_TURNS for s in ST_STREAMS for sl in ST_SLICES]
BIG = 32 * 1024 * 1024


_CELL_IDX = {c: i for i, c in enumerate(ST_CELLS)}


def _st_payload(j, cell):
    t, s, sl = cell
    p = {"id": j, "turn": t, "agent": "A%d" % sl, "pad": "p" * ((_CELL_IDX[cell] * 3 + j * 5) % 11)}
    if s == "turn.jsonl":
        p.update({"slice_idx": sl, "yielded": bool(sl), "ms": 3.5 + j, "durations_ms": {"t1": 1.25}})
    elif s == "t1.jsonl":
        p.update({"ms": 0.5 + j, "now": "2025-06-01T00:00:00Z"})
    return p


# stager addressing: one of ADDRS for every stream of the history, or "mixed" = a different addressing per stream
ST_ADDRS = ADDRS + ("mixed",)
ST_MIXED = {"t1.jsonl": "sub", "turn.jsonl": "bare", "zz_custom.jsonl": "abs"}


def _st_fpmap(addr, root):
    """stream name -> the path it is staged / written under"""
    if addr == "mixed":
        return {s: _addr_path(ST_MIXED[s], s, root) for s in ST_STREAMS}
    return {s: _addr_path(addr, s, root) for s in ST_STREAMS}


def _drive_stager(cells, payloads, limit, flush, fpmap=None):
    """The documented protocol of orchestrator/parallel.py: stage; on LOG_STAGING_BACKPRESSURE drain_sorted -> flush
    -> retry exactly once (a second failure propagates).  Returns (status, drains, failing index)."""
    iol.disable_staging()
    stager = iol.enable_staging(byte_limit=limit)
    drains = 0
    try:
        for j, cell in enumerate(cells):
            t, s, sl = cell
            fp = fpmap[s] if fpmap else s
            key = iol.default_key_for(file_path=fp, turn_id=t, slice_idx=sl)
            payload = dict(payloads[j])
            try:
                stager.stage(fp, key, payload)
            except RuntimeError as exc:
                if str(exc) != "LOG_STAGING_BACKPRESSURE":
                    raise
                drains += 1
                for rec in stager.drain_sorted():
                    flush(rec)
                try:
                    stager.stage(fp, key, payload)
                except RuntimeError as exc2:
                    if str(exc2) != "LOG_STAGING_BACKPRESSURE":
                        raise
                    return "retry-raised", drains, j
        for rec in stager.drain_sorted():
            flush(rec)
        return "ok", drains, None
    finally:
        iol.disable_staging()


def _estimates(cells, payloads, fpmap=None):
    """size estimates as the implementation reports them (StagedRecord.bytes_estimate), in arrival order"""
    iol.disable_staging()
    stager = iol.enable_staging(byte_limit=BIG)
    try:
        for j, cell in enumerate(cells):
            t, s, sl = cell
            fp = fpmap[s] if fpmap else s
            stager.stage(fp, iol.default_key_for(file_path=fp, turn_id=t, slice_idx=sl), dict(payloads[j]))
        recs = sorted(stager.drain_sorted(), key=lambda r: r.key.seq)
        if len(recs) != len(cells):
            raise HarnessError("stager lost records under the default limit while measuring estimates")
        return [int(r.bytes_estimate) for r in recs]
    finally:
        iol.disable_staging()


def limit_classes(ests):
    lims = {1, BIG}
    s = 0
    for e in ests:
        s += e
        lims.update((s - 1, s, s + 1))
    return sorted(x for x in lims if x >= 1)


def _per_file_monotone(cells):
    last = {}
    for t, s, sl in cells:
        if last.get(s, (0, -1)) > (t, sl):
            return False
        last[s] = (t, sl)
    return True


class _StagerPrep:
    """everything about one arrival sequence that does not depend on the limit (expected orders from the statement).
    ``addr``: how the streams are addressed; the expected orders do not depend on it (stage order and identity
    normalisation belong to the stream's NAME = basename of the path)."""

    def __init__(self, cells, addr="bare"):
        self.cells = cells
        self.addr = addr
        self.payloads = [_st_payload(j, c) for j, c in enumerate(cells)]
        self.ests = _estimates(cells, self.payloads, None if addr == "bare" else _st_fpmap(addr, None))
        n = len(cells)
        self.want_ids = sorted((c[1], j) for j, c in enumerate(cells))
        self.want_file = {}
        for s in {c[1] for c in cells}:
            self.want_file[s] = [j for _, _, j in sorted((cells[j][0], cells[j][2], j) for j in range(n) if cells[j][1] == s)]
        self.want_flat = [(cells[j][1], j) for j in sorted(range(n), key=lambda j: (cells[j][0], DOC_ORD[cells[j][1]], cells[j][2], j))]
        self.mono = _per_file_monotone(cells)
        self.valid = {}


def _stager_run(prep, limit, mode, logdir):
    """one execution of the protocol + oracle.  Returns ([(sig, what)], outcome class).  CI must be 'true'.
    mode 'files': the flush goes through the real writer into a fresh sub-directory of ``logdir``."""
    if mode != "files":
        return _stager_run_in(prep, limit, mode, logdir)
    sub = _fresh_dir(logdir, "s")
    old_dir = os.environ.get("CLEMATIS_LOG_DIR")
    os.environ["CLEMATIS_LOG_DIR"] = sub
    try:
        return _stager_run_in(prep, limit, mode, sub)
    finally:
        if old_dir is None:
            os.environ.pop("CLEMATIS_LOG_DIR", None)
        else:
            os.environ["CLEMATIS_LOG_DIR"] = old_dir
        shutil.rmtree(sub, ignore_errors=True)


def _stager_run_in(prep, limit, mode, logdir):
    cells, ests, addr = prep.cells, prep.ests, prep.addr
    fpmap = _st_fpmap(addr, logdir if mode == "files" else None)
    inv = {fp: s for s, fp in fpmap.items()}
    out = []
    if mode == "files":
        from clematis.engine.orchestrator.logging import _append_unbuffered

        if addr != "bare":
            for fp in fpmap.values():
                _addr_mkdirs(logdir, fp)

        def flush(rec):
            out.append((rec.file_path, None))
            _append_unbuffered(rec.file_path, rec.payload)
    else:
        def flush(rec):
            out.append((rec.file_path, rec.payload))
    try:
        status, drains, jfail = _drive_stager(cells, prep.payloads, limit, flush, None if addr == "bare" else fpmap)
    except Exception as e:
        return [("stager:raises:%s" % type(e).__name__, "cells %r limit %d addressing %s: %r" % (cells, limit, addr, e))], "raises"

    def desc():
        return "arrival %r limit %d (estimates %r)%s" % ([list(c) for c in cells], limit, ests,
                                                          "" if addr == "bare" else " streams addressed as %r" % (sorted(fpmap.values()),))
    if status == "retry-raised":
        if ests[jfail] > limit:
            return [("stager:limit<record", desc() + ": record #%d (estimate %d) is refused by an EMPTY stager after "
                     "drain+flush; LOG_STAGING_BACKPRESSURE escapes the retry, this and all later records are never written"
                     % (jfail, ests[jfail]))], "limit<record"
        return [("stager:retry-raised:record-fits", desc() + ": retry of record #%d raised although estimate %d <= limit"
                 % (jfail, ests[jfail]))], "retry-raised"
    # what reached the files, per stream (the flushed record names the path it was staged under)
    if any(fp not in inv for fp, _ in out):
        return [("stager:lost-or-misfiled", desc() + ": flushed to %r" % (sorted({fp for fp, _ in out if fp not in inv}),))], "lost"
    per_file = {}
    flat = None
    if mode == "files":
        for s in ST_STREAMS:
            p = os.path.join(logdir, fpmap[s])
            if os.path.exists(p):
                with open(p, "rb") as fh:
                    raw = fh.read()
                if raw and not raw.endswith(b"\n"):
                    return [("stager:file-not-LF-terminated", desc())], "bad-file"
                per_file[s] = [json.loads(x.decode("utf-8")) for x in raw.split(b"\n")[:-1]]
    else:
        flat = [(inv[fp], pl) for fp, pl in out]
        for s, pl in flat:
            per_file.setdefault(s, []).append(pl)
    res = []
    try:
        ids = sorted((s, pl["id"]) for s, v in per_file.items() for pl in v)
    except Exception:
        return [("stager:payload-changed", desc() + ": a flushed payload lost its id")], "payload"
    if ids != prep.want_ids:
        if len(set(ids)) != len(ids):
            res.append(("stager:duplicated", desc() + ": flushed %r" % (ids,)))
        else:
            res.append(("stager:lost-or-misfiled", desc() + ": flushed %r expected %r" % (ids, prep.want_ids)))
        return res, "lost"
    # payload = the record (identity-normalised for identity streams under CI, exactly as a direct append writes it).
    # For a path-addressed stream the normalisation is only required of what reaches the FILE (the writer normalises by
    # basename); a staged-but-unwritten payload may still be the record as given.
    for s, v in per_file.items():
        for pl in v:
            j = pl["id"]
            text = Jo(pl)
            if prep.valid.get(j) == text:
                continue  # this exact payload text was already validated for record j
            if norm_clauses(s, prep.payloads[j], pl, True):
                if not (addr != "bare" and mode != "files" and text == Jo(prep.payloads[j])):
                    res.append(("stager:payload-changed", desc() + ": record #%d of %s flushed as %s" % (j, s, Jo(pl))))
                    return res, "payload"
            prep.valid[j] = text
    order_ok = True
    for s, v in per_file.items():
        got = [pl["id"] for pl in v]
        want = prep.want_file[s]
        if got != want:
            order_ok = False
            if drains == 0:
                sig = "stager:order:single-drain"
            elif prep.mono:
                sig = "stager:order:early-drain:sorted-arrival"
            else:
                sig = "stager:early-drain:out-of-order-arrival"
            res.append((sig, desc() + ": %s flushed in id order %r, (turn, slice, arrival) order is %r; %d back-pressure drain(s)"
                        % (s, got, want, drains)))
            break
    if order_ok and flat is not None and drains == 0:
        got = [(s, pl["id"]) for s, pl in flat]
        if got != prep.want_flat:
            res.append(("stager:order:single-drain:cross-stream", desc() + ": single flush order %r, (turn, stage, slice, arrival) order is %r"
                        % (got, prep.want_flat)))
    return res, (("ok-drains" if drains else "ok-single") if not res else "order")


def _stager_classify(res, prep, bare_prep, limit, mode, logdir):
    """differential twin for a path-addressed run that violates: a signature the SAME history also produces under bare
    names is not an addressing matter and keeps its name; the others are marked ':path-addressed'"""
    if not res or prep.addr == "bare":
        return res
    twin = {sig for sig, _ in _stager_run(bare_prep, limit, mode, logdir)[0]}
    return [(sig if sig in twin else sig + ":path-addressed", what) for sig, what in res]


def check_stager(case):
    """case: {kind:stager, cells:[[turn,stream,slice],...], limit, mode: capture|files, addr?: one of ST_ADDRS}"""
    cells = tuple(tuple(c) for c in case["cells"])
    mode = case.get("mode", "capture")
    addr = case.get("addr", "bare")
    old_ci, old_dir = os.environ.get("CI"), os.environ.get("CLEMATIS_LOG_DIR")
    _set_ci("true")
    own = None
    try:
        if mode == "files":
            own = tempfile.mkdtemp(prefix="c16s", dir="/dev/shm" if os.path.isdir("/dev/shm") else None)
            os.environ["CLEMATIS_LOG_DIR"] = own
        prep = _StagerPrep(cells, addr)
        res, outcome = _stager_run(prep, int(case["limit"]), mode, own)
        if res and addr != "bare":
            res = _stager_classify(res, prep, _StagerPrep(cells), int(case["limit"]), mode, own)
        return res, outcome
    finally:
        _set_ci(old_ci)
        if own:
            if old_dir is None:
                os.environ.pop("CLEMATIS_LOG_DIR", None)
            else:
                os.environ["CLEMATIS_LOG_DIR"] = old_dir
            shutil.rmtree(own, ignore_errors=True)


def _stager_worker(chunk, st: Stats, scratch):
    """chunk: list of (first cell index, second cell index | None, addressing, max records, max records through the real
    writer) — the worker enumerates every arrival sequence with that prefix"""
    logdir = os.path.join(scratch, "stg-%d" % os.getpid())
    os.makedirs(logdir, exist_ok=True)
    old_ci, old_dir = os.environ.get("CI"), os.environ.get("CLEMATIS_LOG_DIR")
    _set_ci("true")
    os.environ["CLEMATIS_LOG_DIR"] = logdir
    sampled = False
    try:
        for first, second, addr, nmax, nfiles in chunk:
            if second is None:
                seqs = [(ST_CELLS[first],)]
            else:
                seqs = (((ST_CELLS[first], ST_CELLS[second]) + rest) for n in range(2, nmax + 1)
                        for rest in itertools.product(ST_CELLS, repeat=n - 2))
            for cells in seqs:
                n = len(cells)
                prep = _StagerPrep(cells, addr)
                bare_prep = None
                st.add("transitions", n)
                for lim in limit_classes(prep.ests):
                    for mode in (("capture", "files") if n <= nfiles else ("capture",)):
                        res, outcome = _stager_run(prep, lim, mode, logdir)
                        st.add("states")
                        st.add("validated")
                        st.add("stager_runs")
                        st.add("transitions", n)
                        if addr != "bare":
                            st.add("stager_runs_path_addressed")
                        if n > 1 and lim != BIG:
                            st.add("nontrivial")
                        st.distinct("outcomes", ("stager", outcome, prep.mono, mode, addr != "bare"))
                        if res:
                            case = {"kind": "stager", "cells": [list(c) for c in cells], "limit": lim, "mode": mode}
                            if addr != "bare":
                                case["addr"] = addr
                                if bare_prep is None:
                                    bare_prep = _StagerPrep(cells)
                                res = _stager_classify(res, prep, bare_prep, lim, mode, logdir)
                                st.add("transitions", n)
                            for sig, what in res:
                                _viol(st, sig, what, case)
                        elif not sampled and n == 3 and outcome == "ok-drains":
                            c = {"kind": "stager", "cells": [list(c) for c in cells], "limit": lim, "mode": mode}
                            if addr != "bare":
                                c["addr"] = addr
                            st.sample(c)
                            sampled = True
    finally:
        _set_ci(old_ci)
        if old_dir is None:
            os.environ.pop("CLEMATIS_LOG_DIR", None)
        else:
            os.environ["CLEMATIS_LOG_DIR"] = old_dir
        shutil.rmtree(logdir, ignore_errors=True)


# =====================================================================================================
# (4) rewrite_jsonl / compaction
# =====================================================================================================
RW_RECS = [
    {},
    {"a": 1},
    {"a": 1.0},
    {"a": True},
    {"z": 1, "a": 2},
    {"b": _UNI, "a": [1, {"z": None, "y": [1.5, False]}]},
    {"ms": 5, "now": "t", "x": 1, "durations_ms": {"t1": 2.5}, "slice_idx": 1},
    {"big": 2 ** 63, "f": 0.1, "neg": -0.0, "e": 1e-300, "n": -7},
    {"s": "é\r\n" * 3000},
]
RW_FILES = ("custom.jsonl", "t1.jsonl", "turn.jsonl")
# how the caller hands the records over: the parameter is declared ``Iterable[dict]``, so a sequence, a re-iterable
# container without indexing (dict view), and ONE-SHOT iterables (iterator, generator; for the compaction scenario a
# generator that streams the very file being compacted, read lazily while rewrite_jsonl runs) are all legal inputs
RW_VIA = ("list", "tuple", "view", "iter", "gen")
RW_ONE_SHOT = ("iter", "gen")


def _as_iterable(recs, via):
    if via == "list":
        return recs
    if via == "tuple":
        return tuple(recs)
    if via == "view":
        return {i: r for i, r in enumerate(recs)}.values()
    if via == "iter":
        return iter(recs)
    if via == "gen":
        return (r for r in recs)
    raise HarnessError("container kind %r" % (via,))


def _stream_jsonl(path):
    """a compaction that does not load the log: records are parsed lazily, line by line, from the file being compacted"""
    with open(path, "rb") as fh:
        for ln in fh:
            yield json.loads(ln.decode("utf-8"))


class _KillOs:
    """proxy for the ``os`` module inside one target module: numbers every function call; Crash before call #kill"""

    def __init__(self, ctl):
        self.__dict__["_ctl"] = ctl

    def __getattr__(self, name):
        real = getattr(os, name)
        if isinstance(real, (types.BuiltinFunctionType, types.FunctionType)):
            ctl = self.__dict__["_ctl"]

            def call(*a, **k):
                ctl.before(name)
                return real(*a, **k)
            return call
        return real


class _KillCtl:
    def __init__(self, kill=None):
        self.kill, self.n, self.trace, self.dead = kill, 0, [], False

    def before(self, label):
        if self.dead:
            raise Crash("dead")
        i = self.n
        self.n += 1
        self.trace.append(label)
        if self.kill is not None and i == self.kill:
            self.dead = True
            raise Crash("killed before call #%d (%s)" % (i, label))


def _read_jsonl(path):
    raw = open(path, "rb").read()
    if raw and not raw.endswith(b"\n"):
        raise ValueError("file does not end with LF")
    if b"\r\n" in raw or b"\r" in raw:
        raise ValueError("file contains a raw CR")
    return raw, [json.loads(x.decode("utf-8")) for x in raw.split(b"\n")[:-1]]


def _records_match(name, inputs, got):
    if len(got) != len(inputs):
        return "record count %d != %d" % (len(got), len(inputs))
    for i, (a, b) in enumerate(zip(inputs, got)):
        # key order inside a record is not significant for a canonical (sorted-keys) rewrite: compare as JSON objects
        a_sorted = json.loads(J(a))
        b_sorted = json.loads(J(b))
        bad = [c for c in norm_clauses(name, a_sorted, b_sorted, True) if c[0] != "key-order"]
        if bad:
            return "record #%d: %s" % (i, bad[0][1])
    return None


def check_rewrite(case, scratch=None):
    """case: {kind:rewrite, file, recs:[indices into RW_RECS], pre: absent|stale, kill?: int, via?: container kind}"""
    addr = case.get("addr", "bare")
    if addr != "bare":
        # leg 9: the same rewrite with the stream addressed by a path; a signature that the bare-name twin reports as
        # well keeps its name, the rest is marked ':path-addressed'
        twin_case = {k: v for k, v in case.items() if k != "addr"}
        res, outcome = _check_rewrite(case, scratch, addr)
        if res:
            twin = {sig for sig, _ in _check_rewrite(twin_case, scratch, "bare")[0]}
            res = [(sig if sig in twin else sig + ":path-addressed", what) for sig, what in res]
        return res, outcome
    return _check_rewrite(case, scratch, "bare")


def _check_rewrite(case, scratch, addr):
    stream, idxs, pre = case["file"], case["recs"], case["pre"]
    via = case.get("via", "list")
    vtag = "" if via == "list" else (":one-shot-iterable" if via in RW_ONE_SHOT else ":" + via)
    recs = [copy.deepcopy(RW_RECS[i]) for i in idxs]
    own = None
    if scratch is None:
        own = scratch = tempfile.mkdtemp(prefix="c16w", dir="/dev/shm" if os.path.isdir("/dev/shm") else None)
    d = _fresh_dir(scratch, "rw")
    d2 = None
    old_dir, old_ci = os.environ.get("CLEMATIS_LOG_DIR"), os.environ.get("CI")
    os.environ["CLEMATIS_LOG_DIR"] = d
    _set_ci("true")
    name = _addr_path(addr, stream, d)         # the argument handed to rewrite_jsonl / append_jsonl
    if addr != "bare":
        _addr_mkdirs(d, name)
    path = os.path.join(d, name)
    res = []
    desc = "rewrite_jsonl(%r, %s%s) pre=%s" % (name, Jo(recs)[:300], "" if via == "list" else " handed over as %s" % via, pre)
    try:
        stale = b'{"stale": 1}\n{"stale": 2}\n'
        if pre == "stale":
            with open(path, "wb") as f:
                f.write(stale)
        if case.get("kill") is not None:
            # E4 leg: die before os-level call #kill of the atomic write; destination must be old or new
            ctl = _KillCtl(case["kill"])
            saved = catomic.os
            catomic.os = _KillOs(ctl)
            try:
                try:
                    clog.rewrite_jsonl(name, recs)
                    killed = False
                except Crash:
                    killed = True
            finally:
                catomic.os = saved
            if not killed:
                return [], "kill-index-beyond-trace"
            cur = open(path, "rb").read() if os.path.exists(path) else None
            old = stale if pre == "stale" else None
            if cur == old:
                return [], "killed-old"
            try:
                _, got = _read_jsonl(path)
                bad = _records_match(stream, recs, got)
            except Exception as e:
                bad = repr(e)
            if bad:
                return [("rewrite:kill:neither-old-nor-new", desc + " killed before os call #%d (%s): destination is neither the old nor the new file (%s)"
                         % (case["kill"], ctl.trace[-1], bad))], "killed-bad"
            return [], "killed-new"
        keep = Jo(recs)
        try:
            clog.rewrite_jsonl(name, _as_iterable(recs, via))
        except Exception as e:
            return [("rewrite:raises" + vtag, desc + " raised %r" % (e,))], "raises"
        if Jo(recs) != keep:
            res.append(("rewrite:mutates-input", desc))
        try:
            raw1, got = _read_jsonl(path)
        except Exception as e:
            return [("rewrite:malformed-file" + vtag, desc + ": %r" % (e,))], "malformed"
        bad = _records_match(stream, recs, got)
        if bad:
            res.append(("rewrite:records-not-preserved" + vtag, desc + ": " + bad))
            return res, "not-preserved"
        # canonical: rewriting what was read gives the same bytes
        clog.rewrite_jsonl(name, _as_iterable(got, via))
        raw2 = open(path, "rb").read()
        if raw2 != raw1:
            res.append(("rewrite:not-idempotent" + vtag, desc + ": second rewrite of the parsed file changed the bytes"))
        # compaction scenario: append -> read -> rewrite -> read (kind "gen": the old file is streamed lazily into the rewrite)
        d2 = _fresh_dir(scratch, "rwc")
        os.environ["CLEMATIS_LOG_DIR"] = d2
        name = _addr_path(addr, stream, d2)
        if addr != "bare":
            _addr_mkdirs(d2, name)
        path = os.path.join(d2, name)
        for r in recs:
            clog.append_jsonl(name, copy.deepcopy(r))
        if recs:
            try:
                _, appended = _read_jsonl(path)
            except Exception as e:
                return res + [("rewrite:appended-file-malformed", desc + ": %r" % (e,))], "malformed"
            try:
                clog.rewrite_jsonl(name, _stream_jsonl(path) if via == "gen" else _as_iterable(appended, via))
            except Exception as e:
                return res + [("rewrite:raises" + vtag, desc + ": compaction of the appended file raised %r" % (e,))], "raises"
            try:
                _, compacted = _read_jsonl(path)
            except Exception as e:
                return res + [("rewrite:malformed-file" + vtag, desc + ": after compaction %r" % (e,))], "malformed"
            if [J(x) for x in compacted] != [J(x) for x in appended]:
                res.append(("rewrite:compaction-changes-records" + vtag, desc + ": appended %s compacted %s" % (Jo(appended)[:200], Jo(compacted)[:200])))
        return res, "ok" if not res else "bad"
    finally:
        if old_dir is None:
            os.environ.pop("CLEMATIS_LOG_DIR", None)
        else:
            os.environ["CLEMATIS_LOG_DIR"] = old_dir
        _set_ci(old_ci)
        shutil.rmtree(d, ignore_errors=True)
        if d2:
            shutil.rmtree(d2, ignore_errors=True)
        if own:
            shutil.rmtree(own, ignore_errors=True)


def _rewrite_trace_len(scratch):
    """number of os-level calls of one rewrite (for the kill enumeration)"""
    d = os.path.join(scratch, "rwt")
    os.makedirs(d, exist_ok=True)
    old = os.environ.get("CLEMATIS_LOG_DIR")
    os.environ["CLEMATIS_LOG_DIR"] = d
    ctl = _KillCtl(None)
    saved = catomic.os
    catomic.os = _KillOs(ctl)
    try:
        with open(os.path.join(d, "custom.jsonl"), "wb") as f:
            f.write(b"{}\n")
        clog.rewrite_jsonl("custom.jsonl", [{"a": 1}])
    finally:
        catomic.os = saved
        if old is None:
            os.environ.pop("CLEMATIS_LOG_DIR", None)
        else:
            os.environ["CLEMATIS_LOG_DIR"] = old
        shutil.rmtree(d, ignore_errors=True)
    if ctl.n < 2 or "replace" not in ctl.trace:
        raise HarnessError("seam missing: rewrite_jsonl no longer reaches clematis.io.atomic.os (trace %r)" % (ctl.trace,))
    return ctl.n


def _rewrite_worker(chunk, st: Stats, scratch_root, nkill, amax):
    scratch = os.path.join(scratch_root, "rw-%d" % os.getpid())
    os.makedirs(scratch, exist_ok=True)
    for name, idxs, pre in chunk:
        kills = [(None, "list")] + ([(k, "list") for k in range(nkill + 2)] if len(idxs) <= 2 else [])
        # every other way of handing the records over (lists of <= 2 records)
        kills += [(None, via) for via in RW_VIA[1:]] if len(idxs) <= 2 else []
        kills = [(kill, via, "bare") for kill, via in kills]
        # leg 9: every list of <= amax records also with the stream addressed by a path (plain call + compaction scenario)
        kills += [(None, "list", addr) for addr in ADDRS[1:]] if len(idxs) <= amax else []
        for kill, via, addr in kills:
            case = {"kind": "rewrite", "file": name, "recs": list(idxs), "pre": pre}
            if kill is not None:
                case["kill"] = kill
            if via != "list":
                case["via"] = via
                st.add("rewrite_container_cases")
            if addr != "bare":
                case["addr"] = addr
                st.add("rewrite_cases_path_addressed")
            res, outcome = check_rewrite(case, scratch)
            st.add("states")
            st.add("transitions")
            st.add("validated")
            st.add("rewrite_cases")
            if idxs:
                st.add("nontrivial")
            st.distinct("outcomes", ("rewrite", outcome, pre, via in RW_ONE_SHOT, addr != "bare"))
            for sig, what in res:
                _viol(st, sig, what, case)
    if chunk:
        st.sample({"kind": "rewrite", "file": chunk[0][0], "recs": list(chunk[0][1]), "pre": chunk[0][2]})
    shutil.rmtree(scratch, ignore_errors=True)


# =====================================================================================================
# (5) rotation histories + kill points
# =====================================================================================================
LIVE = "a.jsonl"
OTHER = {"other.jsonl": b"o\n", "other.jsonl.1": b"old-other\n"}
ROT_APPENDS = (3, 10)
ROT_MAX = (8, 16)
ROT_N = (1, 2, 3)
ROT_OPS = [["a", n] for n in ROT_APPENDS] + [["r", m, n] for m in ROT_MAX for n in ROT_N]


def _tok(stamp, size):
    head = b"T%03d:" % stamp
    return head + b"." * max(0, size - len(head))


def _token_of(content):
    if len(content) >= 5 and content[:1] == b"T" and content[4:5] == b":":
        return content[:4].decode()
    return None


def rot_initial_states():
    """every subset of generations {.1,.2,.3,.4} x live file in {absent, small (6 B), big (20 B)}; older generation
    = smaller stamp; returns list of (files dict name->bytes, next stamp)"""
    out = []
    for mask in range(16):
        gens = [g for g in (1, 2, 3, 4) if mask & (1 << (g - 1))]
        for live in (None, 6, 20):
            files = {}
            for g in gens:
                files["%s.%d" % (LIVE, g)] = _tok(5 - g, 12)   # .4 -> T001 (oldest) … .1 -> T004
            if live is not None:
                files[LIVE] = _tok(5, live)
            out.append((files, 6))
    return out


def _rot_materialise(d, files):
    for f in os.listdir(d):
        os.unlink(os.path.join(d, f))
    for name, content in list(files.items()) + list(OTHER.items()):
        with open(os.path.join(d, name), "wb") as f:
            f.write(content)


def _rot_read(d):
    out = {}
    for f in sorted(os.listdir(d)):
        with open(os.path.join(d, f), "rb") as fh:
            out[f] = fh.read()
    return out


def _rot_run(d, m, n, kill=None):
    """run the real entry point with numbered os-level calls; returns (ctl, killed, exit code)"""
    ctl = _KillCtl(kill)
    s_rl_os, s_at_os = rl.os, catomic.os
    rl.os = _KillOs(ctl)
    catomic.os = _KillOs(ctl)
    try:
        try:
            rc = rl.main(["--dir", d, "--pattern", "*.jsonl", "--max-bytes", str(m), "--backups", str(n)])
            return ctl, False, rc
        except Crash:
            return ctl, True, None
    finally:
        rl.os, catomic.os = s_rl_os, s_at_os


def rot_oracle(pre, post, m, n, complete, rc=0):
    """pre/post: name -> bytes of the whole directory.  Returns [(sig, detail)]."""
    res = []
    for k, v in OTHER.items():
        if post.get(k) != v:
            res.append(("rotate:unrelated-file-touched", "%s changed although it is below max-bytes / not a target" % k))
    slots = [LIVE] + ["%s.%d" % (LIVE, g) for g in range(1, n + 1)]
    known = set(slots) | set(OTHER) | {"%s.%d" % (LIVE, g) for g in range(1, 5)} | set(pre)   # pre-existing names are not strays
    stray = sorted(set(post) - known)
    if complete and stray:
        res.append(("rotate:stray-file", "unexpected files %r after a complete rotation" % (stray,)))
    P = [(_token_of(pre[s]), s) for s in slots if s in pre]
    A = [(_token_of(post[s]), s) for s in slots if s in post]
    ptoks = [t for t, _ in P]
    atoks = [t for t, _ in A]
    content_of = {_token_of(v): v for k, v in pre.items() if k.startswith(LIVE)}
    for t, s in A:
        if t is None or t not in content_of:
            res.append(("rotate:foreign-content", "%s holds %r which is no generation of the previous state" % (s, post[s][:12])))
            return res
        if post[s] != content_of[t]:
            res.append(("rotate:content-changed", "generation %s (now %s) changed its bytes" % (t, s)))
    live_tok = _token_of(pre[LIVE]) if LIVE in pre else None
    size = len(pre[LIVE]) if LIVE in pre else None
    must_rotate = size is not None and size >= m
    tag = "" if complete else ":killed"
    if len(set(atoks)) != len(atoks):
        res.append(("rotate:duplicate-generation" + tag, "generations %r" % (A,)))
    if complete and not must_rotate:
        if post != pre:
            res.append(("rotate:changed-below-threshold", "live size %r < max-bytes %d (or no live file) but the directory changed: %r -> %r"
                        % (size, m, sorted(pre), sorted(post))))
        return res
    if complete and rc != 0:
        res.append(("rotate:exit-code", "main returned %r" % (rc,)))
    if complete:
        first = "%s.1" % LIVE
        if LIVE in post or _token_of(post.get(first, b"")) != live_tok:
            res.append(("rotate:live-not-moved-to-.1", "live size %d >= max-bytes %d: expected the live file as generation .1; after: %r"
                        % (size, m, A)))
    # nothing but the oldest generation (within the N kept) may be gone, and never the live file's content
    lost = [t for t in ptoks if t not in atoks]
    if must_rotate or not complete:
        allowed = set()
        if len(ptoks) >= 2:
            allowed = {ptoks[-1]}
        bad = [t for t in lost if t not in allowed]
        if bad:
            res.append(("rotate:lost-generation" + tag, "N=%d: before %r after %r: lost %r (only the oldest, %r, may go)"
                        % (n, P, A, bad, ptoks[-1] if len(ptoks) >= 2 else None)))
        # age order: what survives keeps its relative order (newest first)
        surv = [t for t in atoks if t in ptoks]
        if surv != [t for t in ptoks if t in surv]:
            res.append(("rotate:age-order" + tag, "N=%d: before %r after %r" % (n, P, A)))
    return res


def _rot_canon(files, op):
    """canonical state: slot pattern + live size (tokens renamed by age rank)"""
    pat = tuple(sorted((k, len(v)) for k, v in files.items()))
    return (pat, tuple(op))


def _rot_step(d, files, nxt, op, st):
    """apply one op to the state; returns (new files, new next-stamp, [(sig, what, kill index|None)])"""
    if op[0] == "a":
        new = dict(files)
        if LIVE in new:
            new[LIVE] = new[LIVE] + b"x" * op[1]
        else:
            new[LIVE] = _tok(nxt, 5 + op[1])
            nxt += 1
        if st is not None:
            st.add("rot_appends")
        return new, nxt, []
    _, m, n = op
    _rot_materialise(d, files)
    pre = _rot_read(d)
    ctl, killed, rc = _rot_run(d, m, n)
    if killed:
        raise HarnessError("rotation killed without a kill point")
    post = _rot_read(d)
    res = [(sig, what, None) for sig, what in rot_oracle(pre, post, m, n, True, rc)]
    rotated = post != pre
    if st is not None:
        st.add("states")
        st.add("transitions")
        st.add("validated")
        st.add("rot_transitions")
        st.distinct("rot_canonical_states", _rot_canon(files, op))
        if rotated:
            st.add("nontrivial")
        st.distinct("outcomes", ("rotate", "rotated" if rotated else "unchanged", n,
                                 len([k for k in post if k.startswith(LIVE + ".")])))
    # kill points: before every os-level call the rotation makes
    ncalls = ctl.n
    if st is not None:
        st.notes["rot_max_os_calls"] = max(st.notes.get("rot_max_os_calls", 0), ncalls)
    for k in range(ncalls):
        _rot_materialise(d, files)
        ctl2, killed2, _ = _rot_run(d, m, n, kill=k)
        if not killed2:
            raise HarnessError("rotation not deterministic: kill point %d of %d not reached" % (k, ncalls))
        post_k = _rot_read(d)
        r2 = rot_oracle(pre, post_k, m, n, False)
        if st is not None:
            st.add("states")
            st.add("transitions")
            st.add("validated")
            st.add("rot_kill_runs")
            if post_k != pre and post_k != post:
                st.add("nontrivial")
                st.add("rot_kill_intermediate_states")
            st.distinct("outcomes", ("rotate-kill", "pre" if post_k == pre else ("post" if post_k == post else "intermediate"), bool(r2)))
        for sig, what in r2:
            res.append((sig, what + " ; killed before os call #%d (%s) of %r" % (k, ctl2.trace[-1], ctl.trace), k))
    new = {k: v for k, v in post.items() if k not in OTHER}
    return new, nxt, res


def check_rotate(case, scratch=None, st: Stats = None, depth=None):
    """case: {kind:rotate, init: index into rot_initial_states(), history: [op,...]}.  Replays the history; with
    ``depth`` it then explores every extension of the history up to that total depth (DFS on the real directory)."""
    own = None
    if scratch is None:
        own = scratch = tempfile.mkdtemp(prefix="c16r", dir="/dev/shm" if os.path.isdir("/dev/shm") else None)
    d = os.path.join(scratch, "rot-%d" % os.getpid())
    shutil.rmtree(d, ignore_errors=True)
    os.makedirs(d)
    out = []
    init_names = sorted(rot_initial_states()[case["init"]][0])

    def report(res, hist):
        for sig, what, _kill in res:
            w = "initial %r, history %r: %s" % (init_names, hist, what)
            if st is not None:
                _viol(st, sig, w, {"kind": "rotate", "init": case["init"], "history": [list(o) for o in hist]})
            out.append((sig, w))

    seen = {}

    def descend(files, nxt, hist, remaining):
        # E1 state merging: a concrete directory state (names + bytes, i.e. tokens included) that was already
        # expanded with at least this much remaining depth is not expanded again (the code is a function of the
        # directory; determinism is re-asserted by every kill replay).  Returns the number of histories represented.
        key = (tuple(sorted(files.items())), nxt)
        if key in seen and seen[key][0] >= remaining:
            if st is not None:
                st.add("rot_merged_states")
            return seen[key][1] if seen[key][0] == remaining else 0
        paths = 0
        for op in ROT_OPS:
            h2 = hist + [op]
            f2, n2, res = _rot_step(d, files, nxt, op, st)
            report(res, h2)
            paths += 1
            # a history whose complete rotation already violated the oracle is not extended
            if remaining > 1 and not any(k is None for _, _, k in res):
                paths += descend(f2, n2, h2, remaining - 1)
        seen[key] = (remaining, paths)
        return paths

    try:
        files, nxt = rot_initial_states()[case["init"]]
        hist = []
        broken = False
        for op in case["history"]:
            files, nxt, res = _rot_step(d, files, nxt, op, st)
            hist = hist + [op]
            report(res, hist)
            broken = broken or any(k is None for _, _, k in res)
        if depth is not None and depth > len(hist) and not broken:
            paths = descend(files, nxt, hist, depth - len(hist))
            if st is not None:
                st.add("rot_histories_represented", paths + 1)
        return out
    finally:
        shutil.rmtree(d, ignore_errors=True)
        if own:
            shutil.rmtree(own, ignore_errors=True)


def _rotate_wide_worker(chunk, st: Stats, scratch):
    """two-digit generations: g consecutive pre-existing generations (g in 8..13), backup counts 11 / 12 / 13, two
    rotations with an append in between (complete and killed before every os-level call): the cascade is numeric,
    not lexicographic ('.9' < '.10' < '.11')"""
    d = os.path.join(scratch, "rotw-%d" % os.getpid())
    shutil.rmtree(d, ignore_errors=True)
    os.makedirs(d)
    try:
        for g, n in chunk:
            files = {"%s.%d" % (LIVE, k): _tok(g + 1 - k, 12) for k in range(1, g + 1)}
            files[LIVE] = _tok(g + 1, 20)
            nxt = g + 2
            hist = []
            for op in (["r", 8, n], ["a", 10], ["a", 10], ["r", 8, n]):
                files, nxt, res = _rot_step(d, files, nxt, op, st)
                hist.append(op)
                for sig, what, _k in res:
                    _viol(st, sig + ":two-digit-generations", "generations .1-.%d, backups %d, history %r: %s" % (g, n, hist, what),
                          {"kind": "rotate-wide", "g": g, "n": n})
                if res:
                    break
    finally:
        shutil.rmtree(d, ignore_errors=True)


def _rotate_worker(chunk, st: Stats, scratch, depth):
    for init, op in chunk:
        check_rotate({"kind": "rotate", "init": init, "history": [op]}, scratch, st, depth)
    if chunk:
        st.sample({"kind": "rotate", "init": chunk[0][0], "history": [chunk[0][1], ["r", 8, 2]]})


# =====================================================================================================
# (6) deferred writes: records captured by an active LogMux, caller goes on, commit-phase flush
# =====================================================================================================
CAP_STREAMS = ("scheduler.jsonl", "t1.jsonl", "turn.jsonl", REFLECTION, "zz_custom.jsonl")
CAP_MUT = ("set", "add", "del", "clr")          # top-level updates of the producer's dict between / after appends
CAP_OPS = ("A",) + CAP_MUT                       # "A" = append the producer's (one, re-used) dict
CAP_ENTRIES = ("io", "orch")                     # clematis.io.log.append_jsonl | orchestrator.logging.append_jsonl
CAP_PATHS = ("direct", "flush", "stager", "stager1")


def _cap_base(name):
    r = {"turn": 7, "agent": "Ä✓", "step": 0, "queued": [], "ms": 1.25, "now": "2025-06-01T00:00:00Z"}
    if name == "turn.jsonl":
        r.update({"durations_ms": {"t1": 1.5}, "slice_idx": 1, "yielded": True})
    return r


def _cap_mutate(ev, op, c):
    """top-level updates only (rebinding / adding / removing keys of the dict the producer owns); values that are
    rebound are NEW objects — in-place edits of nested values are not part of the alphabet"""
    if op == "set":
        ev["step"] = c
        ev["queued"] = ["B"] * c
    elif op == "add":
        ev["k%d" % c] = c
    elif op == "del":
        if "agent" in ev:
            del ev["agent"]
        else:
            ev["agent"] = "re%d" % c
    elif op == "clr":
        ev.clear()
        ev["step"] = c
        ev["reset"] = True
    else:
        raise HarnessError("capture op %r" % (op,))


def capture_histories(nmax):
    for n in range(1, nmax + 1):
        for h in itertools.product(CAP_OPS, repeat=n):
            if "A" in h:
                yield h


def _cap_flush_staged(pairs, limit, writer):
    """commit phase of orchestrator/parallel.py: stage the captured pairs, drain sorted, write unbuffered
    (drain -> flush -> retry once on back-pressure)"""
    iol.disable_staging()
    stager = iol.enable_staging(byte_limit=limit)
    try:
        for fp, payload in pairs:
            key = iol.default_key_for(file_path=fp, turn_id=7, slice_idx=0)
            try:
                stager.stage(fp, key, payload)
            except RuntimeError as exc:
                if str(exc) != "LOG_STAGING_BACKPRESSURE":
                    raise
                for rec in stager.drain_sorted():
                    writer(rec.file_path, rec.payload)
                stager.stage(fp, key, payload)
        for rec in stager.drain_sorted():
            writer(rec.file_path, rec.payload)
    finally:
        iol.disable_staging()


_CAP_LAST = {"buffered": 0}


def _cap_run(name, ci, entry, path, hist, root, addr="bare"):
    """one producer history on one path to the file, in a fresh sub-directory of ``root``.  Returns ([(sig, what)], outcome).
    ``addr``: how the producer addresses the stream (leg 9); a path-addressed run that violates is re-run under the bare
    name: what the twin reports as well keeps its signature, the rest is marked ':path-addressed'."""
    res, outcome = _cap_run1(name, ci, entry, path, hist, root, addr)
    if res and addr != "bare":
        buffered = _CAP_LAST["buffered"]
        twin = {sig for sig, _ in _cap_run1(name, ci, entry, path, hist, root, "bare")[0]}
        _CAP_LAST["buffered"] = buffered
        res = [(sig if sig in twin else sig + ":path-addressed", what) for sig, what in res]
    return res, outcome


def _cap_run1(name, ci, entry, path, hist, root, addr):
    d = _fresh_dir(root, "c")
    old_dir = os.environ.get("CLEMATIS_LOG_DIR")
    os.environ["CLEMATIS_LOG_DIR"] = d
    _CAP_LAST["buffered"] = 0
    try:
        return _cap_run_in(name, ci, entry, path, hist, d, addr)
    finally:
        if old_dir is None:
            os.environ.pop("CLEMATIS_LOG_DIR", None)
        else:
            os.environ["CLEMATIS_LOG_DIR"] = old_dir
        shutil.rmtree(d, ignore_errors=True)


def _cap_run_in(name, ci, entry, path, hist, d, addr="bare"):
    import clematis.engine.util.logmux as lmux
    from clematis.engine.orchestrator import logging as ologging
    cls = _stream_class(name)
    ci_on = isinstance(ci, str) and ci.lower() == "true"
    sname = _addr_path(addr, name, d)          # what the producer passes as the stream
    if addr != "bare":
        _addr_mkdirs(d, sname)
    fpath = os.path.join(d, sname)
    api = {"io": clog.append_jsonl, "orch": ologging.append_jsonl, "unbuf": clog._append_jsonl_unbuffered}[entry]
    ev = _cap_base(name)
    expected, later = [], []
    res = []
    buffered = 0
    desc = "%s history %r via %s, path %s, CI=%r" % (name if addr == "bare" else "%s addressed as %r" % (name, sname), list(hist), entry, path, ci)

    def produce():
        c = 0
        for op in hist:
            if op == "A":
                expected.append(copy.deepcopy(ev))
                keep = Jo(ev)
                api(sname, ev)
                if Jo(ev) != keep:
                    res.append(("capture:append-mutates-record:%s" % cls, desc + ": the caller's record changed during append"))
            else:
                c += 1
                _cap_mutate(ev, op, c)
                if expected:
                    later.append(copy.deepcopy(ev))

    old_ci = os.environ.get("CI")
    _set_ci(ci)
    try:
        try:
            if path == "direct":
                produce()
            elif path == "flush":
                mux = lmux.LogMux()
                with lmux.use_mux(mux):
                    produce()
                pairs = mux.dump()
                buffered = _CAP_LAST["buffered"] = len(pairs)
                lmux.flush(pairs)
            else:
                mux, token = ologging._begin_log_capture()
                try:
                    produce()
                    pairs = mux.dump()
                    buffered = _CAP_LAST["buffered"] = len(pairs)
                finally:
                    ologging._end_log_capture(token)
                _cap_flush_staged(pairs, BIG if path == "stager" else 1, ologging._append_unbuffered)
        except HarnessError:
            raise
        except Exception as e:
            return res + [("capture:raises:%s" % type(e).__name__, desc + " raised %r" % (e,))], "raises"
    finally:
        _set_ci(old_ci)
    try:
        _, got = _read_jsonl(fpath)
    except Exception as e:
        return res + [("capture:malformed-or-missing-file", desc + ": %r" % (e,))], "malformed"
    if len(got) != len(expected):
        return res + [("capture:lost-or-duplicated", desc + ": %d records appended, %d lines in the file" % (len(expected), len(got)))], "lost"
    for i, (want, g) in enumerate(zip(expected, got)):
        bad = norm_clauses(name, want, g, ci_on)
        if not bad:
            continue
        follows = any(not norm_clauses(name, s, g, ci_on) for s in later)
        sig = ("capture:line-follows-later-update-of-callers-dict:%s" if follows else "capture:line-differs-from-appended-record:%s") % cls
        res.append((sig, desc + ": appended record #%d was %s, the file holds %s (%s)" % (i, Jo(want), Jo(g), bad[0][1])))
        return res, "aliased" if follows else "changed"
    return res, (("ok-buffered" if buffered else "ok") if not res else "mutates")


def check_capture(case):
    """case: {kind:capture, stream, ci, entry, path, hist}"""
    own = tempfile.mkdtemp(prefix="c16c", dir="/dev/shm" if os.path.isdir("/dev/shm") else None)
    old_dir = os.environ.get("CLEMATIS_LOG_DIR")
    os.environ["CLEMATIS_LOG_DIR"] = own
    try:
        return _cap_run(case["stream"], case["ci"], case["entry"], case["path"], tuple(case["hist"]), own, case.get("addr", "bare"))[0]
    finally:
        if old_dir is None:
            os.environ.pop("CLEMATIS_LOG_DIR", None)
        else:
            os.environ["CLEMATIS_LOG_DIR"] = old_dir
        shutil.rmtree(own, ignore_errors=True)


def _capture_worker(chunk, st: Stats, scratch, cis, amax):
    d = os.path.join(scratch, "cap-%d" % os.getpid())
    os.makedirs(d, exist_ok=True)
    old_dir = os.environ.get("CLEMATIS_LOG_DIR")
    os.environ["CLEMATIS_LOG_DIR"] = d
    try:
        for hist in chunk:
            napp = hist.count("A")
            first = hist.index("A")
            updated_after = any(op != "A" for op in hist[first + 1:])
            # leg 9: histories of <= amax steps also with the stream addressed by a path
            addrs = ADDRS if len(hist) <= amax else ADDRS[:1]
            # ... and through the appender's second entry point (it by-passes a mux by design: write-through only)
            entries = CAP_ENTRIES + (("unbuf",) if len(hist) <= amax else ())
            for name in CAP_STREAMS:
                for ci in cis:
                    for entry in entries:
                        for path in (CAP_PATHS if entry != "unbuf" else CAP_PATHS[:1]):
                            for addr in addrs:
                                res, outcome = _cap_run(name, ci, entry, path, hist, d, addr)
                                st.add("states")
                                st.add("validated")
                                st.add("capture_cases")
                                if addr != "bare":
                                    st.add("capture_cases_path_addressed")
                                if _CAP_LAST["buffered"]:
                                    st.add("capture_buffered")      # anti-vacuity: the LogMux did defer the write (whatever the verdict)
                                st.add("transitions", napp)
                                if path != "direct" and updated_after:
                                    st.add("nontrivial")
                                st.distinct("outcomes", ("capture", outcome, path, _stream_class(name), updated_after, addr != "bare"))
                                if res:
                                    case = {"kind": "capture", "stream": name, "ci": ci, "entry": entry, "path": path, "hist": list(hist)}
                                    if addr != "bare":
                                        case["addr"] = addr
                                    for sig, what in res:
                                        _viol(st, sig, what, case)
        if chunk:
            st.sample({"kind": "capture", "stream": "scheduler.jsonl", "ci": "true", "entry": "io", "path": "flush", "hist": list(chunk[0])})
    finally:
        if old_dir is None:
            os.environ.pop("CLEMATIS_LOG_DIR", None)
        else:
            os.environ["CLEMATIS_LOG_DIR"] = old_dir
        shutil.rmtree(d, ignore_errors=True)


# =====================================================================================================
# (6b) capture STRUCTURE: one writer, every well-bracketed history of begin-capture / write / end-capture(+commit)
#      (sequential and nested captures, writes outside a capture).  Reference model: a stack of buffers; an ended capture
#      is committed at once through the documented flush of its mechanism; the files hold the writer's records in
#      write order, nothing lost, and nothing reaches a file while the writer's OUTERMOST capture is still active.
# =====================================================================================================
NEST_OPS = ("W", "B", "E")
NEST_MECHS = ("use_mux", "begin_end")            # logmux.set_mux/reset_mux(+use_mux) | orchestrator.logging._begin/_end_log_capture
NEST_COMMITS = ("flush", "stager", "stager1")    # commit of the OUTERMOST capture; an inner capture commits via logmux.flush
NEST_LAYOUTS = ((REFLECTION,), ("scheduler.jsonl", "zz_custom.jsonl"))
NEST_DEPTH = 3


def nest_histories(nmax, depth=NEST_DEPTH):
    """every complete well-bracketed string over W/B/E of <= nmax steps with >= 1 capture and >= 1 write"""
    out = []

    def rec(h, d):
        if d == 0 and "B" in h and "W" in h:
            out.append(tuple(h))
        if len(h) >= nmax:
            return
        for op in NEST_OPS:
            nd = d + (1 if op == "B" else -1 if op == "E" else 0)
            if nd < 0 or nd > depth or nd > nmax - len(h) - 1:
                continue
            h.append(op)
            rec(h, nd)
            h.pop()
    rec([], 0)
    return out


def _nest_lines(d, files):
    got = {}
    for f in files:
        p = os.path.join(d, f)
        if os.path.exists(p):
            got[f] = _read_jsonl(p)[1]
        else:
            got[f] = []
    return got


def _nest_run(hist, mech, entry, commit, layout, ci, root):
    d = _fresh_dir(root, "n")
    old_dir = os.environ.get("CLEMATIS_LOG_DIR")
    os.environ["CLEMATIS_LOG_DIR"] = d
    old_ci = os.environ.get("CI")
    _set_ci(ci)
    try:
        return _nest_run_in(hist, mech, entry, commit, layout, ci, d)
    finally:
        _set_ci(old_ci)
        if old_dir is None:
            os.environ.pop("CLEMATIS_LOG_DIR", None)
        else:
            os.environ["CLEMATIS_LOG_DIR"] = old_dir
        shutil.rmtree(d, ignore_errors=True)


def _nest_run_in(hist, mech, entry, commit, layout, ci, d):
    import clematis.engine.util.logmux as lmux
    from clematis.engine.orchestrator import logging as ologging
    api = {"io": clog.append_jsonl, "orch": ologging.append_jsonl}[entry]
    ci_on = isinstance(ci, str) and ci.lower() == "true"
    desc = "capture structure %s (%s, append via %s, outermost commit %s, streams %s, CI=%r)" % (
        "".join(hist), mech, entry, commit, "+".join(layout), ci)
    expected = {f: [] for f in layout}
    stack = []                      # [(mux, token)]
    escaped = None
    nw = 0
    maxdepth = 0
    info = {"buffered": 0, "depth": 0}
    try:
        for i, op in enumerate(hist):
            if op == "W":
                f = layout[nw % len(layout)]
                rec = dict(_cap_base(f), step=nw, queued=["q"] * (nw % 3))
                nw += 1
                expected[f].append(copy.deepcopy(rec))
                api(f, rec)
            elif op == "B":
                if mech == "use_mux":
                    mux = lmux.LogMux()
                    token = lmux.set_mux(mux)
                else:
                    mux, token = ologging._begin_log_capture()
                stack.append((mux, token))
                maxdepth = max(maxdepth, len(stack))
            else:
                mux, token = stack.pop()
                pairs = mux.dump()
                info["buffered"] += len(pairs)
                if mech == "use_mux":
                    lmux.reset_mux(token)
                else:
                    ologging._end_log_capture(token)
                if stack or commit == "flush":
                    lmux.flush(pairs)           # inside an enclosing capture the commit re-enters the capture-aware appender
                else:
                    _cap_flush_staged(pairs, BIG if commit == "stager" else 1, ologging._append_unbuffered)
            if stack:
                # the writer's outermost capture is active: its records (and those of ended inner captures) are deferred
                on_disk = _nest_lines(d, layout)
                # what may be on disk: records written / committed before the currently outermost capture began
                allowed = info.get("disk_before", {})
                for f in layout:
                    if escaped is None and len(on_disk[f]) != allowed.get(f, 0):
                        escaped = ("after step %d (%s) %s holds %d lines, %d were on disk when the writer's outermost active "
                                   "capture began" % (i, op, f, len(on_disk[f]), allowed.get(f, 0)))
            else:
                info["disk_before"] = {f: len(v) for f, v in _nest_lines(d, layout).items()}
    except HarnessError:
        raise
    except Exception as e:
        info["depth"] = maxdepth
        return [("capture-nested:raises:%s" % type(e).__name__, desc + " raised %r" % (e,))], "raises", info
    finally:
        while stack:                     # leave no capture active in this worker process, whatever the engine did
            _, token = stack.pop()
            try:
                lmux.LOG_MUX.reset(token)
            except Exception:
                pass
        try:
            if lmux.LOG_MUX.get() is not None:
                lmux.LOG_MUX.set(None)
        except Exception:
            pass
    info["depth"] = maxdepth
    try:
        got = _nest_lines(d, layout)
    except Exception as e:
        return [("capture-nested:malformed-file", desc + ": %r" % (e,))], "malformed", info
    for f in layout:
        want = expected[f]
        g = got[f]
        if len(g) != len(want):
            return [("capture-nested:lost-or-duplicated", desc + ": %d records appended to %s, %d lines in the file (steps %r)"
                     % (len(want), f, len(g), [x.get("step") if isinstance(x, dict) else x for x in g]))], "lost", info
        for k, (w, x) in enumerate(zip(want, g)):
            if norm_clauses(f, w, x, ci_on):
                steps = [y.get("step") if isinstance(y, dict) else None for y in g]
                if sorted(s for s in steps if s is not None) == [y["step"] for y in want]:
                    return [("capture-nested:writer-order-broken", desc + ": the writer appended steps %r to %s, the file holds them as %r"
                             % ([y["step"] for y in want], f, steps))], "reordered", info
                return [("capture-nested:line-differs-from-appended-record", desc + ": record #%d of %s was %s, the file holds %s"
                         % (k, f, Jo(w), Jo(x)))], "changed", info
    if escaped is not None:
        # the files are right in the end, but a record by-passed the active capture (io/log.py, logmux.py: buffered while a mux is active)
        return [("capture-nested:written-through-while-capture-active", desc + ": " + escaped)], "escaped", info
    return [], ("ok-nested" if maxdepth >= 2 else "ok-flat"), info


def check_nest(case):
    own = tempfile.mkdtemp(prefix="c16n", dir="/dev/shm" if os.path.isdir("/dev/shm") else None)
    try:
        return _nest_run(tuple(case["hist"]), case["mech"], case["entry"], case["commit"], tuple(case["layout"]), case["ci"], own)[0]
    finally:
        shutil.rmtree(own, ignore_errors=True)


def _nest_worker(chunk, st: Stats, scratch, cis):
    d = os.path.join(scratch, "nest-%d" % os.getpid())
    os.makedirs(d, exist_ok=True)
    try:
        for hist in chunk:
            for mech in NEST_MECHS:
                for entry in CAP_ENTRIES:
                    for commit in NEST_COMMITS:
                        for layout in NEST_LAYOUTS:
                            for ci in cis:
                                res, outcome, info = _nest_run(hist, mech, entry, commit, layout, ci, d)
                                st.add("states")
                                st.add("validated")
                                st.add("nest_cases")
                                st.add("transitions", len(hist))
                                if info["buffered"]:
                                    st.add("nest_buffered")
                                if info["depth"] >= 2:
                                    st.add("nest_cases_nested")
                                    st.add("nontrivial")
                                st.distinct("outcomes", ("nest", outcome, mech, commit, min(info["depth"], 2)))
                                if res:
                                    case = {"kind": "capture-nest", "hist": list(hist), "mech": mech, "entry": entry, "commit": commit,
                                            "layout": list(layout), "ci": ci}
                                    for sig, what in res:
                                        _viol(st, sig, what, case)
        if chunk:
            st.sample({"kind": "capture-nest", "hist": list(chunk[0]), "mech": "use_mux", "entry": "io", "commit": "flush",
                       "layout": list(NEST_LAYOUTS[0]), "ci": "true"})
    finally:
        shutil.rmtree(d, ignore_errors=True)


# =====================================================================================================
# (7) compaction by concurrent same-process writers: every schedule (<= bound preemptions) of the real threads
# =====================================================================================================
CONC_LISTS = {"s": [1], "m": [4, 6], "l": [5, 6, 7, 4, 1]}       # indices into RW_RECS: short / medium / long payloads
CONC_STALE = b'{"stale": 1}\n{"stale": 2}\n'
CONC_TIMEOUT = 120.0
_REAL_LOCKS = None


def _conc_records(i, code):
    """writer i's record list: a tag record (payloads of two writers differ even when they have the same length)"""
    return [{"writer": i, "list": code}] + [copy.deepcopy(RW_RECS[k]) for k in CONC_LISTS[code]]


class _ConcScenario:
    """n writer threads, writer i compacts files[i] with its own record list; optionally one reader thread that takes
    a single whole-file read of every target at some instant of the schedule"""

    def __init__(self, case, d):
        self.files = list(case["files"])
        self.codes = list(case["lists"])
        self.pre = case["pre"]
        self.reader = bool(case.get("reader"))
        self.d = d
        self.lists = [_conc_records(i, c) for i, c in enumerate(self.codes)]
        self.n = len(self.files) + (1 if self.reader else 0)
        self.traced = [catomic.__file__]

    def _classify(self, name, raw):
        """which complete content is this?  'absent' | 'stale' | writer index | None (neither)"""
        if raw is None:
            return "absent" if self.pre == "absent" else None
        if self.pre == "stale" and raw == CONC_STALE:
            return "stale"
        try:
            if raw and not raw.endswith(b"\n"):
                return None
            got = [json.loads(x.decode("utf-8")) for x in raw.split(b"\n")[:-1]]
        except Exception:
            return None
        for i, f in enumerate(self.files):
            if f == name and _records_match(name, self.lists[i], got) is None:
                return i
        return None

    def _read(self, name):
        try:
            with open(os.path.join(self.d, name), "rb") as fh:
                return fh.read()
        except FileNotFoundError:
            return None

    def make(self, ex):
        global _REAL_LOCKS
        import threading
        for f in os.listdir(self.d):
            os.unlink(os.path.join(self.d, f))
        if self.pre == "stale":
            for name in set(self.files):
                with open(os.path.join(self.d, name), "wb") as fh:
                    fh.write(CONC_STALE)
        # an implementation that serialises its writers with a module-level lock must not block a controlled thread
        # outside the scheduler: such locks become scheduling points for the time of the exploration
        if _REAL_LOCKS is None:
            _REAL_LOCKS = (type(threading.Lock()), type(threading.RLock()))
        swapped = []
        for mod in (catomic, clog):
            for k, v in list(vars(mod).items()):
                if isinstance(v, _REAL_LOCKS):
                    swapped.append((mod, k, v))
                    setattr(mod, k, ex.lock("%s.%s" % (mod.__name__, k)))
        ctx = {"errors": {}, "seen": [], "swapped": swapped}

        def writer(i):
            def body():
                try:
                    clog.rewrite_jsonl(self.files[i], copy.deepcopy(self.lists[i]))
                except Exception as e:  # the operation's own failure is an outcome, not a harness problem
                    ctx["errors"][i] = e
            return body

        def reader():
            for name in sorted(set(self.files)):
                ctx["seen"].append((name, self._read(name)))

        bodies = [writer(i) for i in range(len(self.files))]
        if self.reader:
            bodies.append(reader)
        return bodies, ctx

    def judge(self, ex, ctx):
        """returns ([(sig, what)], outcome class)"""
        for mod, k, v in ctx["swapped"]:
            setattr(mod, k, v)
        desc = "writers %r compacting %r concurrently (file %s before)" % (self.codes, self.files, self.pre)
        if ex.deadlock:
            return [("rewrite:concurrent:deadlock", desc + ": no writer can continue")], "deadlock"
        res = []
        for i, e in sorted(ctx["errors"].items()):
            res.append(("rewrite:concurrent:raises:%s" % type(e).__name__, desc + ": rewrite_jsonl of writer %d raised %r" % (i, e)))
        for name, raw in ctx["seen"]:
            if self._classify(name, raw) is None:
                res.append(("rewrite:concurrent:reader-sees-incomplete-file", desc + ": a reader found %s holding %d bytes that are neither the "
                            "previous content nor one writer's complete record list (head %r)" % (name, len(raw or b""), (raw or b"")[:60])))
                break
        winners = []
        for name in sorted(set(self.files)):
            w = self._classify(name, self._read(name))
            if not isinstance(w, int):
                raw = self._read(name)
                res.append(("rewrite:concurrent:file-is-no-writers-record-list", desc + ": afterwards %s (%s bytes) holds %s" % (
                    name, "no" if raw is None else len(raw),
                    "the previous content" if w in ("stale", "absent") else "neither writer's complete record list (torn / mixed / garbled lines)")))
                winners.append("bad")
            else:
                winners.append(w)
        if res:
            return res, "bad:" + res[0][0].split(":")[2]
        return [], "ok:" + ",".join(str(w) for w in winners)


class _AppendConcScenario:
    """n appender threads of ONE process: writer i appends its records (1-2, in order) to files[i] through the entry
    point apis[i].  Unlike leg (1) the writers share whatever state the appender keeps in the process (module-level
    caches, handles, buffers).  A thread switch can happen before every source line of clematis/io/log.py."""

    APIS = {"io": lambda: clog.append_jsonl, "unbuf": lambda: clog._append_jsonl_unbuffered}

    def __init__(self, case, d):
        self.files = list(case["files"])
        self.apis = list(case["apis"])
        self.counts = list(case["counts"])
        self.root = d
        self.n = len(self.files)
        self.traced = [clog.__file__]
        self.recs = [[_mk_record("u", w, i) for i in range(self.counts[w])] for w in range(self.n)]

    def make(self, ex):
        global _REAL_LOCKS
        import threading
        d = _fresh_dir(self.root, "a")
        os.environ["CLEMATIS_LOG_DIR"] = d
        if _REAL_LOCKS is None:
            _REAL_LOCKS = (type(threading.Lock()), type(threading.RLock()))
        swapped = []
        if ex is not None:
            for k, v in list(vars(clog).items()):
                if isinstance(v, _REAL_LOCKS):
                    swapped.append((clog, k, v))
                    setattr(clog, k, ex.lock("%s.%s" % (clog.__name__, k)))
        ctx = {"errors": {}, "swapped": swapped, "dir": d}

        def writer(w):
            api = self.APIS[self.apis[w]]()

            def body():
                try:
                    for rec in self.recs[w]:
                        api(self.files[w], copy.deepcopy(rec))
                except Exception as e:  # the operation's own failure is an outcome, not a harness problem
                    ctx["errors"][w] = e
            return body

        return [writer(w) for w in range(self.n)], ctx

    def judge(self, ex, ctx):
        for mod, k, v in ctx["swapped"]:
            setattr(mod, k, v)
        d = ctx["dir"]
        desc = "threads of one process appending %r records to %r through %r" % (self.counts, self.files, self.apis)
        try:
            if ex is not None and ex.deadlock:
                return [("append:threads:deadlock", desc + ": no appender can continue")], "deadlock"
            res = []
            for w, e in sorted(ctx["errors"].items()):
                res.append(("append:threads:raises:%s" % type(e).__name__, desc + ": the append of writer %d raised %r" % (w, e)))
            order = []
            for name in sorted(set(self.files)):
                want = {(w, i): self.recs[w][i] for w in range(self.n) if self.files[w] == name for i in range(self.counts[w])}
                try:
                    _, got = _read_jsonl(os.path.join(d, name))
                except Exception as e:
                    res.append(("append:threads:malformed-or-missing-file", desc + ": %s: %r" % (name, e)))
                    continue
                seen = []
                for g in got:
                    t = g.get("tail") if isinstance(g, dict) else None
                    k = (t[0], t[1]) if isinstance(t, list) and len(t) == 2 else None
                    if k not in want:
                        # another stream's record, or no record at all
                        foreign = isinstance(t, list) and any(t == [w, i] for w in range(self.n) for i in range(self.counts[w]))
                        res.append(("append:threads:%s" % ("record-in-wrong-stream" if foreign else "garbled-line"),
                                    desc + ": %s holds %s" % (name, Jo(g)[:120])))
                        break
                    if norm_clauses(name, want[k], g, True):
                        res.append(("append:threads:garbled-line", desc + ": %s holds %s for record %r" % (name, Jo(g)[:120], k)))
                        break
                    seen.append(k)
                else:
                    if len(set(seen)) != len(seen):
                        res.append(("append:threads:duplicate-record", desc + ": %s holds records %r" % (name, seen)))
                    elif set(seen) != set(want):
                        res.append(("append:threads:lost-record", desc + ": %s holds records %r, appended %r" % (name, seen, sorted(want))))
                    else:
                        last = {}
                        for w, i in seen:
                            if last.get(w, -1) > i:
                                res.append(("append:threads:writer-order", desc + ": %s holds records %r" % (name, seen)))
                                break
                            last[w] = i
                    order.append(tuple(w for w, _ in seen))
            if res:
                return res, "bad:" + res[0][0].split(":")[2]
            return [], "ok:" + repr(order)
        finally:
            shutil.rmtree(d, ignore_errors=True)


def _make_scenario(case, d):
    return _AppendConcScenario(case, d) if case["kind"] == "append-conc" else _ConcScenario(case, d)


def append_conc_cases(thorough):
    out = []
    two = ("t1.jsonl", "zz_custom.jsonl")
    for files in (["t1.jsonl"] * 2, ["zz_custom.jsonl"] * 2, list(two)):
        for apis in (["io", "io"], ["io", "unbuf"]):
            out.append({"kind": "append-conc", "files": files, "apis": apis, "counts": [2, 2], "bound": 1})
    if thorough:
        for files in (["t1.jsonl"] * 2, list(two)):
            out.append({"kind": "append-conc", "files": files, "apis": ["unbuf", "unbuf"], "counts": [2, 2], "bound": 2})
            out.append({"kind": "append-conc", "files": files, "apis": ["io", "io"], "counts": [2, 1], "bound": 2})
        out.append({"kind": "append-conc", "files": [two[0], two[1], two[0]], "apis": ["io", "unbuf", "unbuf"], "counts": [2, 2, 1], "bound": 1})
        out.append({"kind": "append-conc", "files": [two[0], two[1], "scheduler.jsonl"], "apis": ["unbuf", "io", "io"], "counts": [1, 2, 2], "bound": 1})
    return out


def _conc_warmup(sc):
    """appender threads: one uncontrolled sequential run first, so that whatever the appender keeps between calls is in
    the same condition ("left behind by an earlier run on another directory") at the start of every controlled
    execution — in the exploration and in a replay"""
    if isinstance(sc, _AppendConcScenario):
        bodies, ctx = sc.make(None)
        for b in bodies:
            b()
        sc.judge(None, ctx)


def _conc_explore(sc, bound, on_exec):
    """mc.sched.explore with a shorter watchdog (same DFS over schedule prefixes; every schedule with <= bound
    preemptions is executed exactly once; the default schedule is executed twice to assert reproducibility)"""
    from mc import sched
    stack = [[]]
    n = 0
    by_pre = {}
    max_points = 0
    _conc_warmup(sc)
    while stack:
        prefix = stack.pop()
        ex = sched.Execution(sc.n, prefix, sc.traced, timeout=CONC_TIMEOUT)
        bodies, ctx = sc.make(ex)
        ex.run(bodies)
        if ex.error:
            raise HarnessError("schedule explorer: %s" % ex.error)
        if n == 0:
            res0, out0 = sc.judge(ex, ctx)
            ex2 = sched.Execution(sc.n, prefix, sc.traced, timeout=CONC_TIMEOUT)
            b2, ctx2 = sc.make(ex2)
            ex2.run(b2)
            res2, out2 = sc.judge(ex2, ctx2)
            if ex2.trace != ex.trace or ex2.deadlock != ex.deadlock or out0 != out2:
                raise HarnessError("schedule explorer: the default schedule is not reproducible")
            on_exec(ex, res0, out0)
        else:
            res, out = sc.judge(ex, ctx)
            on_exec(ex, res, out)
        n += 1
        p = ex.preemptions()
        by_pre[p] = by_pre.get(p, 0) + 1
        max_points = max(max_points, ex.points)
        stack.extend(sched.children(ex.trace, len(prefix), bound))
    return {"executions": n, "by_preemptions": by_pre, "max_points": max_points}


def conc_cases(thorough):
    out = []
    same = [("s", "l"), ("l", "s"), ("m", "m")]
    for name in ("custom.jsonl", "t1.jsonl"):
        for pre in ("absent", "stale"):
            for a, b in same:
                out.append({"kind": "rewrite-conc", "files": [name, name], "lists": [a, b], "pre": pre, "bound": 1, "reader": False})
    # two different targets in one directory (staging names must not collide across targets either)
    out.append({"kind": "rewrite-conc", "files": ["custom.jsonl", "t1.jsonl"], "lists": ["s", "l"], "pre": "stale", "bound": 1, "reader": False})
    if thorough:
        for pre in ("absent", "stale"):
            for a, b in same:
                out.append({"kind": "rewrite-conc", "files": ["custom.jsonl"] * 2, "lists": [a, b], "pre": pre, "bound": 2, "reader": False})
                out.append({"kind": "rewrite-conc", "files": ["t1.jsonl"] * 2, "lists": [a, b], "pre": pre, "bound": 1, "reader": True})
            out.append({"kind": "rewrite-conc", "files": ["custom.jsonl"] * 3, "lists": ["s", "l", "m"], "pre": pre, "bound": 1, "reader": False})
        out.append({"kind": "rewrite-conc", "files": ["custom.jsonl", "t1.jsonl"], "lists": ["l", "s"], "pre": "absent", "bound": 2, "reader": False})
    return out


def _conc_worker(chunk, st: Stats, scratch):
    d = os.path.join(scratch, "conc-%d" % os.getpid())
    os.makedirs(d, exist_ok=True)
    old_dir, old_ci = os.environ.get("CLEMATIS_LOG_DIR"), os.environ.get("CI")
    os.environ["CLEMATIS_LOG_DIR"] = d
    _set_ci("true")
    try:
        for case in chunk:
            sc = _make_scenario(case, d)
            tag = "conc" if case["kind"] == "rewrite-conc" else "appconc"
            st.add(tag + "_programs")

            def on_exec(ex, res, outcome, case=case, tag=tag):
                st.add("states")
                st.add("transitions", sum(case["counts"]) if "counts" in case else len(case["files"]))
                st.add("validated")
                st.add(tag + "_schedules")
                st.add(tag + "_sched_points", ex.points)
                if ex.preemptions() > 0:
                    st.add("nontrivial")
                st.distinct("outcomes", (case["kind"], outcome, case.get("pre"), len(set(case["files"]))))
                for sig, what in res:
                    c = dict(case)
                    c["choices"] = ex.choices()
                    _viol(st, sig, what + " ; schedule (thread chosen at each choice point) %r" % (ex.choices(),), c)

            info = _conc_explore(sc, case["bound"], on_exec)
            for p, k in info["by_preemptions"].items():
                st.add("%s_schedules_with_%d_preemptions" % (tag, p), k)
            st.notes[tag + "_max_points_per_execution"] = max(st.notes.get(tag + "_max_points_per_execution", 0), info["max_points"])
            st.notes[tag + "_max_schedules_per_program"] = max(st.notes.get(tag + "_max_schedules_per_program", 0), info["executions"])
        if chunk:
            st.sample({k: v for k, v in chunk[0].items()})
    finally:
        if old_dir is None:
            os.environ.pop("CLEMATIS_LOG_DIR", None)
        else:
            os.environ["CLEMATIS_LOG_DIR"] = old_dir
        _set_ci(old_ci)
        shutil.rmtree(d, ignore_errors=True)


def check_conc(case):
    from mc import sched
    own = tempfile.mkdtemp(prefix="c16k", dir="/dev/shm" if os.path.isdir("/dev/shm") else None)
    old_dir, old_ci = os.environ.get("CLEMATIS_LOG_DIR"), os.environ.get("CI")
    os.environ["CLEMATIS_LOG_DIR"] = own
    _set_ci("true")
    try:
        sc = _make_scenario(case, own)
        _conc_warmup(sc)
        ex, ctx = sched.run_schedule(sc.make, sc.n, sc.traced, case.get("choices") or [])
        return sc.judge(ex, ctx)[0]
    finally:
        if old_dir is None:
            os.environ.pop("CLEMATIS_LOG_DIR", None)
        else:
            os.environ["CLEMATIS_LOG_DIR"] = old_dir
        _set_ci(old_ci)
        shutil.rmtree(own, ignore_errors=True)



# =====================================================================================================
# (8) life cycle of a stream inside ONE process: appends interleaved with the maintenance operations on the same files
# =====================================================================================================
LC_OTHER = "zz_other.jsonl"
LC_OPS = ("A", "U", "B", "C", "R")
# A  append one record to stream X through clematis.io.log.append_jsonl
# U  append one record to stream X through _append_jsonl_unbuffered (the commit-phase writer of the parallel driver)
# B  append one record to a second stream of the same directory
# C  compaction of X: read the file, rewrite_jsonl(X, records)        (not enabled while X has no live file)
# R  rotation of the directory: rotate_logs.main(--pattern *.jsonl --max-bytes M --backups N)
LC_STREAMS = ("t1.jsonl", "zz_custom.jsonl")
LC_BACKUPS = (1, 2)
LC_MAXBYTES = (1, 150)      # 1: every live file rotates; 150: a live file rotates from its second record on


def _lc_record(k, name):
    return {"id": k, "turn": k + 1, "stream": name, "agent": "Ä✓", "ms": 0.5 + k, "pad": "p" * (4 + k % 3)}


def _lc_assert_sizes():
    """the larger threshold separates one record from two, in the appender's and in the canonical (compacted) format"""
    for name in LC_STREAMS + (LC_OTHER,):
        one = [len((json.dumps(_lc_record(k, name), ensure_ascii=False) + "\n").encode("utf-8")) for k in range(12)]
        two = [len((json.dumps(_expected_t1(_lc_record(k, name)), ensure_ascii=False, sort_keys=True, separators=(",", ":")) + "\n").encode("utf-8"))
               for k in range(12)]
        if not (max(one) < LC_MAXBYTES[1] <= 2 * min(two)):
            raise HarnessError("life-cycle leg: threshold %d does not separate one record (%d B) from two (%d B)" % (LC_MAXBYTES[1], max(one), 2 * min(two)))


class _LcModel:
    """reference model taken from the statement: a stream is a live record list plus generations .1 .. .N (newest
    first); an append adds one record at the end of the live list (creating the file), compaction keeps the list, a
    rotation of a live file of size >= M makes it generation .1, moves every generation one slot up and drops what was
    generation .N; everything else stays as it is.  (Histories start from an empty directory with one fixed N, so the
    generations are always contiguous and none lies beyond N.)"""

    def __init__(self, n):
        self.n = n
        self.live = {}      # stream -> [record ids] (absent = no live file)
        self.gens = {}      # stream -> [[record ids] of .1, of .2, ...]
        self.maint = {}     # stream -> last maintenance operation that replaced / renamed its live file

    def append(self, name, k):
        self.live.setdefault(name, []).append(k)

    def rotate(self, name):
        g = self.gens.setdefault(name, [])
        g.insert(0, self.live.pop(name))
        del g[self.n:]

    def files(self):
        out = {}
        for name, ids in self.live.items():
            out[name] = (name, list(ids))
        for name, g in self.gens.items():
            for k, ids in enumerate(g):
                out["%s.%d" % (name, k + 1)] = (name, list(ids))
        return out


def _lc_verify(d, model, records, memo):
    """compare the directory with the model; returns (failure class, stream, detail) or None"""
    want = model.files()
    have = set(os.listdir(d))
    streams = set(model.live) | set(model.gens)
    for fname in sorted(want):
        stream, ids = want[fname]
        if fname not in have:
            return "lost-record" if ids else "missing-file", stream, "%s does not exist, expected records %r" % (fname, ids)
        try:
            raw = open(os.path.join(d, fname), "rb").read()
        except OSError as e:
            return "missing-file", stream, "%s: %r" % (fname, e)
        if raw and not raw.endswith(b"\n"):
            return "garbled-line", stream, "%s does not end with LF" % fname
        got = []
        for ln in raw.split(b"\n")[:-1]:
            key = (stream, ln)
            if key not in memo:
                rid = None
                try:
                    obj = json.loads(ln.decode("utf-8"))
                    if isinstance(obj, dict) and obj.get("id") in records and _records_match(stream, [records[obj["id"]]], [obj]) is None:
                        rid = obj["id"]
                except Exception:
                    rid = None
                memo[key] = rid
            if memo[key] is None:
                return "garbled-line", stream, "%s holds the line %r which is no appended record" % (fname, ln[:80])
            got.append(memo[key])
        if got != ids:
            if len(set(got)) != len(got):
                cls = "duplicate-record"
            elif set(ids) - set(got):
                cls = "lost-record"
            elif set(got) - set(ids):
                cls = "foreign-record"
            else:
                cls = "order"
            return cls, stream, "%s holds records %r, expected %r" % (fname, got, ids)
    # a file in a slot of the model (live name, generation .1 .. .N) that should not exist: tolerated while it holds
    # no bytes (no record is claimed to be there), anything else is a record in the wrong place
    for stream in sorted(streams):
        for fname in [stream] + ["%s.%d" % (stream, k) for k in range(1, model.n + 1)]:
            if fname in have and fname not in want:
                size = os.path.getsize(os.path.join(d, fname))
                if size:
                    return "unexpected-file", stream, "%s exists (%d bytes) although no record / generation belongs there" % (fname, size)
    return None


def _lc_run(d, x, n, m, hist, st=None):
    """one history on a fresh directory; oracle after every step.  Returns ([(sig, what)], outcome, executed prefix)."""
    old_dir, old_ci = os.environ.get("CLEMATIS_LOG_DIR"), os.environ.get("CI")
    os.environ["CLEMATIS_LOG_DIR"] = d
    _set_ci("true")
    model = _LcModel(n)
    records, memo = {}, {}
    done = []
    rotated = compacted = 0
    try:
        for step, op in enumerate(hist):
            if op == "C" and x not in model.live:
                if st is not None:
                    return None, "not-enabled", done        # nothing to compact: the history without this step is enumerated anyway
                continue
            done.append(op)
            kind = {"A": "append", "U": "append", "B": "append", "C": "rewrite", "R": "rotate"}[op]
            target = LC_OTHER if op == "B" else x
            ctxd = "stream %s, backups %d, max-bytes %d, history %r" % (x, n, m, done)
            try:
                if kind == "append":
                    k = len(records)
                    records[k] = _lc_record(k, target)
                    (clog._append_jsonl_unbuffered if op == "U" else clog.append_jsonl)(target, copy.deepcopy(records[k]))
                    model.append(target, k)
                elif op == "C":
                    _, cur = _read_jsonl(os.path.join(d, x))
                    clog.rewrite_jsonl(x, cur)
                    model.maint[x] = "rewrite"
                    compacted += 1
                else:
                    due = [s for s in sorted(model.live) if os.path.getsize(os.path.join(d, s)) >= m]
                    rc = rl.main(["--dir", d, "--pattern", "*.jsonl", "--max-bytes", str(m), "--backups", str(n)])
                    if rc != 0:
                        return [("lifecycle:rotate-exit-code", ctxd + ": main returned %r" % (rc,))], "bad", done
                    for s_ in due:
                        model.rotate(s_)
                        model.maint[s_] = "rotate"
                        rotated += 1
            except HarnessError:
                raise
            except Exception as e:
                after = model.maint.get(target, "none")
                return [("lifecycle:raises:%s-after-%s" % (kind, after), ctxd + ": %s raised %r" % (kind, e))], "raises", done
            if st is not None:
                st.add("transitions")
                st.add("validated")
                st.add("lifecycle_steps")
            bad = _lc_verify(d, model, records, memo)
            if bad:
                cls, stream, detail = bad
                if kind == "append":
                    sig = "lifecycle:%s:append-after-%s" % (cls, model.maint.get(stream, "none"))
                else:
                    sig = "lifecycle:%s:%s" % (cls, kind)
                return [(sig, ctxd + ": after the last step (%s) %s" % (kind, detail))], "bad", done
        return [], "ok:%d:%d" % (min(rotated, 3), min(compacted, 2)), done
    finally:
        if old_dir is None:
            os.environ.pop("CLEMATIS_LOG_DIR", None)
        else:
            os.environ["CLEMATIS_LOG_DIR"] = old_dir
        _set_ci(old_ci)


def check_lifecycle(case):
    """case: {kind:lifecycle, stream, backups, max_bytes, hist}"""
    own = tempfile.mkdtemp(prefix="c16l", dir="/dev/shm" if os.path.isdir("/dev/shm") else None)
    try:
        return _lc_run(own, case["stream"], int(case["backups"]), int(case["max_bytes"]), list(case["hist"]))[0]
    finally:
        shutil.rmtree(own, ignore_errors=True)


def _lifecycle_worker(chunk, st: Stats, scratch, length):
    """chunk: list of (stream, backups, max-bytes, first two operations); every history of ``length`` operations with
    that prefix is executed, each on a directory of its own (a path is never used by two histories)"""
    root = os.path.join(scratch, "lc-%d" % os.getpid())
    os.makedirs(root, exist_ok=True)
    serial = 0
    try:
        for x, n, m, prefix in chunk:
            for rest in itertools.product(LC_OPS, repeat=length - len(prefix)):
                hist = tuple(prefix) + rest
                serial += 1
                d = os.path.join(root, "h%d" % serial)
                os.mkdir(d)
                res, outcome, done = _lc_run(d, x, n, m, hist, st)
                shutil.rmtree(d, ignore_errors=True)
                if res is None:
                    st.add("lifecycle_histories_with_a_step_that_is_not_enabled")
                    continue
                st.add("states")
                st.add("lifecycle_histories")
                # non-trivial: an append to a stream whose live file was replaced / renamed earlier in the history
                seen_maint = False
                for op in hist:
                    if op in ("C", "R"):
                        seen_maint = True
                    elif seen_maint and op in ("A", "U"):
                        st.add("nontrivial")
                        break
                st.distinct("outcomes", ("lifecycle", outcome, n, m))
                if res:
                    # the executed prefix up to the failing step is the witness
                    case = {"kind": "lifecycle", "stream": x, "backups": n, "max_bytes": m, "hist": list(done)}
                    for sig, what in res:
                        _viol(st, sig, what, case)
        if chunk:
            x, n, m, prefix = chunk[0]
            st.sample({"kind": "lifecycle", "stream": x, "backups": n, "max_bytes": m, "hist": list(prefix) + ["A", "R", "A"][:max(0, length - len(prefix))]})
    finally:
        shutil.rmtree(root, ignore_errors=True)


# =====================================================================================================
def _assert_seams():
    import inspect
    src = inspect.getsource(clog._append_jsonl_unbuffered)
    if "open(" not in src:
        raise HarnessError("seam missing: clematis.io.log._append_jsonl_unbuffered does not call open()")
    for mod, name in ((rl, "os"), (catomic, "os"), (rl, "main"), (iol, "LogStager"), (iol, "enable_staging"),
                      (iol, "default_key_for"), (iol, "normalize_for_identity"), (clog, "rewrite_jsonl")):
        if not hasattr(mod, name):
            raise HarnessError("seam missing: %s.%s" % (mod.__name__, name))
    import clematis.engine.util.logmux as lmux
    from clematis.engine.orchestrator import logging as ologging
    for mod, name in ((lmux, "LogMux"), (lmux, "use_mux"), (lmux, "flush"), (ologging, "_begin_log_capture"),
                      (ologging, "_end_log_capture"), (ologging, "_append_unbuffered"), (ologging, "append_jsonl"),
                      (clog, "append_jsonl")):
        if not hasattr(mod, name):
            raise HarnessError("seam missing: %s.%s" % (mod.__name__, name))


def run(run: Run) -> None:
    _assert_seams()
    th = run.thorough
    os.environ["CI"] = "true"
    # (2) normalisation
    ncases = list(normalize_cases(th))
    run.pmap(_normalize_worker, ncases)
    # (1) appender
    acfg = append_configs(th)
    run.notes["append_configs"] = len(acfg)
    deferred = []
    try:
        run.pmap(_append_worker, acfg)
    except HarnessError as e:
        # the virtual device could not observe this implementation's appends.  The other legs judge the real files;
        # what they find is reported first, the machinery problem is raised afterwards unless a new violation explains it
        deferred.append(str(e))
    # (3) stager
    nmax = 5 if th else 4
    nfiles = 3 if th else 2
    run.notes["stager_max_records"] = nmax
    nc = len(ST_CELLS)
    pre2 = [(a, None) for a in range(nc)] + [(a, b) for a in range(nc) for b in range(nc)]
    prefixes = [(a, b, "bare", nmax, nfiles) for a, b in pre2]
    # the same protocol with the streams addressed by paths (leg 9): shorter histories, every addressing
    amax = {ad: (nmax - 1 if ad in ("sub", "mixed") else nmax - 2) for ad in ST_ADDRS if ad != "bare"}
    run.notes["stager_max_records_path_addressed"] = dict(amax)
    prefixes += [(a, b, ad, amax[ad], 2) for ad in sorted(amax) for a, b in pre2]
    run.pmap(_stager_worker, prefixes, extra=(run.scratch,), chunks=len(prefixes))
    # (4) rewrite
    nkill = _rewrite_trace_len(run.scratch)
    run.notes["rewrite_os_calls"] = nkill
    rmax = 3 if th else 2
    rcases = []
    for name in RW_FILES:
        for pre in ("absent", "stale"):
            for n in range(0, rmax + 1):
                for idxs in itertools.product(range(len(RW_RECS)), repeat=n):
                    rcases.append((name, idxs, pre))
    ramax = 2 if th else 1
    run.notes["rewrite_max_records_path_addressed"] = ramax
    run.pmap(_rewrite_worker, rcases, extra=(run.scratch, nkill, ramax))
    # (5) rotation
    depth = 4 if th else 3
    run.notes["rotation_depth"] = depth
    inits = rot_initial_states()
    items = [(i, op) for i in range(len(inits)) for op in ROT_OPS]
    run.pmap(_rotate_worker, items, extra=(run.scratch, depth))
    wide = [(g, n) for g in (8, 9, 10, 11, 12, 13) for n in (11, 12, 13)]
    run.notes["rotation_wide_cases"] = len(wide)
    run.pmap(_rotate_wide_worker, wide, extra=(run.scratch,))
    # (6) deferred writes under an active LogMux
    cmax = 5 if th else 4
    cis = (None, "true", "false", "TRUE") if th else (None, "true")
    run.notes["capture_max_history"] = cmax
    camax = 3 if th else 2
    run.notes["capture_max_history_path_addressed"] = camax
    run.pmap(_capture_worker, list(capture_histories(cmax)), extra=(run.scratch, cis, camax))
    if not run.n.get("capture_buffered"):
        raise HarnessError("seam bypassed: no append was buffered by an active LogMux (capture leg would be vacuous)")
    # (6b) capture structure: sequential / nested captures of one writer
    nlen = 8 if th else 6
    run.notes["capture_structure_max_steps"] = nlen
    nhist = nest_histories(nlen)
    run.notes["capture_structure_histories"] = len(nhist)
    run.pmap(_nest_worker, nhist, extra=(run.scratch, cis))
    if not run.n.get("nest_buffered") or not run.n.get("nest_cases_nested"):
        raise HarnessError("seam bypassed: no nested capture buffered an append (capture-structure leg would be vacuous)")
    # (7) concurrent compaction
    ccases = conc_cases(th)
    run.notes["conc_programs"] = len(ccases)
    run.pmap(_conc_worker, ccases, extra=(run.scratch,), chunks=len(ccases), procs=NCPU)
    # (1b) appenders as threads of one process (shared in-process state of the appender)
    acc = append_conc_cases(th)
    run.notes["appconc_programs"] = len(acc)
    try:
        run.pmap(_conc_worker, acc, extra=(run.scratch,), chunks=len(acc), procs=NCPU)
    except HarnessError as e:
        deferred.append(str(e))
    # (8) life cycle of a stream in one process
    _lc_assert_sizes()
    lclen = 6 if th else 4
    run.notes["lifecycle_history_length"] = lclen
    lcitems = [(x, n, m, pre) for x in LC_STREAMS for n in LC_BACKUPS for m in LC_MAXBYTES for pre in itertools.product(LC_OPS, repeat=2)]
    run.pmap(_lifecycle_worker, lcitems, extra=(run.scratch, lclen), chunks=len(lcitems), procs=NCPU)
    if deferred:
        from mc.runner import load_known
        known = {e.get("signature") for e in load_known() if e.get("property") == run.prop and e.get("status") == "known"}
        if not (set(run.viol) - known):
            raise HarnessError(deferred[0])
        run.notes["append_leg_not_observable"] = deferred[0]
        print("note: append leg (virtual device) could not observe this implementation: %s" % deferred[0])

    run.rule = (
        "append: every writer configuration (2 writers x 1-2 records, 3 writers x 1%s records; shapes unicode / 9 KiB / 70 KiB%s; "
        "buffer sizes %s; file absent / one existing line) x EVERY interleaving of the writers' raw events, non-trivial = >=2 writers interleaved; "
        "normalize: every record shape (ms, now, durations_ms, yielded, slice_idx, nested, wrapper keys, 2 key orders) x 9 streams x CI values, "
        "non-trivial = CI on, identity/reflection stream, a volatile key present; "
        "stager: every arrival sequence of 1..%d records over 12 cells (2 turns x 3 streams x 2 slices) x every limit class "
        "(1, prefix sums of the estimates -1/0/+1, 32 MiB), sequences of <=%d records additionally through the real file writer, "
        "non-trivial = >=2 records and a finite limit; "
        "addressing: the stager enumeration repeated for sequences of <=%d records with every stream addressed as dir/NAME and with a different "
        "addressing per stream (dir/t1.jsonl, bare turn.jsonl, absolute zz_custom.jsonl), for <=%d records with ./NAME, d1/scheduler.jsonl/NAME and "
        "an absolute path (<=2 records also through the real writer, directories provided by the harness); rewrite lists of <=%d records and "
        "capture histories of <=%d steps x the 4 path addressings (capture histories of that length also through _append_jsonl_unbuffered, "
        "write-through); same oracle with name = basename, a violating addressed run is classified against its bare-name twin; "
        "rewrite: every record list of length 0..%d over 9 records x 3 streams x file absent/stale, lists <=2 also with a kill before each os call "
        "and handed over as every container kind of Iterable[dict] (list, tuple, dict view, iterator, generator; the generator of the compaction "
        "scenario streams the file being compacted lazily); "
        "rotate: every history of depth <=%d over {append 3, append 10, rotate(max-bytes 8|16, backups 1|2|3)} from 48 initial states "
        "(every subset of .1-.4 x live absent/6 B/20 B), every rotate also killed before each of its os-level calls; non-trivial = directory changed; "
        "capture: every producer history of 1..%d steps over {append the producer's one re-used dict, rebind keys, add a key, delete/restore a key, "
        "clear+refill} x 5 streams x CI in %s x 2 append entry points (io.log / orchestrator.logging) x 4 paths to the file (write-through; "
        "LogMux via use_mux + logmux.flush; LogMux via _begin/_end_log_capture + LogStager + unbuffered writer with limit 32 MiB and limit 1): "
        "the file holds, in order, the value every record had when it was appended (identity-normalised under CI); "
        "non-trivial = buffered path and the dict updated after an append; "
        "capture-structure: ONE writer x every complete well-bracketed history of <=%d steps over {write the next record, begin a capture, "
        "end the innermost capture and commit it at once} (sequential captures, captures nested <=3 deep, writes outside any capture; %d "
        "histories) x 2 capture mechanisms (logmux.set_mux/reset_mux; _begin/_end_log_capture) x 2 append entry points x commit of the "
        "outermost capture via logmux.flush / LogStager limit 32 MiB / limit 1 (an inner capture commits via logmux.flush, i.e. through "
        "the capture-aware appender) x 1 or 2 streams x CI values: every file holds the writer's records in write order, none lost or "
        "duplicated, and no file grows while the writer's outermost capture is active; non-trivial = nesting depth >= 2; "
        "rewrite-conc: %d programs of 2%s same-process threads calling rewrite_jsonl (same target with short/long, long/short, equal-length "
        "record lists; two targets in one directory; file absent/stale%s) x EVERY schedule with <= 1%s preemptions at line granularity "
        "inside clematis/io/atomic.py: no call fails, each target ends as exactly one writer's complete record list; non-trivial = >=1 preemption; "
        "append-threads: %d programs of 2%s appender threads of one process (1-2 records each; same stream / different streams; append_jsonl / "
        "_append_jsonl_unbuffered) on real files x EVERY schedule with <= 1%s preemptions at line granularity inside clematis/io/log.py: no call "
        "fails, every stream holds exactly its own records as complete lines, per-writer order kept; "
        "lifecycle: every history of %d operations of ONE process over {append to stream X via append_jsonl, via _append_jsonl_unbuffered, append "
        "to a second stream, compaction of X (read + rewrite_jsonl), rotate_logs.main over the directory} x X in t1.jsonl/zz_custom.jsonl x backups "
        "1/2 x max-bytes 1/150 (rotate always / from the second record on), each history on a directory of its own, the directory compared with "
        "the reference model (live record list + generations) after EVERY step; non-trivial = an append to X after its file was replaced or renamed"
        % ("-2" if th else "", " / 5 KiB" if th else "", "4096/8192/131072" if th else "4096/8192", nmax, nfiles,
           nmax - 1, nmax - 2, ramax, camax, rmax, depth,
           cmax, "/".join(repr(c) for c in cis), nlen, len(nhist), len(ccases), "-3" if th else "",
           "; the t1.jsonl two-writer programs also with a reader thread whose one whole-file read is placed by the schedule" if th else "",
           " (<= 2 for the two-writer programs on custom.jsonl and one two-target program)" if th else "",
           len(acc), "-3" if th else "", " (<= 2 for four two-thread programs)" if th else "", lclen))
    run.assume("a raw write() to a regular file is not short and an O_APPEND write(2) is atomic w.r.t. other appenders (POSIX local fs); "
               "open(path,'ab') maps to O_APPEND — the virtual device takes the semantics from the mode string")
    run.assume("append-only writers cannot observe each other, so each writer's raw-event sequence is obtained from a solo run and all "
               "interleavings are materialised from these sequences (event payloads must not depend on observed offsets)")
    run.assume("process death = BaseException raised before an os-level call (no power loss: completed renames/unlinks persist); rename(2) atomic")
    run.assume("records are JSON objects with valid Unicode strings and finite numbers (no lone surrogates / NaN)")
    run.assume("rewrite_jsonl fault plans beyond single kill points (errno faults, short writes, readers) are decided by C08")
    run.assume("capture: between append and commit-phase flush the producer only rebinds / adds / removes TOP-LEVEL keys of its dict "
               "(new value objects); in-place edits of nested lists/dicts of an already appended record and the raw "
               "logmux.write_or_buffer hand-over are outside the alphabet (the statement is silent on them)")
    run.assume("capture-structure: captures of one writer are begun and ended LIFO in one thread / one context; an ended capture is committed "
               "immediately (dump, end, flush) - a commit deferred past later writes of the same writer, captures ended out of order and "
               "an inner capture committed straight to disk by the unbuffered writer are not in the alphabet")
    run.assume("rewrite-conc: writers are threads of one process, a thread switch can happen before any source line of "
               "clematis/io/atomic.py (library calls made from one line are atomic w.r.t. the schedule); schedules with more "
               "preemptions than the bound and concurrent writer PROCESSES are not explored")
    run.assume("append: an implementation may keep a handle open across calls; its raw events are attributed to the writer that is running "
               "(shared open file description, one process); whether such a handle still names the stream after compaction / rotation is the "
               "lifecycle leg's question")
    run.assume("append-threads: a thread switch can happen before any source line of clematis/io/log.py (calls made from one line, including "
               "the write itself, are atomic w.r.t. the schedule); one uncontrolled sequential run precedes the exploration of each program")
    run.assume("lifecycle: maintenance runs between (not during) the appends of the same process; compaction and rotation are called in-process "
               "through their public entry points; histories start from an empty directory and keep one backup count, so generations are "
               "contiguous; an EMPTY file left in a slot that should be vacant is tolerated; externally deleted files / directories are not "
               "part of the alphabet (the statement names compaction and rotation only)")
    run.assume("addressing: the NAME of a stream (stage ordinal, identity class) is the basename of the path it is addressed by (docstrings "
               "of default_key_for and rewrite_jsonl; every writer computes it that way); intermediate directories of a path-addressed "
               "stream exist before the first write (the writers are only documented to create the logs directory); a payload staged "
               "under a path but not yet written may be identity-normalised or still as given; two different paths naming one file "
               "(aliases) are not in the alphabet")
    run.assume("rotation threshold (size >= max-bytes rotates) taken from the script's documentation; generations beyond the requested N are not constrained")


def replay(case):
    k = case["kind"]
    if k == "normalize":
        return check_normalize(case)
    if k == "append":
        return [(r[0], r[1]) for r in check_append(case)]
    if k == "stager":
        return check_stager(case)[0]
    if k == "rewrite":
        return check_rewrite(case)[0]
    if k == "rotate-wide":
        st = Stats()
        tmp = tempfile.mkdtemp(prefix="c16w", dir="/dev/shm" if os.path.isdir("/dev/shm") else None)
        try:
            _rotate_wide_worker([(case["g"], case["n"])], st, tmp)
        finally:
            shutil.rmtree(tmp, ignore_errors=True)
        return [(sg, w) for sg, (w, _c) in st.viol.items()]
    if k == "rotate":
        return check_rotate(case)
    if k == "capture":
        return check_capture(case)
    if k == "capture-nest":
        return check_nest(case)
    if k in ("rewrite-conc", "append-conc"):
        return check_conc(case)
    if k == "lifecycle":
        return check_lifecycle(case)
    raise HarnessError("unknown case kind %r" % (k,))
